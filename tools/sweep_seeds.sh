#!/bin/bash
# For every seeded change: git -C /repo apply, run all 20 quick checks against /repo itself, git -C /repo checkout -- . ; record who fires.
cd /verif
OUT=seeded/RESULTS.tsv
: > $OUT
trap 'git -C /repo checkout -q -- .' EXIT
if [ -n "$(git -C /repo status --porcelain)" ]; then echo "/repo not clean"; exit 9; fi
for d in seeded/C*/; do
  id=$(basename $d)
  git -C /repo apply $PWD/$d/patch.diff || { echo -e "$id\tAPPLY-FAILED" >> $OUT; continue; }
  res=$(for i in $(seq -w 1 20); do echo C$i; done | xargs -P 16 -I{} sh -c './check {} --tier quick > /tmp/sweep.{}.log 2>&1; echo "{}:$?"' | sort | tr '\n' ' ')
  git -C /repo checkout -q -- .
  fired=$(echo $res | tr ' ' '\n' | grep ':1' | cut -d: -f1 | tr '\n' ',')
  broken=$(echo $res | tr ' ' '\n' | grep ':2' | cut -d: -f1 | tr '\n' ',')
  echo -e "$id\tfired=${fired%,}\tanalysis-error=${broken%,}" | tee -a $OUT
done
