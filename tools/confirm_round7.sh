#!/bin/bash
# confirm_round7.sh <worktree-dir-name> : e.g. C03 or C03b; files seeds as seeded/C03_r7_s1,s2 (plain) or s3,s4 (b worktree)
d=$1; c=${d%b}; off=0; [ "$d" != "$c" ] && off=2
for n in 1 2; do
  [ -f /tmp/seed/$d/seed_out/patch$n.diff ] && /verif/tools/confirm_seed.sh /tmp/seed/$d $n ${c}_r7_s$((n+off)) 2>&1 | grep -E "CONFIRMED|REJECTED|FAILED"
done
