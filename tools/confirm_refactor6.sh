#!/bin/bash
# confirm_refactor6.sh <RX> <n> : tests pass with the patch, evidence digest equal on clean and patched tree -> refactors/<RX>6_<n>.diff
r=$1; n=$2; WT=/tmp/seed/$r; cd $WT || exit 9
git checkout -q -- ahrs; git checkout -q --detach main 2>/dev/null
PY=/venv/bin/python
cp refactor_out/evidence$n.py _ev.py
d0=$($PY _ev.py 2>&1 | tail -1)
git apply refactor_out/patch$n.diff || { echo "${r}6_$n APPLY-FAILED"; exit 8; }
$PY -m pytest -q -p no:cacheprovider -n 4 tests > /tmp/${r}6_$n.tests.log 2>&1; T=$?
d1=$($PY _ev.py 2>&1 | tail -1)
git checkout -q -- ahrs; rm -f _ev.py
if [ $T -eq 0 ] && [ "$d0" = "$d1" ] && [ -n "$d0" ]; then
  cp refactor_out/patch$n.diff /verif/refactors/${r}6_$n.diff
  cp refactor_out/evidence$n.py /verif/refactors/${r}6_$n.evidence.py 2>/dev/null
  cp refactor_out/note$n.txt /verif/refactors/${r}6_$n.note.txt 2>/dev/null
  echo "${r}6_$n CONFIRMED digest=$(echo $d0 | cut -c1-40)"
else
  echo "${r}6_$n REJECTED tests=$T d0=$(echo $d0|cut -c1-30) d1=$(echo $d1|cut -c1-30)"
fi
