#!/venv/bin/python
"""Regenerates /verif/MANIFEST.json from the table below (single source of truth for the interface)."""
import json, os
HERE = os.path.dirname(os.path.dirname(os.path.abspath(__file__)))

CLAIMED = {
 "C01": dict(
    technique="algebraic value numbering (exact polynomial normal forms) over the extracted AST of all 8 quaternion->matrix copies, the Hamilton product and the rotation helpers",
    level="AVN identities decided exactly over the reals for every copy of the formula: orthogonality, det=1, agreement with the Euler-Rodrigues matrix, evenness, conjugate->transpose, homomorphism, rotate/q v q*/q_rot. A sign/index/factor slip in any entry of any copy is refuted with a witness. This is the right level because the property is a finite set of polynomial identities in the code's own formulas.",
    note="Real arithmetic (no rounding); unit quaternions modelled as normalised free 4-vectors; trusted base: CPython ast, sa/poly.py, sa/symeval.py transfer functions.",
    ref="DESIGN.md §2 C01"),
 "C09": dict(
    technique="algebraic value numbering of the extracted product/conjugate/inverse/mult_L/mult_R and the scalar-last accessors, with degenerate-arm exploration of special-value branches",
    level="The Hamilton laws (associativity, norm multiplicativity, anti-homomorphism, L/R matrices, operator agreement, inverse on both arms, scalar-last storage) are polynomial identities in the code's own formulas and are decided exactly over the reals for free (non-normalised) quaternions; special-value fast paths are explored arm by arm.",
    note="Real arithmetic; one known finding (Quaternion.inverse divides by the norm; the suite pins it) is listed in known_findings.json.",
    ref="DESIGN.md §2 C09"),
 "C19": dict(
    technique="flow-sensitive may-alias/ownership dataflow with bottom-up callee summaries over all public callables (NO-PARAM-WRITE, NO-CTOR-ARG-WRITE, SELF-PURE, SHARED-STATE, REPEATABLE)",
    level="Effect analysis over every public callable (256 today): no in-place write may reach an object aliasing a caller-owned array (parameters, **kwargs values, constructor arguments kept in self attributes), value classes only mutate their storage through the explicit in-place API, no caches/mutable defaults/unintended RNG. The property quantifies over all callables and arguments, which is exactly what an effect analysis covers and sampling cannot.",
    note="May-analysis over the ast; rows obtained by integer indexing/unpacking are treated as immutable elements (documented rank-1 inputs); NumPy fresh/view/in-place behaviour from the table in sa/flow.py.",
    ref="DESIGN.md §2 C19"),
 "C03": dict(
    technique="forward must-fact dataflow with value numbering (UNIT / REAL facts at every return path of 25 estimator entry points), structural loop-shape rule (COUNT), AVN proof of sum q^2 = 1 for Euler blocks",
    level="Every value-returning path of every estimator entry point must carry the must-fact UNIT and no complex taint; every batch routine's allocation, loop bounds and row stores must agree. A deleted normalisation, an eig without .real, an off-by-one loop bound or np.sum(generator) is reported at the construct. Finiteness under divisions by computed quantities is not decided.",
    note="Derivations of UNIT are the idioms listed in DESIGN.md A.2; parameters named as the previous attitude are assumed unit; NumPy 2's eig is complex-typed.",
    ref="DESIGN.md §2 C03"),
 "C13": dict(
    technique="path-sensitive must-fact dataflow (NZ facts from guards, value-numbered norms) over the per-sample code of the nine recursive filters: GUARD-DIV, UNIT-RET on dropout arms, CONFIG-FROZEN",
    level="Every division by the norm of a raw sensor sample is dominated by a zero-norm guard on all paths, every early-return arm returns a unit quaternion, and per-sample code never re-assigns configuration. These are the structural necessary conditions for 'a dropout never yields NaN/non-unit output nor changes later processing'; recovery accuracy is not decided.",
    note="Sensor parameters are the non-attitude parameters of the listed functions; guard idioms as in DESIGN.md A.3.",
    ref="DESIGN.md §2 C13"),
 "C06": dict(
    technique="effect/read-set analysis over the resolved call graph from each streaming entry point (NO-DATA-READ with default-arm skipping, CONFIG-NOT-FROM-DATA, ARG-HONOURED), structural PROTOCOL match of every batch loop, alias-based ISOLATION, RNG reachability",
    level="Batch == streaming follows when both routes execute the same statements on the same state: the check establishes that streaming code reads no batch attribute, that no configuration it reads was chosen from batch data, that every batch loop body is exactly the streaming call on (Q[t-1], samples[t]), that per-call arguments are honoured, that carried state is per instance and that no RNG is reachable. Bit-identity itself is not computed.",
    note="Call graph resolution through self/MRO/typed locals; one known finding (Madgwick default gain chosen from the presence of mag data).",
    ref="DESIGN.md §2 C06"),
 "C11": dict(
    technique="must-fact dataflow on the three constructors (shape / exact NaN-safe zero-norm / self-normalisation gates dominate ndarray.__new__; _assert_SO3 dominates DCM construction on every keyword arm), structural contents of the SO(3) gates, UNIT/REAL facts on the quaternion-producing helpers",
    level="Every path to object creation in Quaternion/QuaternionArray/DCM must pass the gates that make the class invariant ('every object is a valid rotation') hold, with the zero test in the only form that is both exact and NaN-safe; the SO(3) gates must conjoin det and orthogonality tests; +,- re-enter the constructor. The acceptance boundary set by NumPy's default tolerances is not evaluated.",
    note="Gate forms are classified syntactically (table in props/c11.py); AVN proves sum q^2 = 1 for Quaternion.from_rpy.",
    ref="DESIGN.md §2 C11"),
 "C14": dict(
    technique="table/data agreement rules (model-selection thresholds vs COF headers, packed g/h index agreement of loader/scaler/reader, loop bounds, no truncation of dt) plus an exact AVN comparison of the extracted scaling+synthesis code at degree 3 with symbolic Gauss coefficients against the closed-form Schmidt semi-normalised synthesis",
    level="Equality with an independent evaluator for all inputs is numerical and not claimed. Claimed: the structural necessary conditions (right file for each date, writer/reader index agreement, full loop ranges, secular-variation time) and an exact polynomial identity of the code's recursion and sums with the textbook synthesis up to degree 3 for symbolic coefficients, radius, latitude and longitude, which any indexing/recursion/sign slip in the uniform loops breaks.",
    note="Degrees 4-12 rely on loop uniformity; geodetic->spherical conversion and the polar special case are not covered; real arithmetic.",
    ref="DESIGN.md §2 C14"),
 "C15": dict(
    technique="typestate (RAW/SCALED coefficient tables) and must-call dataflow over magnetic_field/reset_coefficients, truthiness lint for zero-containing numeric parameters, value-numbered derived elements, guarded division by cos(latitude), AVN involution of the NED<->ENU map",
    level="History independence is a typestate property: every path to the in-place Schmidt scaling must be dominated by a reload, and every reload path must refresh date, epoch and coefficients together. Entry-point agreement, element consistency and the treatment of latitude/longitude 0 are effect/dataflow facts.",
    note="Pole finiteness beyond the guard, +/-180 degree equality and calendar rounding are not decided.",
    ref="DESIGN.md §2 C15"),
 "C17": dict(
    technique="AVN identities on the extracted frame formulas (transpose/orthogonality, composition of inverse pairs, linear isometry), exact forward-model check of the post-iteration height formula on every inequality arm, reaching-definitions analysis of frames.py, no memoised array results",
    level="Every inverse pair that is a closed form (ECEF<->ENU, ENU<->AER, ENU<->DCA, NED<->ENU, LLF rotations) is decided exactly as a composition identity; the ECEF->ENU map is proved a linear isometry sending the origin to 0. For the iterative geodetic inverse only the converged-latitude height formula and definedness of locals are decided; convergence and accuracy are not.",
    note="Real arithmetic; range validation branches assumed not taken; cos(lat) > 0 and N+h > 0 declared for the height obligation.",
    ref="DESIGN.md §2 C17"),
 "C20": dict(
    technique="exact AVN interpretation of Sensors.generate with symbolic rotations, references, noise levels, random draws and bias (both in_degrees arms, both outcomes of every data-dependent branch), CONFIG-FROZEN effect rule, value-numbered ground-truth identities at the end of __init__, zero-option lint",
    level="Row i of each synthetic sensor equals rotations[i]^T times the reference attribute plus draw x configured noise on every arm; the gyroscope bias coefficient equals the reported one in both unit arms; generate() never overwrites configuration; rotations/angles/velocities derive from the stored, unmodified quaternions. Gyro integration reproducing the trajectory is numerical and not decided.",
    note="Random draws are modelled as fresh symbols in source order; real arithmetic.",
    ref="DESIGN.md §2 C20"),
 "C16": dict(
    technique="AVN identities over symbolic (a, f, GM, w): derived constants, Pizzetti's theorem on every return arm (general, f = 0, inequality-guarded), Somigliana at equator/pole, latitude parity, the free-air height factor with an interval-arithmetic sign argument; SHARED-STATE effect rule",
    level="The level-ellipsoid identities are rational-function identities in the code's own closed forms (the arctan terms cancel), decided exactly for all parameters at once, arm by arm; that is stronger than any sampling of the 4-parameter space. Positivity and closeness to sphere values for small f are not decided.",
    note="Real arithmetic; arctan(e') is an uninterpreted atom; 1-f > 0 and a > 0 declared.",
    ref="DESIGN.md §2 C16"),
 "C08": dict(
    technique="AVN identities: every hand-written Omega(w) matrix against the extracted Hamilton product, the closed-form integrator against the exact exponential, the series integrator against matrix-power partial sums for each order, null-accelerometer dead-reckoning steps of Madgwick/Mahony/AQUA, EKF/ROLEQ predictors, angular_velocities formula",
    level="Exactness for constant rates is the polynomial/trigonometric identity 'update == q (x) exp(w dt/2)' in the code's own formula, decided exactly (same half angle, per-call dt, matrix not element-wise powers); the stated order of the series method follows from its terms being the exponential's partial sums. Error constants are not computed.",
    note="Real arithmetic; unit quaternions as symbols with the declared relation w^2 = 1 - x^2 - y^2 - z^2; Quaternion.ode is accepted in either frame convention (undocumented).",
    ref="DESIGN.md §2 C08"),
 "C12": dict(
    technique="AVN twin comparison of the two slerp copies on all four arms, AVN identities on the SLERP/LERP arms (unit norm, constant angular speed, end points, sign-flip invariance), integer AVN on the extracted slice/neighbour/weight-count expressions of slerp_nan, value-numbered state ordering, twin value numbering of remove_jumps/q_correct",
    level="The geodesic properties of SLERP are trigonometric identities in the code's own weights and are decided exactly for all unit endpoints and weights, per branch; gap filling is index arithmetic decided over symbolic interval bounds. Rounding at the LERP/SLERP switch is not decided.",
    note="Unit endpoints as symbols with declared unit relations; arccos atoms with cos(arccos d) = d, sin(arccos d) = sqrt(1-d^2).",
    ref="DESIGN.md §2 C12"),
 "C10": dict(
    technique="AVN identities on the extracted conversions (arguments of the arctan2/arcsin atoms of to_angles o from_rpy, axis-angle matrices and inverses, exp o log, q**a against [cos(a t), u sin(a t)], rotation/rot_seq/DCM keyword constructors against ordered elementary products) and the BAND rule turning literal isclose tolerances of identity shortcuts into rotation-angle intervals",
    level="Each round trip is decided exactly as an identity between the code's own formulas (per branch, including threshold-guarded arms reachable inside the stated domain); shortcut thresholds are compared with the domain by literal arithmetic. Branch cuts at +/-pi, gimbal lock and small-angle conditioning are not decided.",
    note="Half-angle atoms with double-angle expansion; arccos/arctan2 atoms with the usual sin/cos compositions; generic position inside the stated open domains (sin, cos of the half angle positive).",
    ref="DESIGN.md §2 C10"),
 "C18": dict(
    technique="AVN identities on the extracted metrics (argument swap, sign invariance, left/right invariance under a unit quaternion / its matrix, closed forms in d = q1.q2), form and literal-tolerance band of every zero shortcut, single-vs-batch twins on non-normalised rows",
    level="Symmetry, sign invariance, bi-invariance and the closed forms are polynomial/trigonometric identities of the code's formulas, decided exactly for all pairs; each `return 0` shortcut must compare +/-q1 with q2 and its tolerance band must lie below the property's smallest angle. The triangle inequality is not an identity and is not decided.",
    note="min/abs/arccos are uninterpreted symmetric atoms; unit quaternions carry declared unit relations; witnesses are sampled on the unit manifold.",
    ref="DESIGN.md §2 C18"),
 "C07": dict(
    technique="AVN twin comparison: each vectorised copy is interpreted on a two-row array of independent symbols and every output row must be the identical exact expression the scalar copy yields for that row (classes in both storage orders, hughes/chiaverini, Tilt, SAAM, am_estimation, am2angles, metrics); FLOW rule on option forwarding inside batch routines; DISPATCH rule on the three DCM->quaternion dispatchers",
    level="Row-wise equality of hand-duplicated formulas is decided exactly for all rows at once (a transposed index or flipped sign in one copy changes its normal form); option forwarding and dispatcher agreement are structural facts over every call site. Bitwise float equality is not decided.",
    note="Generic arms of data-dependent branches (sign atoms, clip transparent); SAAM compared on unit samples to bound expression size.",
    ref="DESIGN.md §2 C07"),
 "C02": dict(
    technique="AVN inversion identity E(method(E(q))) == E(q) on every arm of every method (all decision paths of shepperd's pivot selection, chiaverini/hughes 3x3 and Nx3x3, the 16 threshold arms of sarabandi in the thorough tier, the eigen-identity K(E(q)) u = u for itzhack), PIVOT rule tying shepperd's divisor to the selected largest entry, UNIT/REAL must-facts on all return paths, DISPATCH agreement, BAND and NO-SIGN-ZERO rules",
    level="For a symbolic unit quaternion the matrix is polynomial, and each method's arm is a closed form whose output must reproduce the matrix identically; this decides correctness on the whole arm (including the rarely sampled ones) exactly. The pivot rule is the structural reason the default method is valid at half-turns and the identity. LAPACK accuracy and sign(0) at exact half-turns of the closed-form methods are not decided.",
    note="Unit quaternion as symbols with w^2 = 1 - x^2 - y^2 - z^2; sign/abs atoms with sign*abs = id; generic scalar part positive for hughes.",
    ref="DESIGN.md §2 C02"),
 "C04": dict(
    technique="AVN eigen/fixed-point identities under the symbolic measurement model (Davenport K, OLEQ/ROLEQ W with twin, FLAE W, QUEST characteristic polynomial / Newton derivative / root and closed-form result at consistent data, SAAM and TRIAD closed forms), FLOW and CACHE-COHERENT structural rules",
    level="For a symbolic unit attitude, symbolic references and positive scales, the matrices these estimators hand to their eigen-solvers / iterations have the true attitude as the relevant eigenvector identically, and the closed forms (QUEST at its root, SAAM, TRIAD) return it identically; this is exact on the whole of SO(3) in general position. Convergence of the Newton / power iterations, FAMC, FQA, Tilt, AQUA's branch selection and the singular poses are not decided.",
    note="Direction (q or q*) is whichever the code satisfies exactly and is recorded in the evidence; unit symbols with declared relations.",
    ref="DESIGN.md §2 C04"),
 "C05": dict(
    technique="AVN equilibrium identities (correction terms vanish identically at the truth for consistent data) and feedback-sign identities (Madgwick's J is the formal Jacobian of its objective and the step is a descent step; Mahony's Lyapunov derivative equals -k_P |a x v_a|^2; EKF's measurement Jacobian and Kalman-update structure), OLEQ/ROLEQ fixed direction and twin",
    level="Convergence, its rate, the final tolerance and monotonicity are trajectory properties and are NOT decided. Decided exactly are two necessary conditions visible in the code: the truth is an equilibrium of every corrector, and each closed-form correction has the descent sign/structure (a flipped sign in a Jacobian entry, a swapped cross product or an ascent step is refuted with a witness).",
    note="UKF and AQUA are covered only through the shared equilibrium/twin rules of other properties; FKF through its affine update.",
    ref="DESIGN.md §2 C05"),
}

LINTS = ("; shared shape lints on the property's anchor files (sa/lints.py): dead parameter, crossed positional arguments, bound method used as truth value, "
         "tuple swap of array views, rebinding/memoising shadow attributes of ndarray subclasses, integer-dtype output allocation, mixed-case string comparison, "
         "unit conversion outside its flag, zero treated as missing, incomplete cache key, stale derived attribute, pose-dependent divisor, in-place write to caller arrays, "
         "tolerance-gate angle bands, sign canonicalisation by an own component or of whole rows, first-call latches, frozen positional signatures, names bound nowhere, "
         "subclass-preserving conversions followed by overloaded operators, NaN constants written into computations, unrestored process-wide settings, memoised accessors of "
         "mutable state, two-way selection by mask arithmetic over divisions, and the second lint module (sa/lints2.py): all() as a null test, shape-ambiguous transposition, "
         "column norms of row samples, tolerance null tests, patched zero norms, swallowed non-finite input and swallowed row exceptions, clamped arguments, writing validators, "
         "mismatched None tests, dtype taken from an argument%s, early-return memo keys, tuple keys and memoised accessors of public configuration (CACHE-KEY.early/.tuple/.property), values latched from the object's own data or validated by buffer identity (LATCH.data/.identity), option strings folded by the constructor only (CASE-MIXED.ctor), positions of a mask-compressed copy applied to the full array (INDEX-SPACE), "
         "each with an embedded positive example that must fire on every run")
EXTRA = {
 "C01": "; IDENT.rotate on 3-by-N column arrays",
 "C02": "; inversion on the decision path of six sample rotations per method (sample-selected paths, exact closed forms); interval abstract interpretation of sqrt/arccos arguments (DOMAIN-GUARD); tolerance gates mapped to rotation-angle bands from the extracted closed forms (BAND.gate); INVERT.post (symbolic eigen-solver); SHADOW-INIT shared with C11 (DCM.to_quaternion converts the shadow attribute, which must be the memory the instance is made over - ndarray.__new__ buffer or view-cast base)",
 "C03": "; COUNT.len length analysis, FEEDBACK.guard must-fact; interval abstract interpretation of sqrt/arccos arguments (DOMAIN-GUARD); stale shadow attribute (.A) modelling of ndarray-subclass arithmetic in UNIT-RET; index-form normal form of enumerate/zip sample loops (sa/desugar.py) before COUNT; VALUE-RAISE (no rejection by the values of integrated angles)",
 "C04": "; interval DOMAIN-GUARD, POSE-DIV (divisors of the singularity-free estimator), scale-invariant QUEST inputs, structural discovery of Newton updates, dcm2quat direction on every decision path; AM2Q.dcm scale-invariance obligation and SCALE-GATE (tolerance tests on quantities carrying the free magnitude symbols); QUEST.start, TRIAD.quat",
 "C05": "; interval SHORT-ARC rule for AQUA's delta quaternions; GAIN-INPUT must-fact rule; interpretation-based gradient step; AM-TILT identities of the accelerometer angles; REF-UNIT (value number of the EKF's magnetic reference at every exit)",
 "C06": "; PROTOCOL.rows / PROTOCOL.state (every output row comes from the streaming method; the batch routine initialises no streamed state); option-forwarding clause of PROTOCOL; MODULE-STATE lint (module-level RNG objects, argument-dependent global caches); ROWWISE.route shared with C07",
 "C07": "; ROWWISE structural rule, TWIN.from_DCM on the four pivot arms (sample-selected paths), TWIN.band (both arms gate their limit shortcuts on the same angle band), NO-SIGN-ZERO for metrics, DOMAIN-GUARD; ROWWISE.route (pinned per-row estimate() call sites; un-twinned vectorised arms get no verdict); tolerance tests compared between the scalar and array to_angles; TWIN.nan (same NaN-aware reduction in every arm of rmse)",
 "C08": "; PROTOCOL option forwarding for the batch integrator; ANGVEL.gate (no tolerance gate between consecutive samples); PROTOCOL for every filter whose dead-reckoning / prediction step the property names",
 "C09": "; q_conj row-wise twin; scalar-last matrix rule shared with C01",
 "C10": "; LOG.arm agreement of every inequality-guarded arm of DCM.log with the generic closed form; RPY.gate pole bands; path enumeration of DCM.to_axisangle; LOG.sample (closed form of the decision path of 36 sample rotations); LIMIT-ARM (constant limit arms of Quaternion.exponential/logarithm are guarded by exact tests, predicate methods inlined)",
 "C11": "; BUFFER-LAYOUT (the buffer handed to ndarray.__new__ is provably C-contiguous float64) and REAL-GATE (the shared validator admits real dtypes only); SHADOW-INIT also for view-cast construction",
 "C12": "; value-number form of the NaN-interval split; ownership rule on the interpolation helpers; NANFILL.empty must-fact, NANFILL.mask (rows with any NaN component), NANFILL.options (slerp's own defaults); NANFILL.sample and TWIN.jumps.sample (interpretation with recorders / on sign patterns)",
 "C13": "; DROPOUT-EXIT (zero side of every sample-norm test raises or returns); RECOMPUTED rule; axis-aware norm value numbers; one-level continuation into private helpers with the caller's value numbers and facts; ROLEQ.attitude_propagation discharges the unit assumption of the dropout arm; dead-reckoning obligations shared with C08; SEED-GUARD (call-graph rule: the producer of the initial attitude of every batch method is null-safe, its None answer is tested, or every per-sample consumer validates its a-priori quaternion first)",
 "C14": "; RELOAD must-call rule shared with C15; TABLE.header on a synthetic coefficient file; POLE-EXACT (the unverified polar special case of magnetic_field is guarded by the exact test only)",
 "C15": "; KEEP-DATE (date=None reload is the identity on the date state); MODULE-STATE lint",
 "C16": "; CTOR-ACCEPT (no rejection decided by the sign of w), PIZZETTI on every equality-guarded degenerate arm; every inequality-guarded arm of normal_gravity returns the same closed form; LIMIT (sphere arm is the f -> 0 limit of the general arm, on the extracted closed forms); INHERIT (decided members not overridden by subclasses; instance-independent returns); clip transparency with symbolic bounds; SOMIGLIANA.sphere; GATE.ellipsoid (no tolerance comparison on the ellipsoid's parameters in a decided member)",
 "C17": "; GEODETIC.forward / GEODETIC.angles / ITER-TEST; FIXPOINT obligation on the converged state of the latitude iteration; unit-aware modulo (x % m is a whole number of turns only in x's own angle unit); ORIGIN-DIV must-fact rule on the local-level conversions",
 "C18": "; COINCIDE-GUARD (interval bound of every arccos on angular_distance's route), closed forms of euclidean; LOG.arm agreement; NO-SIGN-ZERO for metrics",
 "C19": "; MODULE-STATE lint; GLOBAL-WRITE (alias analysis: no in-place write into module-level objects); GLOBAL-RETURN",
 "C20": "; sampling step, yaw unit and rate alignment rules; same-source rule (quaternions and angular velocities derive from one value number of ang_pos); RPY round trip of the array route; GROUND-TRUTH.angles by interpretation; ANGVEL / ANGVEL.gate shared with C08",
}
MODULE_STATE = {"C06", "C15", "C19"}

NOT_YET = "check not built yet in this session (work in progress; see DESIGN.md §2 for the planned static rules)"

def main():
    props = [json.loads(l) for l in open(os.path.join(HERE, "properties.jsonl"))]
    checks = []
    na = []
    for p in props:
        pid = p["id"]
        c = CLAIMED.get(pid)
        if c is None:
            na.append({"property_id": pid, "reason": NA.get(pid, NOT_YET)})
            continue
        checks.append({
            "property_id": pid,
            "quick_cmd": "./check %s --tier quick" % pid,
            "thorough_cmd": "./check %s --tier thorough" % pid,
            "evidence_file": "/verif/evidence/%s.json" % pid,
            "replay_cmd_template": "./check %s --tier thorough --replay {path}" % pid,
            "engine": "sa",
            "level_claimed": {"category": "other", "text": c["level"], "design_ref": c["ref"]},
            "level_note": c["note"],
            "technique": c["technique"] + EXTRA.get(pid, "") + LINTS % (", process-wide hidden state" if pid in MODULE_STATE else ""),
        })
    man = {
        "version": 1,
        "setup_cmd": "/venv/bin/python -B -c \"import ast, numpy, fractions; print('static-analysis framework needs no build')\"",
        "hooks": {"guard": "AHRS_VERIF", "enable": "none needed: the checks parse /repo sources and never import them; no hooks were added to /repo",
                  "baseline_off_cmd": "cd /repo && /venv/bin/python -m pytest -ra -q -p no:cacheprovider --timeout=900 --continue-on-collection-errors",
                  "source_commits": [], "add_only": True},
        "engines": [{"name": "sa", "path": "/verif/sa", "serves_properties": sorted(CLAIMED),
                     "kind_free_text": "repository-specific static analyser: ast program model, CFG/dataflow rules, exact polynomial abstract interpretation (AVN)"}],
        "checks": checks,
        "notes": "Every check reads /repo's current sources (AHRS_REPO overrides the root for development), exit 0 = holds, 1 = VIOLATION line, 2 = ANALYSIS-ERROR (anchor vanished / construct outside the analysable fragment).",
        "not_applicable": na,
    }
    json.dump(man, open(os.path.join(HERE, "MANIFEST.json"), "w"), indent=1)
    print("claimed:", sorted(CLAIMED), "n/a:", [x["property_id"] for x in na])

NA = {}
if __name__ == "__main__":
    main()
