#!/bin/bash
# like sweep_seeds.sh (applies each patch to /repo itself, runs the 20 quick checks, reverts) but only for seeded/$1 (glob) and APPENDING / replacing their rows in seeded/RESULTS.tsv
cd /verif
OUT=seeded/RESULTS.tsv
trap 'git -C /repo checkout -q -- .' EXIT
if [ -n "$(git -C /repo status --porcelain)" ]; then echo "/repo not clean"; exit 9; fi
for d in seeded/$1/; do
  id=$(basename $d)
  git -C /repo apply $PWD/$d/patch.diff || { echo -e "$id\tAPPLY-FAILED"; continue; }
  res=$(for i in $(seq -w 1 20); do echo C$i; done | xargs -P 16 -I{} sh -c './check {} --tier quick > /tmp/sweep.{}.log 2>&1; echo "{}:$?"' | sort | tr '\n' ' ')
  git -C /repo checkout -q -- .
  fired=$(echo $res | tr ' ' '\n' | grep ':1' | cut -d: -f1 | tr '\n' ',')
  broken=$(echo $res | tr ' ' '\n' | grep ':2' | cut -d: -f1 | tr '\n' ',')
  grep -v "^$id	" $OUT > $OUT.tmp; mv $OUT.tmp $OUT
  echo -e "$id\tfired=${fired%,}\tanalysis-error=${broken%,}" | tee -a $OUT
done
sort -o $OUT $OUT
