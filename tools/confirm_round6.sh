#!/bin/bash
# confirm_round6.sh Cxx : confirm seed_out/patch{1,2} of /tmp/seed/Cxx sequentially and file them as seeded/Cxx_r6_sN
c=$1
for n in 1 2 3; do
  [ -f /tmp/seed/$c/seed_out/patch$n.diff ] && /verif/tools/confirm_seed.sh /tmp/seed/$c $n ${c}_r6_s$n 2>&1 | grep -E "CONFIRMED|REJECTED|FAILED"
done
