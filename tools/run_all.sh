#!/bin/bash
# run every check (tier $1, default quick) in parallel; print one line per property
TIER=${1:-quick}
cd /verif
for i in $(seq -w 1 20); do echo C$i; done | xargs -P 10 -I{} sh -c './check {} --tier '$TIER' > out/{}.'$TIER'.log 2>&1; echo "{} exit=$? $(tail -1 out/{}.'$TIER'.log | cut -c1-150)"' | sort
