#!/bin/bash
# try_refactor.sh <patch.diff> : apply to the scratch worktree, run all quick checks, print the ones that are not exit 0
P=$1
WT=/tmp/reftest
[ -d $WT ] || git -C /repo worktree add -q --detach $WT HEAD
git -C $WT checkout -q -- . ; git -C $WT checkout -q --detach main
git -C $WT apply $P || { echo "APPLY-FAILED $P"; exit 9; }
res=$(for i in $(seq -w 1 20); do echo C$i; done | xargs -P 16 -I{} sh -c 'AHRS_REPO='$WT' /verif/check {} --tier quick > /tmp/rf.{}.log 2>&1; echo "{}:$?"' | sort | tr '\n' ' ')
git -C $WT checkout -q -- .
bad=$(echo $res | tr ' ' '\n' | grep -v ':0' | tr '\n' ' ')
echo "$(basename $P): ${bad:-all silent}"
for b in $bad; do c=${b%%:*}; grep -E "^(FINDING|ANALYSIS-ERROR)" /tmp/rf.$c.log | head -3 | cut -c1-260; done
