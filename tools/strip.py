#!/venv/bin/python
"""Developer aid: print a module (or selected functions) without docstrings/comments, with original line numbers."""
import ast, sys, tokenize, io
def strip(path, names=None):
    src = open(path).read()
    tree = ast.parse(src)
    skip = set()
    for node in ast.walk(tree):
        if isinstance(node, (ast.FunctionDef, ast.ClassDef, ast.Module, ast.AsyncFunctionDef)):
            b = node.body
            if b and isinstance(b[0], ast.Expr) and isinstance(b[0].value, ast.Constant) and isinstance(b[0].value.value, str):
                for l in range(b[0].lineno, b[0].end_lineno + 1):
                    skip.add(l)
    keep = None
    if names:
        keep = set()
        for node in ast.walk(tree):
            if isinstance(node, (ast.FunctionDef, ast.ClassDef)) and node.name in names:
                for l in range(node.lineno, node.end_lineno + 1):
                    keep.add(l)
    for i, line in enumerate(src.splitlines(), 1):
        if i in skip: continue
        if keep is not None and i not in keep: continue
        s = line.strip()
        if not s or s.startswith('#'): continue
        print(f"{i:5d} {line}")
if __name__ == '__main__':
    strip(sys.argv[1], set(sys.argv[2:]) or None)
