#!/bin/bash
# confirm_round9.sh <Cxx> : moves the agent's worktree to /repo's current main (fix: commits made meanwhile) and files seeds as seeded/Cxx_r9_s1,s2
c=$1
git -C /tmp/seed/$c checkout -q -- ahrs; git -C /tmp/seed/$c checkout -q --detach main
for n in 1 2; do
  [ -f /tmp/seed/$c/seed_out/patch$n.diff ] && /verif/tools/confirm_seed.sh /tmp/seed/$c $n ${c}_r9_s$n 2>&1 | grep -E "CONFIRMED|REJECTED|FAILED"
done
