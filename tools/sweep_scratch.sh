#!/bin/bash
# dev aid: like sweep_seeds.sh but on the scratch worktree /tmp/seedtest (AHRS_REPO) for the seeds matching $1 (glob), output to $2
cd /verif
PAT=${1:-*}; OUT=${2:-out/sweep_scratch.tsv}; : > $OUT
WT=/tmp/seedtest
for d in seeded/$PAT/; do
  id=$(basename $d)
  git -C $WT checkout -q -- . ; git -C $WT checkout -q --detach main
  git -C $WT apply $PWD/$d/patch.diff || { echo -e "$id\tAPPLY-FAILED" >> $OUT; continue; }
  res=$(for i in $(seq -w 1 20); do echo C$i; done | xargs -P 16 -I{} sh -c 'AHRS_REPO='$WT' ./check {} --tier quick > /tmp/ss.{}.log 2>&1; echo "{}:$?"' | sort | tr '\n' ' ')
  git -C $WT checkout -q -- .
  fired=$(echo $res | tr ' ' '\n' | grep ':1' | cut -d: -f1 | tr '\n' ',')
  broken=$(echo $res | tr ' ' '\n' | grep ':2' | cut -d: -f1 | tr '\n' ',')
  echo -e "$id\tfired=${fired%,}\tanalysis-error=${broken%,}" >> $OUT
done
