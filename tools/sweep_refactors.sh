#!/bin/bash
# every behaviour-preserving refactoring in refactors/*.diff must leave every check at exit 0
cd /verif; : > refactors/RESULTS.tsv
for p in refactors/*.diff; do tools/try_refactor.sh $PWD/$p | tee -a refactors/RESULTS.tsv; done
