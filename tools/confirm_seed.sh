#!/bin/bash
# usage: confirm_seed.sh <worktree> <n> <dest-id>   — confirm a seeded change independently and file it under /verif/seeded/<dest-id>/
# steps: clean tree -> demo must exit 0; apply patch -> full test suite must pass, demo must exit 1; revert.
set -u
WT=$1; N=$2; DEST=/verif/seeded/$3
cd "$WT" || exit 9
git checkout -q -- ahrs
cp seed_out/demo$N.py ./_demo.py
PY=/venv/bin/python
$PY _demo.py >/tmp/$3.pristine.log 2>&1; P0=$?
git apply seed_out/patch$N.diff || { echo "$3 APPLY-FAILED"; exit 8; }
WHERE=$($PY -c "import ahrs;print(ahrs.__file__)")
$PY -m pytest -q -p no:cacheprovider -n 4 tests >/tmp/$3.tests.log 2>&1; T=$?
TSUM=$(tail -1 /tmp/$3.tests.log)
$PY _demo.py >/tmp/$3.patched.log 2>&1; P1=$?
git checkout -q -- ahrs
rm -f _demo.py
echo "$3 pristine_demo=$P0 tests_exit=$T ($TSUM) patched_demo=$P1 import=$WHERE"
if [ $P0 -eq 0 ] && [ $T -eq 0 ] && [ $P1 -eq 1 ]; then
  mkdir -p $DEST
  cp seed_out/patch$N.diff $DEST/patch.diff
  cp seed_out/demo$N.py $DEST/demo.py
  $PY - "$WT/seed_out/meta$N.json" "$DEST/meta.json" "$TSUM" <<'PYEOF'
import json,sys
m=json.load(open(sys.argv[1]))
m["confirmed_by_main"]={"pristine_demo_exit":0,"tests":sys.argv[3],"patched_demo_exit":1,
  "ran":"in a scratch worktree: demo on clean tree; git apply patch.diff; /venv/bin/python -m pytest -q -n 4 tests; demo; git checkout -- ahrs"}
json.dump(m,open(sys.argv[2],"w"),indent=1)
PYEOF
  tail -3 /tmp/$3.patched.log > $DEST/demo_output_patched.txt
  echo "$3 CONFIRMED"
else
  echo "$3 REJECTED"
fi
