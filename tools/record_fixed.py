#!/venv/bin/python
"""Rebuild the 'fixed' entries of known_findings.json from /repo's fix: commits (property chosen by the table below)."""
import json, subprocess, sys
PROP_BY_KEYWORD = [
    ("UKF.update passed a generator", "C03"), ("returned a complex array", "C03"), ("returned a complex quaternion", "C03"),
    ("never renormalised", "C03"), ("divided by the norm of a zero", "C13"), ("divided by zero accelerometer norms", "C13"),
    ("in place", "C19"),
]
PROP_BY_KEYWORD = json.load(open('/verif/tools/fix_props.json')) if False else PROP_BY_KEYWORD
def main():
    k = json.load(open('/verif/known_findings.json'))
    k['findings'] = [f for f in k['findings'] if f.get('status') != 'fixed']
    log = subprocess.check_output(['git', '-C', '/repo', 'log', '--reverse', '--format=%h %s', '732729a..HEAD']).decode().strip().splitlines()
    extra = json.load(open('/verif/tools/fix_props.json'))
    for line in log:
        h, msg = line.split(' ', 1)
        if not msg.startswith('fix:'):
            continue
        prop = extra.get(h)
        if prop is None:
            for kw, p in PROP_BY_KEYWORD:
                if kw in msg:
                    prop = p
                    break
        if prop is None:
            print("no property for", line); sys.exit(1)
        k['findings'].append({"property": prop, "status": "fixed", "commit": h, "what": msg[5:], "note": "fixed: property=%s %s %s" % (prop, h, msg[5:])})
    json.dump(k, open('/verif/known_findings.json', 'w'), indent=1)
    print(len([f for f in k['findings'] if f['status'] == 'fixed']), "fixed entries")
main()
