#!/bin/bash
# try_refactor_props.sh <patch.diff> Cxx [Cyy ...] : like try_refactor.sh but only the named checks (after a change confined to those properties)
P=$1; shift
WT=/tmp/reftest
[ -d $WT ] || git -C /repo worktree add -q --detach $WT HEAD
git -C $WT checkout -q -- . ; git -C $WT checkout -q --detach main
git -C $WT apply $P || { echo "APPLY-FAILED $P"; exit 9; }
res=$(for c in "$@"; do echo $c; done | xargs -P 16 -I{} sh -c 'AHRS_REPO='$WT' /verif/check {} --tier quick > /tmp/rf.{}.log 2>&1; echo "{}:$?"' | sort | tr '\n' ' ')
git -C $WT checkout -q -- .
bad=$(echo $res | tr ' ' '\n' | grep -v ':0' | tr '\n' ' ')
echo "$(basename $P): ${bad:-all silent}"
for b in $bad; do c=${b%%:*}; grep -E "^(FINDING|ANALYSIS-ERROR)" /tmp/rf.$c.log | head -3 | cut -c1-260; done
