#!/bin/bash
# usage: tryseed.sh <seed-id> [Cxx ...]   — run checks against a seeded change in a scratch worktree (dev aid)
# (the recorded sweep in seeded/RESULTS.md applies each patch to /repo itself: tools/sweep_seeds.sh)
SEED=$1; shift
WT=/tmp/seedtry
[ -d $WT ] || git -C /repo worktree add -q --detach $WT HEAD
git -C $WT checkout -q -- . ; git -C $WT checkout -q --detach main
git -C $WT apply /verif/seeded/$SEED/patch.diff || exit 9
PROPS="$@"; [ -z "$PROPS" ] && PROPS=$(echo $SEED | cut -c1-3)
for p in $PROPS; do
  AHRS_REPO=$WT /verif/check $p 2>&1 | grep -E "^(VIOLATION|FINDING|ANALYSIS-ERROR|KNOWN|C[0-9]+ tier)" | cut -c1-400
  echo "  -> $SEED vs $p exit=${PIPESTATUS[0]}"
done
git -C $WT checkout -q -- .
