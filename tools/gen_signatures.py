#!/venv/bin/python
"""Freeze the public call signatures of the pinned tree (positional parameters in order, with their defaults) into sa/signatures.json.
Run once on a tree whose API is the reference; the SIGNATURE lint then requires every later tree to keep each tabled list as a prefix."""
import ast, json, os, sys
sys.path.insert(0, os.path.dirname(os.path.dirname(os.path.abspath(__file__))))
from sa.model import Program
from props.c19 import is_public
prog = Program()
table = {}
for f in prog.all_funcs():
    if not is_public(f) or getattr(f, "is_setter", False):
        continue
    a = f.node.args
    params = a.posonlyargs + a.args
    defaults = [None] * (len(params) - len(a.defaults)) + list(a.defaults)
    table[f.ref] = [[p.arg, (ast.unparse(d) if d is not None else None)] for p, d in zip(params, defaults)]
json.dump(table, open(os.path.join(os.path.dirname(os.path.dirname(os.path.abspath(__file__))), "sa", "signatures.json"), "w"), indent=0, sort_keys=True)
print(len(table), "signatures")
