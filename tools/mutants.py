#!/venv/bin/python
"""Mutation sweep (developer aid, not a registered check): how sensitive is a property's check to small edits of the code it analyses?

For every function the check `touch`es, first-order mutants are generated on the AST (operator flips, comparison flips, constant changes,
dropped statements, swapped call arguments, and/or), applied IN MEMORY (Program.mutated), and the property's check (its own rules + the
shared lints) is run on each.  A mutant is
  killed    - the check reports at least one finding (exit 1 on such a tree),
  unknown   - no finding but an analysis error (exit 2: the check refuses to give a verdict),
  survived  - silent (exit 0): either an equivalent mutant or a gap.
Survivors are listed with the mutated statement so that gaps can be told from equivalent mutants by reading.

usage: tools/mutants.py Cxx [--max N] [--jobs J] [--only <substring of function ref>] [--seed S]
"""
import ast
import copy
import importlib
import os
import random
import sys
import time
from multiprocessing import Pool

HERE = os.path.dirname(os.path.dirname(os.path.abspath(__file__)))
sys.path.insert(0, HERE)
sys.setrecursionlimit(10000)

FLIP_BIN = {ast.Add: ast.Sub, ast.Sub: ast.Add, ast.Mult: ast.Div, ast.Div: ast.Mult}
FLIP_CMP = {ast.Lt: ast.GtE, ast.Gt: ast.LtE, ast.LtE: ast.Gt, ast.GtE: ast.Lt, ast.Eq: ast.NotEq, ast.NotEq: ast.Eq}
EDGE_CMP = {ast.Lt: ast.LtE, ast.LtE: ast.Lt, ast.Gt: ast.GtE, ast.GtE: ast.Gt}


def sites(fnode):
    """deterministic list of (kind, path-index) mutation sites of a function"""
    out = []
    doc = ast.get_docstring(fnode)
    for i, n in enumerate(ast.walk(fnode)):
        if isinstance(n, ast.BinOp) and type(n.op) in FLIP_BIN:
            out.append(("binop", i))
        elif isinstance(n, ast.Compare) and len(n.ops) == 1 and type(n.ops[0]) in FLIP_CMP:
            out.append(("cmp", i))
            if type(n.ops[0]) in EDGE_CMP:
                out.append(("cmp-edge", i))
        elif isinstance(n, ast.UnaryOp) and isinstance(n.op, ast.USub):
            out.append(("usub", i))
        elif isinstance(n, ast.BoolOp):
            out.append(("boolop", i))
        elif isinstance(n, ast.Constant) and isinstance(n.value, (int, float)) and not isinstance(n.value, bool):
            if doc is not None and False:
                continue
            out.append(("const", i))
        elif isinstance(n, ast.Call) and len(n.args) == 2 and not n.keywords and not any(isinstance(a, ast.Starred) for a in n.args) \
                and ast.dump(n.args[0]) != ast.dump(n.args[1]):
            out.append(("swapargs", i))
        elif isinstance(n, (ast.Assign, ast.AugAssign)) or (isinstance(n, ast.Expr) and isinstance(n.value, ast.Call)):
            out.append(("delstmt", i))
        elif isinstance(n, ast.If):
            out.append(("iftrue", i))
            out.append(("iffalse", i))
    return out


def apply(fnode, kind, idx):
    """mutate fnode in place; returns a description or None if not applicable"""
    for i, n in enumerate(ast.walk(fnode)):
        if i != idx:
            continue
        before = ast.unparse(n)[:90]
        if kind == "binop":
            n.op = FLIP_BIN[type(n.op)]()
        elif kind == "cmp":
            n.ops = [FLIP_CMP[type(n.ops[0])]()]
        elif kind == "cmp-edge":
            n.ops = [EDGE_CMP[type(n.ops[0])]()]
        elif kind == "usub":
            n.op = ast.UAdd()
        elif kind == "boolop":
            n.op = ast.Or() if isinstance(n.op, ast.And) else ast.And()
        elif kind == "const":
            v = n.value
            n.value = (v + 1) if isinstance(v, int) else (v * 2.0 if v != 0 else 1.0)
        elif kind == "swapargs":
            n.args = [n.args[1], n.args[0]]
        elif kind == "delstmt":
            # replace the statement by `pass` in its parent body
            for parent in ast.walk(fnode):
                for field in ("body", "orelse", "finalbody"):
                    body = getattr(parent, field, None)
                    if isinstance(body, list) and n in body:
                        body[body.index(n)] = ast.Pass()
                        return "%s: %s  ->  pass" % (kind, before)
            return None
        elif kind == "iftrue":
            n.test = ast.Constant(True)
        elif kind == "iffalse":
            n.test = ast.Constant(False)
        return "%s: %s  ->  %s" % (kind, before, ast.unparse(n)[:90] if kind not in ("iftrue", "iffalse") else kind)
    return None


_STATE = {}


def _init(pid):
    from sa.model import Program
    _STATE["prog"] = Program()
    _STATE["mod"] = importlib.import_module("props.%s" % pid.lower())
    _STATE["pid"] = pid


def _run(desc):
    from sa.report import Check
    from sa.model import AnalysisError
    from sa import lints
    from sa.symeval import Interp
    ref, kind, idx = desc
    prog, mod, pid = _STATE["prog"], _STATE["mod"], _STATE["pid"]
    rel, _, q = ref.partition("::")
    info = {}

    def tr(tree):
        cname, _, fname = q.rpartition(".")
        for c in ast.walk(tree):
            if cname and isinstance(c, ast.ClassDef) and c.name == cname:
                for g in c.body:
                    if isinstance(g, ast.FunctionDef) and g.name == fname:
                        info["d"] = apply(g, kind, idx)
                        return info["d"] is not None
            if not cname and isinstance(c, ast.FunctionDef) and c.name == fname and c in tree.body:
                info["d"] = apply(c, kind, idx)
                return info["d"] is not None
        return False
    t0 = time.time()
    try:
        p2 = prog.mutated(rel, tr)
    except Exception as e:
        return (desc, "inapplicable", str(e)[:80], 0.0)
    import signal

    def _to(signum, frame):
        raise TimeoutError()
    signal.signal(signal.SIGALRM, _to)
    signal.alarm(int(os.environ.get("MUTANT_TIMEOUT", "240")))
    try:
        Interp.GATE_LOG.clear()
        chk = Check(pid, "quick", p2, quiet=True)
        try:
            mod.run(chk, p2, "quick")
        except AnalysisError as e:
            chk.errors.append(str(e))
        lints.run_for(chk, p2, pid, extra_files=getattr(mod, "LINT_EXTRA_FILES", ()))
        lints.gate_report(chk, pid)
        known = {(k["property"], k["rule"], k["module"], k["function"], k["construct"]) for k in __import__("sa.report", fromlist=["load_known"]).load_known()
                 if k.get("status") == "known"}
        new = [f for f in chk.findings if f.key() not in known]
        status = "killed" if new else ("unknown" if chk.errors else "survived")
        detail = (new[0].rule if new else (chk.errors[0][:60] if chk.errors else ""))
    except TimeoutError:
        status, detail = "unknown", "timeout"
    except Exception as e:
        status, detail = "unknown", "crash %s: %s" % (type(e).__name__, str(e)[:60])
    finally:
        signal.alarm(0)
    return (desc, status, "%s | %s" % (info.get("d"), detail), time.time() - t0)


def main(argv):
    pid = argv[0].upper()
    mx = int(argv[argv.index("--max") + 1]) if "--max" in argv else 400
    jobs = int(argv[argv.index("--jobs") + 1]) if "--jobs" in argv else 16
    only = argv[argv.index("--only") + 1] if "--only" in argv else None
    seed = int(argv[argv.index("--seed") + 1]) if "--seed" in argv else 1
    from sa.model import Program
    from sa.report import Check
    prog = Program()
    mod = importlib.import_module("props.%s" % pid.lower())
    base = Check(pid, "quick", prog, quiet=True)
    mod.run(base, prog, "quick")
    targets = sorted(r for r in base.analysed["functions"] if "::" in r and (only is None or only in r))
    descs = []
    for ref in targets:
        try:
            f = prog.func(ref)
        except Exception:
            continue
        for kind, idx in sites(f.node):
            descs.append((ref, kind, idx))
    random.Random(seed).shuffle(descs)
    descs = descs[:mx]
    print("# %s: %d target functions, %d mutants (of %s sites)" % (pid, len(targets), len(descs), "all" if len(descs) < mx else "more"))
    with Pool(jobs, initializer=_init, initargs=(pid,)) as pool:
        results = pool.map(_run, descs, chunksize=1)
    tally = {}
    out = os.path.join(HERE, "out", "mutants_%s.tsv" % pid)
    with open(out, "w") as fh:
        for desc, status, detail, dt in sorted(results, key=lambda r: (r[1], r[0])):
            tally[status] = tally.get(status, 0) + 1
            fh.write("%s\t%s\t%s\t%d\t%s\t%.1f\n" % (status, desc[0], desc[1], desc[2], detail, dt))
    print("# %s  ->  %s" % (tally, out))
    n = tally.get("killed", 0) + tally.get("survived", 0) + tally.get("unknown", 0)
    if n:
        print("# killed %.0f%%, unknown %.0f%%, survived %.0f%%" % (100.0 * tally.get("killed", 0) / n, 100.0 * tally.get("unknown", 0) / n, 100.0 * tally.get("survived", 0) / n))


if __name__ == "__main__":
    main(sys.argv[1:])
