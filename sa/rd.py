"""RD: possibly-undefined locals (a use reachable on a path with no definition).  Must-defined forward analysis:
loops may run zero times, so names first bound in a loop body are only possibly defined after it."""
from __future__ import annotations

import ast
import builtins

from .flow import Walker
from .model import Func


class Defined(Walker):
    def __init__(self, func: Func):
        super().__init__(func)
        self.uses = []    # (name, node)
        self.module_names = set(func.module.funcs) | set(func.module.classes) | set(func.module.assigns) | set(func.module.imports)

    def join(self, s1, s2):
        if s1 is None:
            return s2
        if s2 is None:
            return s1
        return {"D": s1["D"] & s2["D"]}

    def analyse(self):
        a = self.func.node.args
        names = {p.arg for p in a.posonlyargs + a.args + a.kwonlyargs}
        if a.vararg:
            names.add(a.vararg.arg)
        if a.kwarg:
            names.add(a.kwarg.arg)
        self.run({"D": frozenset(names)})
        return self

    def _define(self, target, st):
        for n in ast.walk(target):
            if isinstance(n, ast.Name) and isinstance(n.ctx, (ast.Store, ast.Del)):
                st["D"] = st["D"] | {n.id}

    def expr(self, node, st):
        comp_bound = set()
        for n in ast.walk(node):
            if isinstance(n, ast.comprehension):
                for t in ast.walk(n.target):
                    if isinstance(t, ast.Name):
                        comp_bound.add(t.id)
            if isinstance(n, ast.Lambda):
                for p in n.args.args:
                    comp_bound.add(p.arg)
        for n in ast.walk(node):
            if isinstance(n, ast.Name) and isinstance(n.ctx, ast.Load):
                if n.id in st["D"] or n.id in comp_bound or n.id in self.module_names or hasattr(builtins, n.id):
                    continue
                self.uses.append((n.id, n))

    def s_Assign(self, s, st):
        self.expr(s.value, st)
        for t in s.targets:
            for sub in ast.walk(t):
                if isinstance(sub, (ast.Subscript, ast.Attribute)):
                    self.expr(sub.value, st)
            self._define(t, st)
        return st

    def s_AnnAssign(self, s, st):
        if s.value is not None:
            self.expr(s.value, st)
            self._define(s.target, st)
        return st

    def s_AugAssign(self, s, st):
        self.expr(s.value, st)
        if isinstance(s.target, ast.Name):
            if s.target.id not in st["D"]:
                self.uses.append((s.target.id, s.target))
        else:
            self.expr(s.target.value, st)
        return st

    def assign_loop_target(self, target, iter_node, st):
        self._define(target, st)

    def bind_const(self, name, value, st):
        st["D"] = st["D"] | {name}

    def unbind_const(self, name, st):
        pass

    def s_With(self, s, st):
        for it in s.items:
            self.expr(it.context_expr, st)
            if it.optional_vars is not None:
                self._define(it.optional_vars, st)
        return self.block(s.body, st)

    def s_FunctionDef(self, s, st):
        st["D"] = st["D"] | {s.name}
        return st

    def s_Import(self, s, st):
        for al in s.names:
            st["D"] = st["D"] | {(al.asname or al.name).split(".")[0]}
        return st

    s_ImportFrom = s_Import

    def s_Try(self, s, st):
        out = super().s_Try(s, st)
        return out

    def on_return(self, stmt, st):
        if stmt.value is not None:
            self.expr(stmt.value, st)
        self.returns.append((stmt, st))

    def s_Return(self, s, st):
        self.on_return(s, st)
        return None

    def s_Raise(self, s, st):
        if s.exc is not None:
            pass
        return None

    def s_Delete(self, s, st):
        return st
