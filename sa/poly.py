"""Exact polynomial / rational-function domain for algebraic value numbering (AVN).

Domain
------
* ``Atom``  – interned symbol or uninterpreted application ``f(canonical args)``.
* ``Poly``  – dict {monomial: Fraction}; monomial = tuple of (atom_id, exponent) sorted.
* ``Rat``   – num/den of two Polys (den != 0); the scalar abstract value.

Normal form (applied on every product): the relations
    sqrt(P)^2 -> P,  cbrt(P)^3 -> P,  abs(x)^2 -> x^2,  sign(x)^2 -> 1,
    sign(x)*abs(x) -> x,  sin(a)^2 -> 1 - cos(a)^2
have pairwise coprime leading monomials (one atom each; the mixed rule
sign*abs is confluent with the two pure ones), so the reduced form is unique
and ``A == B`` over the reals is decided by ``num_A*den_B - num_B*den_A -> 0``.
A non-zero residual is only a *refutation relative to these relations*; callers
confirm it with ``witness()`` (a valuation of the atoms at which the residual is
numerically non-zero) before reporting a violation, otherwise the verdict is
UNKNOWN.
"""
from __future__ import annotations

import math
import random
from fractions import Fraction

# --------------------------------------------------------------------------- atoms

_ATOMS: list["Atom"] = []
_ATOM_IX: dict = {}


class Atom:
    __slots__ = ("id", "kind", "name", "args", "key")

    def __init__(self, kind, name, args, key):
        self.kind, self.name, self.args, self.key = kind, name, args, key
        self.id = len(_ATOMS)

    def __repr__(self):
        if self.kind == "sym":
            return self.name
        return "%s(%s)" % (self.name, ", ".join(map(str, self.args)))


def _intern(kind, name, args):
    key = (kind, name, tuple(a.key() if isinstance(a, Rat) else a for a in args))
    a = _ATOM_IX.get(key)
    if a is None:
        a = Atom(kind, name, tuple(args), key)
        _ATOMS.append(a)
        _ATOM_IX[key] = a
    return a


def atom(i) -> Atom:
    return _ATOMS[i]


class TooBig(Exception):
    pass


TERM_CAP = 400_000

# --------------------------------------------------------------------------- polys
# A Poly is a plain dict {mono: Fraction}. mono = tuple((atom_id, exp), ...) sorted.

ONE_M = ()


def p_const(c):
    c = Fraction(c)
    return {ONE_M: c} if c else {}


def p_atom(a: Atom):
    return {((a.id, 1),): Fraction(1)}


def p_add(a, b, sign=1):
    if not b:
        return a
    r = dict(a)
    for m, c in b.items():
        v = r.get(m, 0) + sign * c
        if v:
            r[m] = v
        else:
            r.pop(m, None)
    return r


def p_neg(a):
    return {m: -c for m, c in a.items()}


def p_scale(a, c):
    if not c:
        return {}
    return {m: v * c for m, v in a.items()}


def _mono_mul(m1, m2):
    if not m1:
        return m2
    if not m2:
        return m1
    d = dict(m1)
    for a, e in m2:
        d[a] = d.get(a, 0) + e
    return tuple(sorted(d.items()))


SQ_RULES = {}     # atom id -> Poly replacing atom^2 (declared relations, e.g. w^2 -> 1 - x^2 - y^2 - z^2 of a unit quaternion)


def declare_unit(vec):
    """declare sum(v_i^2) == 1 for a vector of plain symbols: the first symbol's square is rewritten (leading monomial v_0^2;
    coprime with every other rule's leading monomial, so the normal form stays unique)"""
    ids = []
    for v in vec:
        (m, c), = v.num.items()
        ids.append(m[0][0])
    repl = p_const(1)
    for i in ids[1:]:
        repl = p_add(repl, {((i, 2),): Fraction(1)}, -1)
    SQ_RULES[ids[0]] = repl


def _needs_reduce(m):
    signs = abss = None
    for a, e in m:
        if e >= 2 and a in SQ_RULES:
            return True
        k = _ATOMS[a]
        if k.kind == "fn":
            n = k.name
            if e >= 2 and n in ("sqrt", "abs", "sign", "sin"):
                return True
            if e >= 3 and n == "cbrt":
                return True
            if n == "sign":
                signs = (signs or []) + [k.args[0].key()]
            elif n == "abs":
                abss = (abss or []) + [k.args[0].key()]
    if signs and abss:
        for s in signs:
            if s in abss:
                return True
    return False


def _reduce_mono(m):
    """Return Poly equal to monomial m under the rewrite relations."""
    if not _needs_reduce(m):
        return {m: Fraction(1)}
    res = {ONE_M: Fraction(1)}
    rest = []
    signs = {}
    abss = {}
    for a, e in m:
        k = _ATOMS[a]
        if k.kind != "fn":
            if e >= 2 and a in SQ_RULES:
                res = p_mul(res, p_pow(SQ_RULES[a], e // 2))
                if e % 2:
                    rest.append((a, 1))
            else:
                rest.append((a, e))
            continue
        n = k.name
        if n == "sqrt" and e >= 2:
            res = p_mul(res, p_pow(k.args[0].num, e // 2))
            if e % 2:
                rest.append((a, 1))
        elif n == "cbrt" and e >= 3:
            res = p_mul(res, p_pow(k.args[0].num, e // 3))
            if e % 3:
                rest.append((a, e % 3))
        elif n == "abs":
            abss[k.args[0].key()] = (a, e, k.args[0])
        elif n == "sign":
            if e % 2:
                signs[k.args[0].key()] = (a, 1, k.args[0])
        elif n == "sin" and e >= 2:
            c = fn_atom("cos", k.args[0])
            one_minus = p_add(p_const(1), p_pow(c.num, 2), -1)
            res = p_mul(res, p_pow(one_minus, e // 2))
            if e % 2:
                rest.append((a, 1))
        else:
            rest.append((a, e))
    for key, (a, e, arg) in abss.items():
        if key in signs and e % 2:
            # sign(x)*abs(x)^(2k+1) -> x^(2k+1)
            del signs[key]
            res = p_mul(res, p_pow(arg.num, e))
            # arg is polynomial by construction of abs atoms (den stripped)
        elif e >= 2:
            res = p_mul(res, p_pow(arg.num, 2 * (e // 2)))
            if e % 2:
                rest.append((a, 1))
        else:
            rest.append((a, e))
    for key, (a, e, arg) in signs.items():
        rest.append((a, 1))
    rest_m = tuple(sorted(rest))
    if rest_m:
        res = p_mul(res, {rest_m: Fraction(1)})
    return res


def p_mul(a, b):
    if not a or not b:
        return {}
    if len(a) * len(b) > TERM_CAP:
        raise TooBig("product of %d x %d terms" % (len(a), len(b)))
    r = {}
    for m1, c1 in a.items():
        for m2, c2 in b.items():
            m = _mono_mul(m1, m2)
            c = c1 * c2
            if _needs_reduce(m):
                for m3, c3 in _reduce_mono(m).items():
                    v = r.get(m3, 0) + c * c3
                    if v:
                        r[m3] = v
                    else:
                        r.pop(m3, None)
            else:
                v = r.get(m, 0) + c
                if v:
                    r[m] = v
                else:
                    r.pop(m, None)
    return r


def p_pow(a, n):
    if n == 0:
        return p_const(1)
    r = None
    base = a
    while n:
        if n & 1:
            r = base if r is None else p_mul(r, base)
        n >>= 1
        if n:
            base = p_mul(base, base)
    return r


def p_is_const(a):
    return not a or (len(a) == 1 and ONE_M in a)


def p_const_value(a):
    return a.get(ONE_M, Fraction(0)) if p_is_const(a) else None


def p_key(a):
    return tuple(sorted(a.items()))


def p_content(a):
    """(c, primitive) with a = c*primitive, primitive has coprime integer coeffs
    and a positive coefficient on its smallest monomial."""
    if not a:
        return Fraction(0), {}
    from math import gcd
    num = 0
    den = 1
    for c in a.values():
        num = gcd(num, abs(c.numerator))
        den = den * c.denominator // gcd(den, c.denominator)
    c = Fraction(num, den)
    lead = a[min(a)]
    if lead < 0:
        c = -c
    return c, {m: v / c for m, v in a.items()}


def p_mono_content(a):
    """largest monomial dividing every term."""
    it = iter(a)
    try:
        first = dict(next(it))
    except StopIteration:
        return ONE_M
    for m in it:
        d = dict(m)
        for k in list(first):
            e = min(first[k], d.get(k, 0))
            if e:
                first[k] = e
            else:
                del first[k]
        if not first:
            return ONE_M
    return tuple(sorted(first.items()))


def _mono_div(m, d):
    dd = dict(m)
    for a, e in d:
        dd[a] -= e
        if not dd[a]:
            del dd[a]
    return tuple(sorted(dd.items()))


def p_div_mono(a, d):
    if not d:
        return a
    return {_mono_div(m, d): c for m, c in a.items()}


def p_exact_div(num, den):
    """quotient q with q*den == num, or None (multivariate long division in a lexicographic order; exact)"""
    if not den or len(den) > 60 or len(num) > 400:
        return None
    ids = sorted({a for p in (num, den) for m in p for a, _ in m})
    order = lambda m: tuple(dict(m).get(a, 0) for a in ids)
    dl = max(den, key=order)
    dc = den[dl]
    rem = dict(num)
    q = {}
    for _ in range(len(num) * 4 + 16):
        if not rem:
            return q
        lt = max(rem, key=order)
        d = dict(lt)
        for a, e in dl:
            if d.get(a, 0) < e:
                return None
            d[a] -= e
            if not d[a]:
                del d[a]
        tm = tuple(sorted(d.items()))
        tc = rem[lt] / dc
        q[tm] = q.get(tm, 0) + tc
        rem = p_add(rem, _p_mul_raw({tm: tc}, den), -1)
    return None


def _p_mul_raw(a, b):
    """product without applying rewrite relations (used by exact division)"""
    r = {}
    for m1, c1 in a.items():
        for m2, c2 in b.items():
            m = _mono_mul(m1, m2)
            v = r.get(m, 0) + c1 * c2
            if v:
                r[m] = v
            else:
                r.pop(m, None)
    return r


def p_str(a, limit=12):
    """canonical text: independent of atom interning order (terms and factors sorted by name)"""
    if not a:
        return "0"
    terms = []
    for m, c in a.items():
        fs = sorted(("%r" % _ATOMS[x] if e == 1 else "%r^%d" % (_ATOMS[x], e)) for x, e in m)
        ms = "*".join(fs)
        deg = sum(e for _, e in m)
        if not ms:
            t = str(c)
        elif c == 1:
            t = ms
        elif c == -1:
            t = "-" + ms
        else:
            t = "%s*%s" % (c, ms)
        terms.append((deg, ms, t))
    terms.sort()
    out = [t for _, _, t in terms[:limit]]
    if len(terms) > limit:
        out.append("... (%d terms)" % len(terms))
    return " + ".join(out).replace("+ -", "- ")


def p_deriv(a, at: Atom):
    """Partial derivative w.r.t. a symbol atom.  Atoms that are applications are
    differentiated through by the chain rule for sqrt/sin/cos only."""
    r = {}
    for m, c in a.items():
        for i, (x, e) in enumerate(m):
            xa = _ATOMS[x]
            if x == at.id:
                m2 = m[:i] + (((x, e - 1),) if e > 1 else ()) + m[i + 1:]
                r = p_add(r, {m2: c * e})
            elif xa.kind == "fn" and _depends(xa, at):
                raise NotImplementedError("derivative through %r" % xa)
    return r


def _depends(a: Atom, at: Atom):
    for arg in a.args:
        if isinstance(arg, Rat):
            for p in (arg.num, arg.den):
                for m in p:
                    for x, _ in m:
                        if x == at.id or (_ATOMS[x].kind == "fn" and _depends(_ATOMS[x], at)):
                            return True
    return False


# --------------------------------------------------------------------------- rationals

class Cond:
    """A comparison between abstract scalars.  ``bool()`` asks the active oracle."""
    __slots__ = ("op", "lhs", "rhs", "text", "tol", "elements")
    oracle = None  # set by the interpreter: callable(Cond) -> bool | None

    def __init__(self, op, lhs, rhs=None, text=None, tol=None):
        self.op, self.lhs, self.rhs, self.text, self.tol = op, lhs, rhs, text, tol
        self.elements = None

    def __bool__(self):
        o = Cond.oracle
        if o is None:
            raise Undecided(self)
        v = o(self)
        if v is None:
            raise Undecided(self)
        return bool(v)

    def __invert__(self):
        return Cond("not", self)

    def __and__(self, other):
        return Cond("and", self, other)

    __rand__ = __and__

    def __or__(self, other):
        return Cond("or", self, other)

    __ror__ = __or__

    def __repr__(self):
        if self.rhs is None:
            return "%s(%s)" % (self.op, self.lhs)
        return "(%s %s %s)" % (self.lhs, self.op, self.rhs)


class Undecided(Exception):
    """A data-dependent branch the obligation's oracle did not decide."""

    def __init__(self, cond):
        super().__init__("data-dependent condition not decided: %r" % (cond,))
        self.cond = cond


def _to_rat(x):
    if isinstance(x, Rat):
        return x
    if isinstance(x, bool):
        return Rat(p_const(int(x)))
    if isinstance(x, int):
        return Rat(p_const(x))
    if isinstance(x, Fraction):
        return Rat(p_const(x))
    if isinstance(x, float):
        if x != x or x in (float("inf"), float("-inf")):
            return sym("nonfinite_%s" % str(x).replace("-", "m"))
        return Rat(p_const(Fraction(repr(x))))
    try:
        import numpy as _np
        if isinstance(x, _np.generic):
            return _to_rat(x.item())
        if isinstance(x, _np.ndarray) and x.ndim == 0:
            return _to_rat(x.item())
    except ImportError:  # pragma: no cover
        pass
    return NotImplemented


class Rat:
    __slots__ = ("num", "den", "_key")

    def __init__(self, num, den=None):
        self._key = None
        if den is None:
            self.num, self.den = num, {ONE_M: Fraction(1)}
            return
        if not num:
            self.num, self.den = {}, {ONE_M: Fraction(1)}
            return
        if not den:
            raise ZeroDivisionError("abstract division by exact zero")
        if len(den) == 1:
            (m, c), = den.items()
            if not m:
                self.num, self.den = (num if c == 1 else p_scale(num, 1 / c)), {ONE_M: Fraction(1)}
                return
        # cheap cancellations: identical, common monomial content, rational content
        if num is den or num == den:
            self.num, self.den = {ONE_M: Fraction(1)}, {ONE_M: Fraction(1)}
            return
        g = p_mono_content(den)
        if g:
            g2 = p_mono_content(num)
            if g2:
                gd = dict(g)
                common = tuple(sorted((a, min(e, gd[a])) for a, e in g2 if a in gd))
                if common:
                    num, den = p_div_mono(num, common), p_div_mono(den, common)
        c, dprim = p_content(den)
        if c != 1:
            num, den = p_scale(num, 1 / c), dprim
        if p_is_const(den):
            cv = den[ONE_M]
            num, den = p_scale(num, 1 / cv), {ONE_M: Fraction(1)}
        elif 1 < len(den) <= len(num) and len(den) <= 40 and len(num) <= 300:
            qd = p_exact_div(num, den)
            if qd is not None and p_mul(qd, den) == num:
                num, den = qd, {ONE_M: Fraction(1)}
        if len(num) == len(den) and len(den) > 1:
            # num = k*den ?
            k = None
            ok = True
            for m, v in den.items():
                w = num.get(m)
                if w is None:
                    ok = False
                    break
                r = w / v
                if k is None:
                    k = r
                elif r != k:
                    ok = False
                    break
            if ok:
                num, den = p_const(k), {ONE_M: Fraction(1)}
        self.num, self.den = num, den

    # --- identity
    def key(self):
        k = self._key
        if k is None:
            k = self._key = (p_key(self.num), p_key(self.den))
        return k

    def __hash__(self):
        return hash(self.key())

    def is_const(self):
        return p_is_const(self.num) and p_is_const(self.den)

    def const(self):
        """Fraction value if constant else None."""
        if self.is_const():
            return p_const_value(self.num) / p_const_value(self.den)
        return None

    def is_zero(self):
        return not self.num

    def same(self, other):
        """Exact equality over the reals (modulo the rewrite relations)."""
        other = _to_rat(other)
        if self.den == other.den:
            return self.num == other.num
        return p_add(p_mul(self.num, other.den), p_mul(other.num, self.den), -1) == {}

    # --- arithmetic
    def __add__(self, o):
        o = _to_rat(o)
        if o is NotImplemented:
            return NotImplemented
        if self.den == o.den:
            return Rat(p_add(self.num, o.num), self.den)
        if p_is_const(self.den) and p_is_const(o.den):
            return Rat(p_add(self.num, o.num))
        return Rat(p_add(p_mul(self.num, o.den), p_mul(o.num, self.den)), p_mul(self.den, o.den))

    __radd__ = __add__

    def __neg__(self):
        return Rat(p_neg(self.num), self.den)

    def __pos__(self):
        return self

    def __sub__(self, o):
        o = _to_rat(o)
        if o is NotImplemented:
            return NotImplemented
        return self + (-o)

    def __rsub__(self, o):
        o = _to_rat(o)
        if o is NotImplemented:
            return NotImplemented
        return o + (-self)

    def __mul__(self, o):
        o = _to_rat(o)
        if o is NotImplemented:
            return NotImplemented
        # cross-cancel identical num/den
        if self.den == o.num and not p_is_const(self.den):
            return Rat(self.num, o.den)
        if o.den == self.num and not p_is_const(o.den):
            return Rat(o.num, self.den)
        return Rat(p_mul(self.num, o.num), p_mul(self.den, o.den) if not (p_is_const(self.den) and p_is_const(o.den)) else p_const(1))

    __rmul__ = __mul__

    def recip(self):
        if not self.num:
            raise ZeroDivisionError("abstract division by exact zero")
        return Rat(self.den, self.num)

    def __truediv__(self, o):
        o = _to_rat(o)
        if o is NotImplemented:
            return NotImplemented
        return self * o.recip()

    def __rtruediv__(self, o):
        o = _to_rat(o)
        if o is NotImplemented:
            return NotImplemented
        return o * self.recip()

    def __pow__(self, n):
        if hasattr(n, "shape") and getattr(n, "shape", ()) != ():
            return NotImplemented       # let numpy broadcast: base ** array is element-wise
        if isinstance(n, Rat):
            c = n.const()
            if c is None:
                return fn("pow", self, n)
            n = c
        if isinstance(n, float):
            n = Fraction(repr(n))
        if isinstance(n, Fraction) and n.denominator == 1:
            n = int(n)
        if isinstance(n, int):
            if n >= 0:
                return Rat(p_pow(self.num, n), p_pow(self.den, n))
            return Rat(p_pow(self.den, -n), p_pow(self.num, -n))
        if isinstance(n, Fraction) and n.denominator == 2:
            return sqrt(self) ** int(n.numerator)
        if isinstance(n, Fraction) and n.denominator == 3:
            return cbrt(self) ** int(n.numerator)
        return fn("pow", self, _to_rat(n))

    def __rpow__(self, base):
        b = _to_rat(base)
        return fn("pow", b, self)

    def __abs__(self):
        return absf(self)

    # --- comparisons produce conditions
    def _cmp(self, op, o):
        o2 = _to_rat(o)
        if o2 is NotImplemented:
            return NotImplemented
        d = self - o2
        c = d.const()
        if c is not None:
            return {"<": c < 0, "<=": c <= 0, ">": c > 0, ">=": c >= 0, "==": c == 0, "!=": c != 0}[op]
        if op in ("==", "!=") and False:
            pass
        return Cond(op, self, o2)

    def __lt__(self, o):
        return self._cmp("<", o)

    def __le__(self, o):
        return self._cmp("<=", o)

    def __gt__(self, o):
        return self._cmp(">", o)

    def __ge__(self, o):
        return self._cmp(">=", o)

    def __eq__(self, o):
        r = self._cmp("==", o)
        return False if r is NotImplemented else r

    def __ne__(self, o):
        r = self._cmp("!=", o)
        return True if r is NotImplemented else r

    def __bool__(self):
        c = self.const()
        if c is not None:
            return c != 0
        return bool(Cond("nonzero", self))

    def __float__(self):
        c = self.const()
        if c is None:
            raise TypeError("abstract scalar is not a constant")
        return float(c)

    def __int__(self):
        c = self.const()
        if c is None or c.denominator != 1:
            raise TypeError("abstract scalar is not an integer constant")
        return int(c)

    __index__ = __int__

    def __repr__(self):
        if p_is_const(self.den) and self.den.get(ONE_M) == 1:
            return p_str(self.num)
        return "(%s)/(%s)" % (p_str(self.num), p_str(self.den))

    # --- numpy ufunc hooks for object arrays (np.sqrt(arr) calls elem.sqrt())
    def sqrt(self):
        return sqrt(self)

    def cbrt(self):
        return cbrt(self)

    def sin(self):
        return sin(self)

    def cos(self):
        return cos(self)

    def tan(self):
        return sin(self) / cos(self)

    def arccos(self):
        return fn("arccos", self)

    def arcsin(self):
        return fn("arcsin", self)

    def arctan(self):
        return fn("arctan", self)

    def arctan2(self, o):
        return arctan2(self, _to_rat(o))

    def exp(self):
        return fn("exp", self)

    def log(self):
        return fn("log", self)

    def sign(self):
        return sign(self)

    def conjugate(self):
        return self

    def square(self):
        return self * self

    def deriv(self, at):
        """d/d(at) for a symbol atom; quotient rule."""
        a = at if isinstance(at, Atom) else _sym_atom(at)
        dn = p_deriv(self.num, a)
        if p_is_const(self.den):
            return Rat(dn, self.den)
        dd = p_deriv(self.den, a)
        return Rat(p_add(p_mul(dn, self.den), p_mul(self.num, dd), -1), p_mul(self.den, self.den))

    def subs(self, mapping):
        """Substitute symbol atoms (by name or Atom) with Rats."""
        mp = {}
        for k, v in mapping.items():
            a = k if isinstance(k, Atom) else _sym_atom(k)
            mp[a.id] = _to_rat(v)
        return _subs_rat(self, mp)

    def atoms(self, acc=None):
        acc = set() if acc is None else acc
        for p in (self.num, self.den):
            for m in p:
                for x, _ in m:
                    if x not in acc:
                        acc.add(x)
                        for arg in _ATOMS[x].args:
                            if isinstance(arg, Rat):
                                arg.atoms(acc)
        return acc

    def nterms(self):
        return len(self.num) + len(self.den)


def _subs_poly(p, mp, cache):
    out = Rat({})
    for m, c in p.items():
        term = Rat(p_const(c))
        for x, e in m:
            term = term * (_subs_atom(x, mp, cache) ** e)
        out = out + term
    return out


def _subs_atom(x, mp, cache):
    if x in cache:
        return cache[x]
    a = _ATOMS[x]
    if x in mp:
        r = mp[x]
    elif a.kind == "sym":
        r = Rat(p_atom(a))
    else:
        args = [(_subs_rat(arg, mp, cache) if isinstance(arg, Rat) else arg) for arg in a.args]
        r = apply_fn(a.name, *args)
    cache[x] = r
    return r


def _subs_rat(r, mp, cache=None):
    cache = {} if cache is None else cache
    n = _subs_poly(r.num, mp, cache)
    if p_is_const(r.den):
        return n / Rat(r.den)
    return n / _subs_poly(r.den, mp, cache)


ZERO = Rat({})
ONE = Rat(p_const(1))


def const(c):
    return Rat(p_const(Fraction(c) if not isinstance(c, float) else Fraction(repr(c))))


def _sym_atom(name):
    return _intern("sym", name, ())


def sym(name) -> Rat:
    return Rat(p_atom(_sym_atom(name)))


PI = sym("pi")


def fn_atom(name, *args) -> Rat:
    return Rat(p_atom(_intern("fn", name, args)))


def fn(name, *args) -> Rat:
    """Uninterpreted application (no simplification)."""
    return fn_atom(name, *[_to_rat(a) for a in args])


def apply_fn(name, *args):
    f = {"sqrt": sqrt, "cbrt": cbrt, "sin": sin, "cos": cos, "abs": absf, "sign": sign,
         "arctan2": arctan2}.get(name)
    if f:
        return f(*args)
    return fn(name, *args)


# --- sqrt ---------------------------------------------------------------------

def _sqrt_fraction(c: Fraction):
    """exact sqrt of a non-negative rational if it is a perfect square else None"""
    if c < 0:
        return None
    n, d = c.numerator, c.denominator
    rn, rd = math.isqrt(n), math.isqrt(d)
    if rn * rn == n and rd * rd == d:
        return Fraction(rn, rd)
    return None


def _squarefree_split(n: int):
    """n = s^2 * r with r squarefree (trial division, n small in practice)"""
    s, r = 1, 1
    p = 2
    while p * p <= n and p < 10_000:
        e = 0
        while n % p == 0:
            n //= p
            e += 1
        s *= p ** (e // 2)
        if e % 2:
            r *= p
        p += 1
    r *= n
    return s, r


def _prime_factors(n: int):
    out, p = [], 2
    while p * p <= n and p < 100_000:
        while n % p == 0:
            out.append(p)
            n //= p
        p += 1
    if n > 1:
        out.append(n)
    return out


POSITIVE_POLYS = []   # the same polynomials, for witness sampling inside the declared domain
POSITIVE = set()     # keys of primitive polynomials declared positive by an obligation (generic-position domain)


def declare_positive(r):
    """obligation-level domain assumption: the value is > 0, so abs(v) = v and sign(v) = 1"""
    r = _to_rat(r)
    c, prim = p_content(r.num)
    prim = prim if c > 0 else p_neg(prim)
    if p_key(prim) not in POSITIVE:
        POSITIVE.add(p_key(prim))
        POSITIVE_POLYS.append(prim)


def p_sqrt_exact(p):
    """polynomial r with r*r == p, or None (classical leading-term algorithm; exact)"""
    if not p or len(p) > 80:
        return None
    ids = sorted({a for m in p for a, _ in m})
    order = lambda m: tuple(dict(m).get(a, 0) for a in ids)     # lexicographic: an admissible monomial order
    lead = max(p, key=order)
    c = p[lead]
    if any(e % 2 for _, e in lead):
        return None
    rc = _sqrt_fraction(c) if c > 0 else None
    if rc is None:
        return None
    r1m = tuple((a, e // 2) for a, e in lead)
    r = {r1m: rc}
    for _ in range(len(p) + 2):
        rem = p_add(p, p_mul(r, r), -1)
        if not rem:
            return r
        lt = max(rem, key=order)
        # t = lt / (2 * r1)
        d = dict(lt)
        ok = True
        for a, e in r1m:
            if d.get(a, 0) < e:
                ok = False
                break
            d[a] -= e
            if not d[a]:
                del d[a]
        if not ok:
            return None
        tm = tuple(sorted(d.items()))
        if tm in r:
            return None
        r = dict(r)
        r[tm] = rem[lt] / (2 * rc)
    return None


def _sqrt_poly(p) -> Rat:
    """sqrt of a polynomial, canonicalised: rational content and even monomial
    powers are pulled out; the remainder becomes one sqrt atom."""
    if not p:
        return ZERO
    c, prim = p_content(p)
    out = ONE
    if c < 0:
        # keep sign inside: sqrt of a (generically) negative content; canonical form uses -prim
        c, prim = -c, p_neg(prim)
    # rational content
    s_n, r_n = _squarefree_split(c.numerator)
    s_d, r_d = _squarefree_split(c.denominator)
    out = out * const(Fraction(s_n, s_d))
    rc = Fraction(r_n, r_d)
    if rc != 1:
        # sqrt(r_n/r_d) = sqrt(r_n*r_d)/r_d ; square-free radicand split into prime atoms so sqrt(6) == sqrt(2)*sqrt(3)
        for pr in _prime_factors(r_n * r_d):
            out = out * fn_atom("sqrt", const(pr))
        out = out / const(r_d)
    # monomial content with even exponents
    g = p_mono_content(prim)
    if g:
        even = tuple((a, e - e % 2) for a, e in g if e - e % 2)
        if even:
            prim = p_div_mono(prim, even)
            for a, e in even:
                out = out * absf(Rat({((a, 1),): Fraction(1)})) ** (e // 2)
    if p_is_const(prim):
        v = prim[ONE_M]
        if v == 1:
            return out
        for pr in _prime_factors(int(v)):
            out = out * fn_atom("sqrt", const(pr))
        return out
    if len(prim) == 1:
        (m, v), = prim.items()
        # single monomial with odd exponents, coefficient is +-1 after content removal
        if v == 1 and len(m) == 1 and m[0][1] == 1:
            a = _ATOMS[m[0][0]]
            if a.kind == "fn" and a.name == "sqrt":
                pass
    for aid, rep in SQ_RULES.items():
        if prim == rep:
            return out * absf(Rat({((aid, 1),): Fraction(1)}))
    if len(prim) == 2 and prim.get(ONE_M) == 1:
        # sqrt(1 - cos(a)^2) -> |sin(a)|
        (m2, c2), = [(m, c) for m, c in prim.items() if m]
        if c2 == -1 and len(m2) == 1 and m2[0][1] == 2 and _ATOMS[m2[0][0]].kind == "fn" and _ATOMS[m2[0][0]].name == "cos":
            return out * absf(fn_atom("sin", _ATOMS[m2[0][0]].args[0]))
    if len(prim) >= 3:
        root = p_sqrt_exact(prim)
        if root is not None:
            return out * absf(Rat(root))
    return out * fn_atom("sqrt", Rat(prim))


def sqrt(x) -> Rat:
    x = _to_rat(x)
    c = x.const()
    if c is not None:
        if c >= 0:
            r = _sqrt_fraction(c)
            if r is not None:
                return const(r)
        return _sqrt_poly(x.num) / _sqrt_poly(x.den)
    if p_is_const(x.den):
        return _sqrt_poly(x.num) / _sqrt_poly(x.den)
    return _sqrt_poly(x.num) / _sqrt_poly(x.den)


def cbrt(x) -> Rat:
    x = _to_rat(x)
    if p_is_const(x.den):
        return fn_atom("cbrt", Rat(p_scale(x.num, 1 / x.den[ONE_M])))
    return fn_atom("cbrt", Rat(x.num)) / fn_atom("cbrt", Rat(x.den))


def absf(x) -> Rat:
    x = _to_rat(x)
    c = x.const()
    if c is not None:
        return const(abs(c))
    # |n/d| = |n|/|d| ; |c*m*p| = |c| * |atoms| * |p|
    def abs_poly(p):
        cc, prim = p_content(p)
        out = const(abs(cc))
        if p_key(prim) in POSITIVE:
            return out * Rat(prim)
        if p_is_const(prim):
            return out * const(abs(prim[ONE_M]))
        if len(prim) == 1:
            (m, v), = prim.items()
            for a, e in m:
                k = _ATOMS[a]
                if k.kind == "fn" and k.name in ("sqrt", "abs"):
                    out = out * Rat({((a, e),): Fraction(1)})
                elif e % 2 == 0:
                    out = out * Rat({((a, e),): Fraction(1)})
                else:
                    out = out * fn_atom("abs", Rat({((a, 1),): Fraction(1)})) * Rat({((a, e - 1),): Fraction(1)}) if e > 1 else out * fn_atom("abs", Rat({((a, 1),): Fraction(1)}))
            return out
        return out * fn_atom("abs", Rat(prim))
    return abs_poly(x.num) / abs_poly(x.den)


def sign(x) -> Rat:
    x = _to_rat(x)
    c = x.const()
    if c is not None:
        return const((c > 0) - (c < 0))

    def sign_poly(p):
        cc, prim = p_content(p)
        out = const(1 if cc > 0 else -1)
        if p_key(prim) in POSITIVE:
            return out
        if p_is_const(prim):
            return out
        if len(prim) == 1:
            (m, v), = prim.items()
            for a, e in m:
                k = _ATOMS[a]
                if e % 2 == 0 or (k.kind == "fn" and k.name in ("sqrt", "abs")):
                    continue
                out = out * fn_atom("sign", Rat({((a, 1),): Fraction(1)}))
            return out
        return out * fn_atom("sign", Rat(prim))
    return sign_poly(x.num) * sign_poly(x.den)


# --- trigonometry ---------------------------------------------------------------
# angle arguments are linear forms  sum c_i * theta_i  (theta_i any atom).  They are
# expanded with the angle-addition formulas down to sin/cos(u_i*theta_i) where u_i is
# the declared unit of theta_i (ANGLE_UNITS, default 1): c_i/u_i must be an integer.

ANGLE_UNITS: dict = {}   # atom key -> Fraction unit


def set_angle_unit(r: Rat, unit):
    (m, c), = r.num.items()
    ANGLE_UNITS[m[0][0]] = Fraction(unit)


def _linear_terms(x: Rat):
    """x as list of (coeff Fraction, atom_id) if x is a rational-linear form in atoms (plus constant 0)."""
    if not p_is_const(x.den):
        return None
    d = x.den[ONE_M]
    out = []
    for m, c in x.num.items():
        if len(m) != 1 or m[0][1] != 1:
            return None
        out.append((c / d, m[0][0]))
    return out


def _cheb(k, s, c):
    """(sin(k a), cos(k a)) from s=sin a, c=cos a, k>=1"""
    sk, ck = s, c
    for _ in range(k - 1):
        sk, ck = sk * c + ck * s, ck * c - sk * s
    return sk, ck


def _sincos_atom(coeff: Fraction, aid: int):
    a = _ATOMS[aid]
    base = Rat({((aid, 1),): Fraction(1)})
    neg = coeff < 0
    coeff = abs(coeff)
    # pi multiples
    if a.kind == "sym" and a.name == "pi":
        t = coeff % 2
        table = {Fraction(0): (0, 1), Fraction(1, 2): (1, 0), Fraction(1): (0, -1), Fraction(3, 2): (-1, 0)}
        if t in table:
            s, c = table[t]
            return const(-s if neg else s), const(c)
        s, c = fn_atom("sin", base * const(coeff)), fn_atom("cos", base * const(coeff))
        return (-s if neg else s), c
    # compositions with inverse functions, coefficient an integer
    if a.kind == "fn" and a.name in ("arccos", "arcsin", "arctan2", "arctan") and coeff.denominator == 1:
        k = int(coeff)
        if a.name == "arccos":
            c1 = a.args[0]
            s1 = sqrt(ONE - c1 * c1)
        elif a.name == "arcsin":
            s1 = a.args[0]
            c1 = sqrt(ONE - s1 * s1)
        elif a.name == "arctan":
            t = a.args[0]
            h = sqrt(ONE + t * t)
            s1, c1 = t / h, ONE / h
        else:
            y, x_ = a.args
            h = sqrt(x_ * x_ + y * y)
            s1, c1 = y / h, x_ / h
        s, c = _cheb(k, s1, c1) if k > 0 else (ZERO, ONE)
        return (-s if neg else s), c
    unit = ANGLE_UNITS.get(aid, Fraction(1))
    q = coeff / unit
    if q.denominator != 1:
        # finer than the declared unit: use this coefficient as its own atom
        s, c = fn_atom("sin", base * const(coeff)), fn_atom("cos", base * const(coeff))
        return (-s if neg else s), c
    k = int(q)
    arg = base * const(unit)
    s1, c1 = fn_atom("sin", arg), fn_atom("cos", arg)
    s, c = _cheb(k, s1, c1) if k > 0 else (ZERO, ONE)
    return (-s if neg else s), c


def sincos(x):
    x = _to_rat(x)
    if x.is_zero():
        return ZERO, ONE
    terms = _linear_terms(x)
    if terms is None:
        # odd/even normalisation on overall sign only
        c, prim = p_content(x.num)
        if c < 0:
            y = -x
            return -fn_atom("sin", y), fn_atom("cos", y)
        return fn_atom("sin", x), fn_atom("cos", x)
    S, C = ZERO, ONE
    for coeff, aid in sorted(terms, key=lambda t: t[1]):
        s, c = _sincos_atom(coeff, aid)
        S, C = S * c + C * s, C * c - S * s
    return S, C


def sin(x):
    return sincos(x)[0]


def cos(x):
    return sincos(x)[1]


def arctan2(y, x):
    y, x = _to_rat(y), _to_rat(x)
    return fn_atom("arctan2", y, x)


# --------------------------------------------------------------------------- numeric witness

def _eval_atom(x, val, cache):
    if x in cache:
        return cache[x]
    a = _ATOMS[x]
    if a.kind == "sym":
        if a.name == "pi":
            v = math.pi
        else:
            v = val(a)
    else:
        args = [evalf(arg, val, cache) if isinstance(arg, Rat) else arg for arg in a.args]
        n = a.name
        try:
            if n == "sqrt":
                v = math.sqrt(args[0]) if args[0] >= 0 else float("nan")
            elif n == "cbrt":
                v = math.copysign(abs(args[0]) ** (1 / 3), args[0])
            elif n == "sin":
                v = math.sin(args[0])
            elif n == "cos":
                v = math.cos(args[0])
            elif n == "abs":
                v = abs(args[0])
            elif n == "sign":
                v = (args[0] > 0) - (args[0] < 0)
            elif n == "arccos":
                v = math.acos(args[0])
            elif n == "arcsin":
                v = math.asin(args[0])
            elif n == "arctan":
                v = math.atan(args[0])
            elif n == "arctan2":
                v = math.atan2(args[0], args[1])
            elif n == "exp":
                v = math.exp(args[0])
            elif n == "log":
                v = math.log(args[0])
            elif n == "pow":
                v = args[0] ** args[1]
            elif n == "mod":
                v = args[0] % args[1]
            elif n == "clip":
                v = min(max(args[0], args[1]), args[2])
            elif n == "min":
                v = min(args)
            elif n == "max":
                v = max(args)
            else:
                # unknown uninterpreted function: deterministic pseudo-value
                v = math.sin(sum((i + 1.37) * float(t) for i, t in enumerate(args)) + hash(n) % 97)
        except (ValueError, OverflowError, ZeroDivisionError):
            v = float("nan")
    cache[x] = v
    return v


def _eval_poly(p, val, cache):
    tot = 0.0
    scale = 0.0
    for m, c in p.items():
        t = float(c)
        for x, e in m:
            t *= _eval_atom(x, val, cache) ** e
        tot += t
        scale += abs(t)
    return tot, scale


def evalf(r: Rat, val, cache=None):
    cache = {} if cache is None else cache
    n, _ = _eval_poly(r.num, val, cache)
    d, _ = _eval_poly(r.den, val, cache)
    return n / d if d else float("nan")


def range_probe(r: Rat, tries=16, seed=7, domain=None):
    """(min, max) of r over sampled valuations that respect the declared unit relations and positivity declarations; None if nothing could be evaluated"""
    rng = random.Random(seed)
    constrained = set()
    for rep in SQ_RULES.values():
        for m in rep:
            for x, _ in m:
                constrained.add(x)
    lo = hi = None
    for k_try in range(tries):
        vals = {}

        def val(at, k_try=k_try):
            if at.id not in vals:
                if at.id in SQ_RULES:
                    sq, _ = _eval_poly(SQ_RULES[at.id], val, {})
                    vals[at.id] = math.sqrt(sq) * rng.choice((1, -1)) if sq >= 0 else float("nan")
                elif at.id in constrained:
                    # the first valuations are the corners of the sampled part of the manifold (all dependent directions at their extreme / at zero)
                    mag = 0.5773 if k_try == 0 else (0.0 if k_try == 1 else rng.uniform(0.0, 0.57))
                    vals[at.id] = mag * rng.choice((1, -1))
                else:
                    l_, h_ = (domain or {}).get(at.name, (0.2, 1.7))
                    vals[at.id] = rng.uniform(l_, h_) * (1 if (domain and at.name in domain) else rng.choice((1, 1, -1)))
            return vals[at.id]
        cache = {}
        try:
            v = evalf(r, val, cache)
        except Exception:
            continue
        if v != v or abs(v) == float("inf"):
            continue
        inside = True
        for pp in POSITIVE_POLYS:
            if all((x in cache) for m in pp for x, _ in m):
                pv, _ = _eval_poly(pp, val, cache)
                if not pv > 0:
                    inside = False
                    break
        if not inside:
            continue
        lo = v if lo is None else min(lo, v)
        hi = v if hi is None else max(hi, v)
    return None if lo is None else (lo, hi)


def witness(a: Rat, b: Rat, seed=0, tries=40, domain=None):
    """Search a valuation of the symbol atoms where a != b numerically.
    Returns (valuation dict, a_val, b_val) or None if a and b agree (to 1e-9 relative
    to the magnitude of the residual's terms) at every tried point.
    ``domain`` maps symbol name -> (lo, hi)."""
    rng = random.Random(seed)
    try:
        resid_n = p_add(p_mul(a.num, b.den), p_mul(b.num, a.den), -1)
    except TooBig:
        resid_n = None      # too large to cross-multiply: compare the two values numerically instead (same sampling discipline)
    constrained = set()          # symbols occurring in a declared unit relation: sampled small so the dependent one is real
    for rep in SQ_RULES.values():
        for m in rep:
            for x, _ in m:
                constrained.add(x)
    for _ in range(tries):
        vals = {}

        def val(at):
            if at.id not in vals:
                if at.id in SQ_RULES:
                    # dependent symbol of a declared relation  at^2 = poly(others): stay on the manifold
                    sq, _ = _eval_poly(SQ_RULES[at.id], val, {})
                    vals[at.id] = math.sqrt(sq) * rng.choice((1, -1)) if sq >= 0 else float("nan")
                elif at.id in constrained:
                    vals[at.id] = rng.uniform(0.1, 0.55) * rng.choice((1, -1))
                else:
                    lo, hi = (domain or {}).get(at.name, (0.2, 1.7))
                    vals[at.id] = rng.uniform(lo, hi) * (1 if (domain and at.name in domain) else rng.choice((1, 1, -1)))
            return vals[at.id]
        cache = {}
        if resid_n is None:
            try:
                av_, bv_ = evalf(a, val, cache), evalf(b, val, cache)
            except Exception:
                continue
            if av_ != av_ or bv_ != bv_ or abs(av_) == float("inf") or abs(bv_) == float("inf"):
                continue
            r, scale = av_ - bv_, max(abs(av_), abs(bv_), 1e-12) * 1e3      # 1e-6 relative: far above rounding of a long evaluation, far below a real difference
        else:
            r, scale = _eval_poly(resid_n, val, cache)
        if r != r or scale != scale:
            continue
        # stay inside the declared domain: every polynomial declared positive whose atoms were sampled must be > 0
        inside = True
        for pp in POSITIVE_POLYS:
            if all((x in cache) for m in pp for x, _ in m):
                v, _ = _eval_poly(pp, val, cache)
                if not v > 0:
                    inside = False
                    break
        if not inside:
            continue
        if abs(r) > 1e-9 * max(scale, 1e-300):
            return ({_ATOMS[i].name: v for i, v in vals.items()}, evalf(a, val, cache), evalf(b, val, cache))
    return None
