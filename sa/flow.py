"""Structured forward dataflow over function ASTs + the ownership/alias analysis (ALIAS).

``Walker`` is a small abstract interpreter over statements (If joins, loops to a fixpoint,
early exits end a path).  Analyses subclass it and supply transfer functions.

``Alias`` computes, for every function, a parametric *summary*:
    ret        placeholders the returned value may alias
    mut        placeholder -> write records (in-place writes that may reach that object)
    cells_out  self attribute -> placeholders it may hold when the function returns
Placeholders: ('param', name) | ('kw', key) | ('cell', attr) | ('global', module, name).
Summaries are composed at call sites (bottom-up, memoised), so a public wrapper that forwards
its argument to a mutating helper is reported with the call path.
"""
from __future__ import annotations

import ast

from .model import Func, Class, Module, Program, AnalysisError, stmt_text

EMPTY = frozenset()


class Walker:
    """structured forward analysis; state = dict, None = unreachable"""
    MAX_ITER = 6

    def __init__(self, func: Func):
        self.func = func
        self.returns = []      # (node, state, value-info)

    # --- lattice (override)
    def join_val(self, a, b):
        return a | b

    def join(self, s1, s2):
        if s1 is None:
            return s2
        if s2 is None:
            return s1
        out = {}
        for k in set(s1) | set(s2):
            a, b = s1.get(k), s2.get(k)
            if a is None or b is None:
                v = self.join_missing(k, a if a is not None else b)
                if v is not None:
                    out[k] = v
            elif k.startswith("const:"):
                if a == b:
                    out[k] = a
            else:
                out[k] = self.join_val(a, b)
        return out

    def join_missing(self, key, present):
        if key.startswith("const:"):
            return None
        return present      # may-analysis default: keep

    # --- driver
    def run(self, state):
        self.breaks, self.continues = [], []
        out = self.block(self.func.body(), state)
        if out is not None:
            self.on_fallthrough(out)
        return out

    def block(self, stmts, st):
        for s in stmts:
            if st is None:
                return None
            st = self.stmt(s, st)
        return st

    def stmt(self, s, st):
        m = getattr(self, "s_" + type(s).__name__, None)
        if m is None:
            return self.s_other(s, st)
        return m(s, st)

    def s_other(self, s, st):
        return st

    def s_Expr(self, s, st):
        self.expr(s.value, st)
        return st

    def s_Return(self, s, st):
        self.on_return(s, st)
        return None

    def s_Raise(self, s, st):
        self.on_raise(s, st)
        return None

    def s_Break(self, s, st):
        self.breaks[-1].append(st)
        return None

    def s_Continue(self, s, st):
        self.continues[-1].append(st)
        return None

    def s_Pass(self, s, st):
        return st

    def s_If(self, s, st):
        self.expr(s.test, st)
        t, f = self.split(s.test, st)
        o1 = self.block(s.body, t) if t is not None else None
        o2 = self.block(s.orelse, f) if f is not None else None
        return self.join(o1, o2)

    def split(self, test, st):
        return dict(st), dict(st)

    def loop(self, s, st, body_entry):
        """generic loop: body_entry(state) -> state at top of body"""
        self.breaks.append([])
        self.continues.append([])
        head = st
        out = None
        for _ in range(self.MAX_ITER):
            entry = body_entry(dict(head))
            end = self.block(s.body, entry)
            for c in self.continues[-1]:
                end = self.join(end, c)
            self.continues[-1] = []
            new_head = self.join(head, end)
            if new_head == head:
                break
            head = new_head
        exit_state = head
        if s.orelse:
            exit_state = self.block(s.orelse, dict(exit_state)) if exit_state is not None else None
        for b in self.breaks[-1]:
            exit_state = self.join(exit_state, b)
        self.breaks.pop()
        self.continues.pop()
        return exit_state

    def s_For(self, s, st):
        self.expr(s.iter, st)
        lits = const_str_list(s.iter)
        if lits is not None and isinstance(s.target, ast.Name):
            # unroll loops over literal string lists (attribute-name idiom)
            self.breaks.append([])
            self.continues.append([])
            for lit in lits:
                if st is None:
                    break
                st = dict(st)
                self.bind_const(s.target.id, lit, st)
                st = self.block(s.body, st)
                for c in self.continues[-1]:
                    st = self.join(st, c)
                self.continues[-1] = []
            for b in self.breaks[-1]:
                st = self.join(st, b)
            self.breaks.pop()
            self.continues.pop()
            if st is not None:
                self.unbind_const(s.target.id, st)
            return st

        def entry(state):
            self.assign_loop_target(s.target, s.iter, state)
            return state
        return self.loop(s, st, entry)

    def s_While(self, s, st):
        def entry(state):
            self.expr(s.test, state)
            t, f = self.split(s.test, state)
            return t
        out = self.loop(s, st, entry)
        if out is not None:
            _, f = self.split(s.test, out)
            # while True never exits normally
            if isinstance(s.test, ast.Constant) and s.test.value is True:
                br = None
                return br if out is None else out
            return f if f is not None else out
        return out

    def s_Try(self, s, st):
        body_out = self.block(s.body, dict(st))
        outs = [body_out]
        for h in s.handlers:
            # handler may start from any point of the body: approximate with join(entry, body_out)
            outs.append(self.block(h.body, dict(self.join(st, body_out) or st)))
        out = None
        for o in outs:
            out = self.join(out, o)
        if s.orelse and body_out is not None:
            out = self.join(self.block(s.orelse, dict(body_out)), out)
        if s.finalbody and out is not None:
            out = self.block(s.finalbody, out)
        return out

    def s_With(self, s, st):
        for it in s.items:
            self.expr(it.context_expr, st)
        return self.block(s.body, st)

    def s_Assign(self, s, st):
        self.expr(s.value, st)
        self.on_assign(s.targets, s.value, s, st)
        return st

    def s_AnnAssign(self, s, st):
        if s.value is not None:
            self.expr(s.value, st)
            self.on_assign([s.target], s.value, s, st)
        return st

    def s_AugAssign(self, s, st):
        self.expr(s.value, st)
        self.on_augassign(s, st)
        return st

    def s_FunctionDef(self, s, st):
        return st

    # --- hooks
    def expr(self, node, st):
        """visit an expression for its effects (calls)"""
        for n in ast.walk(node):
            if isinstance(n, ast.Call):
                self.on_call(n, st)

    def on_call(self, node, st):
        pass

    def on_assign(self, targets, value, stmt, st):
        pass

    def on_augassign(self, stmt, st):
        pass

    def on_return(self, stmt, st):
        self.returns.append((stmt, st))

    def on_raise(self, stmt, st):
        pass

    def on_fallthrough(self, st):
        self.returns.append((None, st))

    def assign_loop_target(self, target, iter_node, st):
        pass

    def bind_const(self, name, value, st):
        st["const:" + name] = value

    def unbind_const(self, name, st):
        st.pop("const:" + name, None)


def const_str_list(node):
    if isinstance(node, (ast.List, ast.Tuple)) and node.elts and all(isinstance(e, ast.Constant) and isinstance(e.value, str) for e in node.elts):
        return [e.value for e in node.elts]
    return None


# --------------------------------------------------------------------------- numpy effect tables

NP_VIEW = {"asarray", "asanyarray", "atleast_1d", "atleast_2d", "atleast_3d", "ravel", "reshape", "squeeze", "transpose",
           "swapaxes", "moveaxis", "real", "imag", "broadcast_to", "expand_dims", "ascontiguousarray", "asfarray"}
NP_INPLACE_FIRST = {"copyto", "put", "place", "putmask", "fill_diagonal"}
NP_COPY_FALSE_INPLACE = {"nan_to_num"}       # np.nan_to_num(x, copy=False) overwrites x
ARR_VIEW_METHODS = {"reshape", "ravel", "view", "squeeze", "transpose", "swapaxes", "diagonal"}
ARR_VIEW_ATTRS = {"T", "real", "imag", "flat", "A", "array", "mT"}
ARR_INPLACE_METHODS = {"sort", "fill", "resize", "put", "itemset", "partition", "setfield", "byteswap"}
SCALAR_ATTRS = {"shape", "ndim", "size", "dtype", "nbytes", "itemsize"}
SCALAR_ANN = {"float", "int", "str", "bool", "complex", "None"}


def ann_is_scalar(ann):
    """annotation names only scalar types"""
    if ann is None:
        return None
    names = set()
    for n in ast.walk(ann):
        if isinstance(n, ast.Name):
            names.add(n.id)
        elif isinstance(n, ast.Attribute):
            names.add(ast.unparse(n))
        elif isinstance(n, ast.Constant) and n.value is None:
            names.add("None")
    names -= {"Union", "Optional", "typing"}
    if not names:
        return None
    return names <= SCALAR_ANN


class Summary:
    def __init__(self):
        self.ret = EMPTY
        self.mut = {}          # placeholder -> list of records
        self.cells_out = {}    # attr -> frozenset
        self.ret_class = None  # Class of returned object if known
        self.reads_cells = set()
        self.done = False

    def add_mut(self, ph, rec):
        lst = self.mut.setdefault(ph, [])
        if all(r["key"] != rec["key"] for r in lst):
            lst.append(rec)


class Alias:
    """whole-program ownership/alias analysis producing per-function summaries"""

    def __init__(self, prog: Program):
        self.prog = prog
        self.summaries: dict[str, Summary] = {}
        self.in_progress = set()
        self.unresolved_calls = 0
        self.resolved_calls = 0

    def summary(self, func: Func) -> Summary:
        s = self.summaries.get(func.ref)
        if s is not None:
            return s
        if func.ref in self.in_progress:
            return Summary()      # optimistic for recursion
        self.in_progress.add(func.ref)
        try:
            w = _AliasWalker(self, func)
            s = w.analyse()
        finally:
            self.in_progress.discard(func.ref)
        s.done = True
        self.summaries[func.ref] = s
        return s

    def ctor_summary(self, cls: Class):
        """(result origins as placeholders of ctor params, cells_out) for Class(...) calls"""
        new, init = cls.lookup("__new__"), cls.lookup("__init__")
        ret = EMPTY
        cells = {}
        mut = {}
        for f in (new, init):
            if f is None:
                continue
            s = self.summary(f)
            if f is new:
                ret |= s.ret
            for a, v in s.cells_out.items():
                cells[a] = cells.get(a, EMPTY) | v
            for ph, recs in s.mut.items():
                mut.setdefault(ph, []).extend(recs)
        return ret, cells, mut, (new or init)


def _rec(func: Func, node, what, path=()):
    return {"key": (func.ref, stmt_text(node), what), "func": func.ref, "line": getattr(node, "lineno", None),
            "stmt": stmt_text(node), "what": what, "path": list(path)}


class _AliasWalker(Walker):
    def __init__(self, alias: Alias, func: Func):
        super().__init__(func)
        self.alias = alias
        self.prog = alias.prog
        self.mod = func.module
        self.sum = Summary()
        self.local_types = self._infer_types()
        a = func.node.args
        self.kwarg_name = a.kwarg.arg if a.kwarg else None
        self.self_name = None
        if func.cls is not None and not func.is_static and func.params:
            self.self_name = func.params[0]
        self.is_new = func.name == "__new__"

    # ---- setup
    def _infer_types(self):
        types = {}
        bad = set()
        for n in ast.walk(self.func.node):
            if isinstance(n, ast.Assign) and len(n.targets) == 1 and isinstance(n.targets[0], ast.Name):
                name = n.targets[0].id
                c = self._ctor_class(n.value)
                if c is not None:
                    if name in types and types[name] is not c:
                        bad.add(name)
                    types[name] = c
        for b in bad:
            types.pop(b, None)
        return types

    def _ctor_class(self, value):
        if isinstance(value, ast.Call):
            r = self.resolve(value.func)
            if isinstance(r, Class):
                return r
            # super(X, subtype).__new__(...) -> instance of own class
            if isinstance(value.func, ast.Attribute) and value.func.attr == "__new__" and self.func.cls is not None:
                return self.func.cls
        return None

    def resolve(self, node):
        try:
            if isinstance(node, ast.Name):
                return self.mod.resolve_name(node.id)
            if isinstance(node, ast.Attribute):
                return self.mod.resolve_name(ast.unparse(node))
        except Exception:
            return None
        return None

    def analyse(self):
        st = {}
        a = self.func.node.args
        allp = a.posonlyargs + a.args + a.kwonlyargs
        for i, p in enumerate(allp):
            if self.self_name is not None and p.arg == self.self_name and i == 0:
                continue
            st[p.arg] = frozenset([("param", p.arg)])
        if a.vararg:
            st[a.vararg.arg] = frozenset([("param", a.vararg.arg)])
        if self.kwarg_name:
            st[self.kwarg_name] = frozenset([("kwdict",)])
        self.run(st)
        # exit: join of return states gives cells_out
        cells = {}
        for node, rst in self.returns:
            if rst is None:
                continue
            for k, v in rst.items():
                if k.startswith("self."):
                    cells[k[5:]] = cells.get(k[5:], EMPTY) | v
        # a cell not assigned on some path keeps its entry content
        n_paths = sum(1 for _, r in self.returns if r is not None)
        for attr in list(cells):
            defined_everywhere = all(("self." + attr) in r for _, r in self.returns if r is not None)
            if not defined_everywhere:
                cells[attr] = cells[attr] | frozenset([("cell", attr)])
        self.sum.cells_out = cells
        return self.sum

    # ---- origins of expressions
    def cell(self, attr, st):
        k = "self." + attr
        if k in st:
            return st[k]
        self.sum.reads_cells.add(attr)
        return frozenset([("cell", attr)])

    def const_of(self, node, st):
        if isinstance(node, ast.Constant) and isinstance(node.value, str):
            return node.value
        if isinstance(node, ast.Name):
            return st.get("const:" + node.id)
        return None

    def origins(self, node, st):
        if node is None:
            return EMPTY
        if isinstance(node, ast.Name):
            if node.id in st:
                v = st[node.id]
                return v if isinstance(v, frozenset) else EMPTY
            if node.id == self.self_name:
                return frozenset([("selfobj",)])
            r = self.mod.resolve_name(node.id) if node.id not in ("True", "False", "None") else None
            if isinstance(r, tuple) and r[0] == "assign":
                _, m, nm, val = r
                if _is_mutable_literal(val):
                    return frozenset([("global", m.rel, nm)])
            return EMPTY
        if isinstance(node, ast.Attribute):
            if isinstance(node.value, ast.Name) and node.value.id == self.self_name and self.self_name:
                if node.attr in SCALAR_ATTRS:
                    return EMPTY
                # property? then its summary's ret with cells mapped
                f = self.func.cls.lookup(node.attr) if self.func.cls else None
                if f is not None and f.is_property:
                    return self.apply_summary(f, node, st, [], {}, on_self=True)
                if f is not None:
                    return EMPTY
                return self.cell(node.attr, st)
            if node.attr in SCALAR_ATTRS:
                return EMPTY
            base = self.origins(node.value, st)
            if node.attr in ARR_VIEW_ATTRS:
                return base
            # attribute of a typed local object: property summary
            c = self.type_of(node.value)
            if c is not None:
                f = c.lookup(node.attr)
                if f is not None and f.is_property:
                    return self.apply_summary(f, node, st, [], {}, obj_origins=base)
                return base
            # module attribute (global)
            r = self.resolve(node)
            if isinstance(r, tuple) and r[0] == "assign" and _is_mutable_literal(r[3]):
                return frozenset([("global", r[1].rel, r[2])])
            return base if base else EMPTY
        if isinstance(node, ast.Subscript):
            base = self.origins(node.value, st)
            if not base:
                return EMPTY
            if ("kwdict",) in base:
                key = self.const_of(node.slice, st)
                return frozenset([("kw", key if key is not None else "*")])
            if _is_view_index(node.slice):
                return base
            return EMPTY      # integer element: ELEM (immutable scalar for rank-1 sources)
        if isinstance(node, ast.Call):
            return self.call_origins(node, st)
        if isinstance(node, ast.IfExp):
            return self.origins(node.body, st) | self.origins(node.orelse, st)
        if isinstance(node, ast.BoolOp):
            out = EMPTY
            for v in node.values:
                out |= self.origins(v, st)
            return out
        if isinstance(node, ast.NamedExpr):
            return self.origins(node.value, st)
        if isinstance(node, ast.Starred):
            return EMPTY
        if isinstance(node, (ast.Tuple, ast.List)):
            # container of (possibly caller-owned) objects: keep origins so unpacking sees them
            return EMPTY      # fresh container (np.array(list) copies; unpacking a literal is handled in assign_target)
        return EMPTY

    def type_of(self, node):
        if isinstance(node, ast.Name):
            if node.id == self.self_name:
                return self.func.cls
            return self.local_types.get(node.id)
        if isinstance(node, ast.Call):
            return self._ctor_class(node)
        return None

    def call_origins(self, node, st):
        f = node.func
        args = node.args
        kws = {k.arg: k.value for k in node.keywords if k.arg}
        # kwargs.get / pop
        if isinstance(f, ast.Attribute) and f.attr in ("get", "pop", "setdefault") and ("kwdict",) in self.origins(f.value, st):
            key = self.const_of(args[0], st) if args else None
            out = frozenset([("kw", key if key is not None else "*")])
            if len(args) > 1:
                out |= self.origins(args[1], st)
            return out
        # getattr(self, name) / self.__getattribute__(name)
        if self.self_name and ((isinstance(f, ast.Name) and f.id == "getattr" and args and isinstance(args[0], ast.Name) and args[0].id == self.self_name)
                               or (isinstance(f, ast.Attribute) and f.attr == "__getattribute__" and isinstance(f.value, ast.Name) and f.value.id == self.self_name)):
            name_node = args[1] if isinstance(f, ast.Name) else (args[0] if args else None)
            nm = self.const_of(name_node, st)
            if nm is not None:
                return self.cell(nm, st)
            return EMPTY
        # numpy
        np_name = self.np_func(f)
        if np_name is not None:
            if np_name in NP_VIEW:
                return self.origins(args[0], st) if args else EMPTY
            if np_name == "array":
                cp = kws.get("copy")
                if cp is not None and isinstance(cp, ast.Constant) and cp.value is False:
                    return self.origins(args[0], st) if args else EMPTY
                return EMPTY
            if "out" in kws:
                return self.origins(kws["out"], st)
            cp = kws.get("copy")
            if np_name in NP_COPY_FALSE_INPLACE and cp is not None and isinstance(cp, ast.Constant) and cp.value is False:
                return self.origins(args[0], st) if args else EMPTY
            return EMPTY
        # super().__new__(subtype, shape, dtype, buffer)
        if isinstance(f, ast.Attribute) and f.attr == "__new__" and isinstance(f.value, ast.Call) and isinstance(f.value.func, ast.Name) and f.value.func.id == "super":
            buf = args[3] if len(args) > 3 else kws.get("buffer")
            return self.origins(buf, st) if buf is not None else EMPTY
        # array methods
        if isinstance(f, ast.Attribute):
            base = self.origins(f.value, st)
            c = self.type_of(f.value)
            if c is not None and not (isinstance(f.value, ast.Name) and f.value.id == self.self_name):
                m = c.lookup(f.attr)
                if m is not None:
                    return self.apply_summary(m, node, st, args, kws, obj_origins=base)
            if isinstance(f.value, ast.Name) and f.value.id == self.self_name and self.func.cls is not None:
                m = self.func.cls.lookup(f.attr)
                if m is not None:
                    return self.apply_summary(m, node, st, args, kws, on_self=True)
            if f.attr in ARR_VIEW_METHODS:
                return base
            if f.attr in ("copy", "flatten", "astype", "tolist", "sum", "mean", "dot", "trace", "conj", "conjugate", "max", "min",
                          "argmax", "argmin", "any", "all", "lower", "upper", "format", "items", "keys", "values"):
                return EMPTY
            # Class.method(Class, x) unbound calls / module functions via attribute
            r = self.resolve(f)
            if isinstance(r, Func):
                if r.cls is not None and not r.is_static and not r.is_classmethod:
                    return self.apply_summary(r, node, st, args[1:], kws, obj_origins=self.origins(args[0], st) if args else EMPTY)
                return self.apply_summary(r, node, st, args, kws)
            if isinstance(r, Class):
                return self.apply_ctor(r, node, st, args, kws)
            self.alias.unresolved_calls += 1
            return EMPTY
        if isinstance(f, ast.Name):
            if f.id in ("list", "tuple", "float", "int", "len", "str", "bool", "abs", "sum", "min", "max", "range", "sorted",
                        "isinstance", "type", "print", "any", "all", "round", "zip", "enumerate", "hasattr", "super", "set", "dict", "map", "iter", "next"):
                return EMPTY
            if f.id == "getattr":
                return EMPTY
            r = self.mod.resolve_name(f.id) if f.id not in st else None
            if isinstance(r, Func):
                return self.apply_summary(r, node, st, args, kws)
            if isinstance(r, Class):
                return self.apply_ctor(r, node, st, args, kws)
            self.alias.unresolved_calls += 1
            return EMPTY
        return EMPTY

    def np_func(self, f):
        """'name' if f is np.<name> or np.linalg.<name> etc."""
        if isinstance(f, ast.Attribute):
            root = f
            parts = []
            while isinstance(root, ast.Attribute):
                parts.append(root.attr)
                root = root.value
            if isinstance(root, ast.Name):
                imp = self.mod.imports.get(root.id)
                if imp and imp[0] == "ext" and imp[1].split(".")[0] == "numpy":
                    return parts[0]
        return None

    # ---- summaries at call sites
    def bind_args(self, callee: Func, args, kws, st, skip_self):
        a = callee.node.args
        params = [p.arg for p in a.posonlyargs + a.args]
        if skip_self and params:
            params = params[1:]
        mapping = {}
        for p, arg in zip(params, args):
            if isinstance(arg, ast.Starred):
                break
            mapping[("param", p)] = self.origins(arg, st)
        kwonly = [p.arg for p in a.kwonlyargs]
        for k, v in kws.items():
            if k in params or k in kwonly:
                mapping[("param", k)] = self.origins(v, st)
            else:
                mapping[("kw", k)] = self.origins(v, st)
        return mapping

    def apply_summary(self, callee: Func, node, st, args, kws, on_self=False, obj_origins=EMPTY):
        self.alias.resolved_calls += 1
        s = self.alias.summary(callee)
        skip_self = callee.cls is not None and not callee.is_static
        if callee.is_classmethod:
            skip_self = True
        mapping = self.bind_args(callee, args, kws, st, skip_self)
        # **kwargs forwarded
        fwd_kwargs = any(k.arg is None and ("kwdict",) in self.origins(k.value, st) for k in node.keywords) if isinstance(node, ast.Call) else False

        def tr(ph):
            if ph in mapping:
                return mapping[ph]
            if ph[0] == "kw":
                return frozenset([ph]) if fwd_kwargs else EMPTY
            if ph[0] == "cell":
                if on_self:
                    return self.cell(ph[1], st)
                return obj_origins
            if ph[0] == "global":
                return frozenset([ph])
            if ph[0] == "selfobj":
                return frozenset([("selfobj",)]) if on_self else obj_origins
            if ph[0] == "param":
                return EMPTY
            return EMPTY
        # propagate writes
        for ph, recs in s.mut.items():
            targets = tr(ph)
            for t in targets:
                for r in recs:
                    self.write(t, node, r["what"], st, via=r)
        # cells
        if on_self:
            for attr, vals in s.cells_out.items():
                out = EMPTY
                for v in vals:
                    out |= tr(v)
                st["self." + attr] = out
        ret = EMPTY
        for ph in s.ret:
            ret |= tr(ph)
        return ret

    def apply_ctor(self, cls: Class, node, st, args, kws):
        self.alias.resolved_calls += 1
        ret, cells, mut, f = self.alias.ctor_summary(cls)
        if f is None:
            return EMPTY
        mapping = self.bind_args(f, args, kws, st, True)
        fwd_kwargs = any(k.arg is None and ("kwdict",) in self.origins(k.value, st) for k in node.keywords)

        def tr(ph):
            if ph in mapping:
                return mapping[ph]
            if ph[0] == "kw" and fwd_kwargs:
                return frozenset([ph])
            if ph[0] == "global":
                return frozenset([ph])
            return EMPTY
        for ph, recs in mut.items():
            for t in tr(ph):
                for r in recs:
                    self.write(t, node, r["what"], st, via=r)
        out = EMPTY
        for ph in ret:
            out |= tr(ph)
        for attr, vals in cells.items():
            if attr in ("A", "array"):     # the object's storage: the object aliases it
                for v in vals:
                    out |= tr(v)
        return out

    # ---- writes
    def write(self, origin, node, what, st, via=None):
        if origin[0] in ("kwdict", "selfobj"):
            return
        path = []
        if via is not None:
            path = [{"func": via["func"], "line": via["line"], "stmt": via["stmt"]}] + list(via.get("path", []))
        rec = _rec(self.func, node, what, path)
        self.sum.add_mut(origin, rec)

    def write_through(self, target_expr, node, what, st):
        for o in self.origins(target_expr, st):
            self.write(o, node, what, st)

    # ---- statement hooks
    def on_assign(self, targets, value, stmt, st):
        val = self.origins(value, st)
        for t in targets:
            self.assign_target(t, val, value, stmt, st)

    def assign_target(self, t, val, value_node, stmt, st):
        if isinstance(t, ast.Name):
            st[t.id] = val
            st.pop("const:" + t.id, None)
        elif isinstance(t, (ast.Tuple, ast.List)):
            # unpacked components are ELEM (not tracked) unless the value is a tuple literal of the same length
            if isinstance(value_node, (ast.Tuple, ast.List)) and len(value_node.elts) == len(t.elts):
                for e, v in zip(t.elts, value_node.elts):
                    self.assign_target(e, self.origins(v, st), v, stmt, st)
            else:
                for e in t.elts:
                    if isinstance(e, ast.Starred):
                        e = e.value
                    self.assign_target(e, EMPTY, None, stmt, st)
        elif isinstance(t, ast.Attribute):
            if isinstance(t.value, ast.Name) and t.value.id == self.self_name and self.self_name:
                # property setter?
                s = self.func.cls.lookup_setter(t.attr) if self.func.cls else None
                if s is not None:
                    self.apply_setter(s, val, stmt, st)
                else:
                    st["self." + t.attr] = val
            else:
                # obj.attr = value : the object now holds value (e.g. obj.A = q in __new__)
                if isinstance(t.value, ast.Name):
                    cur = st.get(t.value.id, EMPTY)
                    if isinstance(cur, frozenset) and t.attr in ("A", "array"):
                        st[t.value.id] = cur | val
                    c = self.local_types.get(t.value.id)
                    if self.is_new and c is self.func.cls:
                        st["self." + t.attr] = val
        elif isinstance(t, ast.Subscript):
            # x[...] = v : in-place write into x
            self.write_through(t.value, stmt, "store into subscript", st)

    def apply_setter(self, setter: Func, val, stmt, st):
        s = self.alias.summary(setter)
        pname = setter.params[1] if len(setter.params) > 1 else None

        def tr(ph):
            if ph == ("param", pname):
                return val
            if ph[0] == "cell":
                return self.cell(ph[1], st)
            return frozenset([ph]) if ph[0] == "global" else EMPTY
        for attr, vals in s.cells_out.items():
            out = EMPTY
            for v in vals:
                out |= tr(v)
            st["self." + attr] = out
        for ph, recs in s.mut.items():
            for t in tr(ph):
                for r in recs:
                    self.write(t, stmt, r["what"], st, via=r)

    def on_augassign(self, stmt, st):
        t = stmt.target
        if isinstance(t, ast.Name):
            v = st.get(t.id)
            if isinstance(v, frozenset) and v:
                for o in v:
                    self.write(o, stmt, "augmented assignment (in place for arrays)", st)
            # name keeps its origins (in place)
        elif isinstance(t, ast.Subscript):
            self.write_through(t.value, stmt, "augmented store into subscript", st)
        elif isinstance(t, ast.Attribute):
            for o in self.origins(t, st):
                self.write(o, stmt, "augmented assignment on attribute (in place for arrays)", st)

    def expr(self, node, st):
        # evaluate calls in post-order exactly once: origins() of the outermost expression visits nested calls
        seen = set()
        for n in ast.walk(node):
            if isinstance(n, ast.Call) and id(n) not in seen:
                self._effects(n, st)

    def _effects(self, node, st):
        f = node.func
        kws = {k.arg: k.value for k in node.keywords if k.arg}
        np_name = self.np_func(f)
        if np_name is not None:
            if "out" in kws:
                self.write_through(kws["out"], node, "np.%s(..., out=)" % np_name, st)
            if np_name in NP_INPLACE_FIRST and node.args:
                self.write_through(node.args[0], node, "np.%s" % np_name, st)
            cp = kws.get("copy")
            if np_name in NP_COPY_FALSE_INPLACE and node.args and cp is not None and isinstance(cp, ast.Constant) and cp.value is False:
                self.write_through(node.args[0], node, "np.%s(..., copy=False)" % np_name, st)
            if np_name == "shuffle" and node.args:
                self.write_through(node.args[0], node, "np.random.shuffle", st)
            return
        if isinstance(f, ast.Attribute):
            if f.attr in ARR_INPLACE_METHODS and self.type_of(f.value) is None:
                self.write_through(f.value, node, "ndarray.%s()" % f.attr, st)
            if f.attr == "__setattr__" and isinstance(f.value, ast.Name) and f.value.id == self.self_name and len(node.args) == 2:
                nm = self.const_of(node.args[0], st)
                if nm is not None:
                    st["self." + nm] = self.origins(node.args[1], st)
                return
            if f.attr in ("append", "extend", "insert", "update", "clear", "remove", "pop") and self.type_of(f.value) is None \
                    and ("kwdict",) not in self.origins(f.value, st):
                self.write_through(f.value, node, "container.%s()" % f.attr, st)
        if isinstance(f, ast.Name) and f.id == "setattr" and len(node.args) == 3 and isinstance(node.args[0], ast.Name) and node.args[0].id == self.self_name:
            nm = self.const_of(node.args[1], st)
            if nm is not None:
                st["self." + nm] = self.origins(node.args[2], st)
            return
        # repo callees: apply their summaries for the write/cell effects
        self.call_origins(node, st)

    def on_return(self, stmt, st):
        if stmt.value is not None:
            self.sum.ret = self.sum.ret | frozenset(o for o in self.origins(stmt.value, st) if o[0] not in ("kwdict",))
            c = self.type_of(stmt.value)
            if self.is_new and isinstance(stmt.value, ast.Name):
                # __new__ returns the object: its storage cells
                pass
        self.returns.append((stmt, st))

    def assign_loop_target(self, target, iter_node, st):
        # items of an iterated array are ELEM/rows: not tracked (documented unsoundness for rank>1 rows)
        for n in ast.walk(target):
            if isinstance(n, ast.Name):
                st[n.id] = EMPTY


def _is_view_index(sl):
    if isinstance(sl, ast.Slice):
        return True
    if isinstance(sl, ast.Tuple):
        return any(isinstance(e, ast.Slice) or (isinstance(e, ast.Constant) and e.value in (None, Ellipsis)) or
                   (isinstance(e, ast.Attribute) and e.attr == "newaxis") for e in sl.elts)
    if isinstance(sl, ast.Constant) and sl.value in (None, Ellipsis):
        return True
    if isinstance(sl, ast.Attribute) and sl.attr == "newaxis":
        return True
    return False


def _is_mutable_literal(node):
    """module-level value that is a mutable object (array/list/dict)"""
    if isinstance(node, (ast.List, ast.Dict, ast.Set, ast.ListComp, ast.DictComp)):
        return True
    if isinstance(node, ast.Call):
        t = ast.unparse(node.func)
        return t.startswith("np.") or t in ("list", "dict", "set") or t.endswith("copy")
    if isinstance(node, ast.BinOp):
        return _is_mutable_literal(node.left) or _is_mutable_literal(node.right)
    return False
