"""Repository-wide semantic lints shared by several property checks.

Every lint is a rule about a *shape* of code that is wrong on every execution reaching it (or on every execution with a
stated, reachable input class), so that it is a necessary condition of each property that owns the code it is run on:

 PARAM-DEAD        a named parameter of a public function/method is never read (the option the caller passes is ignored);
 SWAPPED-ARGS      a call passes, positionally, two variables named exactly like two *other* parameters of the callee, crossed;
 METHOD-TRUTH      a bound method (not a property) is used as a truth value without being called (always true);
 VIEW-SWAP         tuple assignment  a[s1], a[s2] = a[s2], a[s1]  where the right-hand sides are basic-slicing views (NumPy
                   evaluates the first store before reading the second view: both end up equal);
 MODULE-STATE      hidden process-wide state: a module-level RNG object used inside functions, or a ``global`` rebinding whose
                   stored value depends on the function's arguments (first caller's arguments leak into later calls);
 SHADOW-REBIND     in an ndarray subclass, an attribute that __new__ binds to the array data (a view of the buffer) is rebound
                   outside __new__/__array_finalize__ (the object's buffer and its shadow then disagree), or a new attribute
                   caching a value derived from the data is introduced (nothing can invalidate it: ndarray item assignment
                   cannot be intercepted by these classes);
 CASE-MIXED        an attribute is compared with string literals both through .upper()/.lower() and raw, without being
                   normalised where it is assigned (the validator accepts spellings the later test does not recognise);
 INT-ALLOC         an output buffer takes its dtype from a caller-supplied array (zeros_like/empty_like/copy of a raw parameter)
                   and then receives computed (float) values: integer input truncates the result.

Each lint returns the number of constructs it examined so that callers can pin minimum instance counts.
"""
import ast
from .model import stmt_text


def _funcs(prog, files):
    for rel in sorted(files):
        m = prog.modules.get(rel)
        if m is None:
            continue
        for f in m.funcs.values():
            yield f
        for c in m.classes.values():
            for f in c.methods.values():
                yield f


def _params(f, skip_self=True):
    a = f.node.args
    ps = [p.arg for p in a.posonlyargs + a.args + a.kwonlyargs]
    if skip_self and f.cls is not None and ps and not f.is_static:
        ps = ps[1:]
    return ps


def _own_nodes(fnode):
    """nodes of a function body, nested function/class bodies included (closures read parameters too)"""
    for s in fnode.body:
        yield from ast.walk(s)


# ------------------------------------------------------------------------------------------------------------ PARAM-DEAD
def param_dead(chk, prog, files, exempt=()):
    """exempt: {(qualified function, parameter): reason}"""
    n = 0
    for f in _funcs(prog, files):
        if f.name.startswith("__") and f.name not in ("__init__", "__new__", "__call__"):
            continue
        body = f.node.body
        # abstract / stub bodies (docstring, pass, raise NotImplementedError) have nothing to honour
        real = [s for s in body if not (isinstance(s, ast.Expr) and isinstance(s.value, ast.Constant)) and not isinstance(s, ast.Pass)]
        if not real or all(isinstance(s, ast.Raise) for s in real):
            continue
        loaded = {x.id for x in _own_nodes(f.node) if isinstance(x, ast.Name) and isinstance(x.ctx, (ast.Load, ast.Del))}
        uses_locals = any(isinstance(x, ast.Call) and isinstance(x.func, ast.Name) and x.func.id in ("locals", "vars") for x in _own_nodes(f.node))
        for p in _params(f):
            n += 1
            if p in loaded or uses_locals or p.startswith("_"):
                continue
            if (f.qname, p) in exempt:
                chk.record("PARAM-DEAD.exempt", "%s(%s)" % (f.ref, p), exempt[(f.qname, p)])
                continue
            chk.finding("PARAM-DEAD", f.module.rel, f.qname, "parameter %s" % p,
                        "parameter `%s` is never read in the body: whatever the caller passes for it is silently ignored" % p, line=f.node.lineno)
    chk.counts["PARAM-DEAD.params"] = chk.counts.get("PARAM-DEAD.params", 0) + n
    return n


# ---------------------------------------------------------------------------------------------------------- SWAPPED-ARGS
def _resolve_callee(prog, f, call):
    fn = call.func
    if isinstance(fn, ast.Name):
        r = f.module.resolve_name(fn.id)
        if r is not None and hasattr(r, "node") and isinstance(r.node, ast.FunctionDef):
            return r, _params(r)
        if r is not None and hasattr(r, "methods"):
            init = r.lookup("__init__") or r.lookup("__new__")
            if init is not None:
                return init, _params(init)
    if isinstance(fn, ast.Attribute) and isinstance(fn.value, ast.Name) and fn.value.id in ("self", "cls") and f.cls is not None:
        g = f.cls.lookup(fn.attr)
        if g is not None:
            return g, _params(g)
    return None, None


def swapped_args(chk, prog, files):
    n = 0
    for f in _funcs(prog, files):
        for c in ast.walk(f.node):
            if not isinstance(c, ast.Call):
                continue
            g, params = _resolve_callee(prog, f, c)
            if g is None or any(isinstance(a, ast.Starred) for a in c.args):
                continue
            n += 1
            pos = {}
            for i, a in enumerate(c.args[:len(params)]):
                if isinstance(a, ast.Name):
                    pos[i] = a.id
            for i, name in pos.items():
                if name != params[i] and name in params:
                    j = params.index(name)
                    if pos.get(j) == params[i]:
                        if i < j:
                            chk.finding("SWAPPED-ARGS", f.module.rel, f.qname, "%s(... %s <-> %s ...)" % (ast.unparse(c.func), params[i], params[j]),
                                        "call `%s` passes the variable `%s` for parameter `%s` and `%s` for parameter `%s` of %s: the two arguments are crossed"
                                        % (stmt_text(c)[:100], name, params[i], pos[j], params[j], g.qname), line=c.lineno)
    chk.counts["SWAPPED-ARGS.calls"] = chk.counts.get("SWAPPED-ARGS.calls", 0) + n
    return n


# ---------------------------------------------------------------------------------------------------------- METHOD-TRUTH
def method_truth(chk, prog, files):
    """X.m in boolean position where every repo class defining m defines it as a plain method"""
    kinds = {}
    for m in prog.modules.values():
        for c in m.classes.values():
            for name, g in c.methods.items():
                is_prop = any("property" in ast.unparse(d) or "setter" in ast.unparse(d) or "cached" in ast.unparse(d) for d in g.node.decorator_list)
                kinds.setdefault(name, set()).add("prop" if is_prop else "method")
            for s in ast.walk(c.node):
                if isinstance(s, ast.Attribute) and isinstance(s.ctx, ast.Store) and isinstance(s.value, ast.Name) and s.value.id in ("self", "obj", "cls"):
                    kinds.setdefault(s.attr, set()).add("attr")
    n = 0

    def tests(node):
        if isinstance(node, (ast.If, ast.While, ast.IfExp, ast.Assert)):
            yield node.test
        if isinstance(node, ast.comprehension):
            yield from node.ifs

    def atoms(t):
        if isinstance(t, ast.BoolOp):
            for v in t.values:
                yield from atoms(v)
        elif isinstance(t, ast.UnaryOp) and isinstance(t.op, ast.Not):
            yield from atoms(t.operand)
        else:
            yield t
    for f in _funcs(prog, files):
        for node in ast.walk(f.node):
            for t in tests(node):
                for a in atoms(t):
                    n += 1
                    if isinstance(a, ast.Attribute) and kinds.get(a.attr) == {"method"}:
                        chk.finding("METHOD-TRUTH", f.module.rel, f.qname, "truth value of %s" % ast.unparse(a),
                                    "`%s` is a bound method, not a call: the condition is always true, so the test it was meant to make never happens" % ast.unparse(a),
                                    line=a.lineno)
    chk.counts["METHOD-TRUTH.conditions"] = chk.counts.get("METHOD-TRUTH.conditions", 0) + n
    return n


# ------------------------------------------------------------------------------------------------------------- VIEW-SWAP
def _has_slice(sub):
    sl = sub.slice
    elts = sl.elts if isinstance(sl, ast.Tuple) else [sl]
    return any(isinstance(e, ast.Slice) or (isinstance(e, ast.Constant) and e.value is Ellipsis) for e in elts)


def view_swap(chk, prog, files):
    n = 0
    for f in _funcs(prog, files):
        for s in ast.walk(f.node):
            if isinstance(s, ast.Assign) and len(s.targets) == 1 and isinstance(s.targets[0], ast.Tuple) and isinstance(s.value, ast.Tuple) \
                    and len(s.targets[0].elts) == len(s.value.elts):
                n += 1
                tg, vs = s.targets[0].elts, s.value.elts
                for i, t in enumerate(tg):
                    if not isinstance(t, ast.Subscript):
                        continue
                    for j in range(i + 1, len(vs)):
                        v = vs[j]
                        # a later right-hand side is a *view* of the array an earlier target writes, at the same place
                        if isinstance(v, ast.Subscript) and _has_slice(v) and ast.dump(v.value) == ast.dump(t.value) and ast.dump(v.slice) == ast.dump(t.slice):
                            chk.finding("VIEW-SWAP", f.module.rel, f.qname, stmt_text(s),
                                        "`%s` on the right is a view, not a copy: it is read after `%s` has already been overwritten, so both targets receive the same values"
                                        % (ast.unparse(v), ast.unparse(t)), line=s.lineno)
    chk.counts["VIEW-SWAP.tuple-assignments"] = chk.counts.get("VIEW-SWAP.tuple-assignments", 0) + n
    return n


# ---------------------------------------------------------------------------------------------------------- MODULE-STATE
RNG_FACTORIES = ("default_rng", "RandomState", "Generator", "Random", "SeedSequence", "PCG64", "MT19937")


def _tainted_by_params(fnode, params):
    """names (and `self.attr` cells) whose value may depend on a parameter (data or control dependence, flow-insensitive fixed point)"""
    taint = set(params)
    changed = True

    def cell(x):
        if isinstance(x, ast.Name):
            return x.id
        if isinstance(x, ast.Attribute) and isinstance(x.value, ast.Name):
            return "%s.%s" % (x.value.id, x.attr)
        return None

    def mentions(node):
        for x in ast.walk(node):
            if isinstance(x, ast.Attribute) and cell(x) in taint:
                return True
            if isinstance(x, ast.Name) and x.id in taint:
                return True
        return False

    def add_target(t):
        nonlocal changed
        if isinstance(t, (ast.Tuple, ast.List)):
            for e in t.elts:
                add_target(e)
            return
        if isinstance(t, ast.Starred):
            add_target(t.value)
            return
        while isinstance(t, ast.Subscript):
            t = t.value
        c = cell(t)
        if c is not None and c not in taint:
            taint.add(c)
            changed = True
    while changed:
        changed = False

        def visit(stmts, ctrl):
            for s in stmts:
                if isinstance(s, (ast.Assign, ast.AugAssign, ast.AnnAssign)):
                    tg = s.targets if isinstance(s, ast.Assign) else [s.target]
                    if s.value is not None and (ctrl or mentions(s.value)):
                        for t in tg:
                            add_target(t)
                elif isinstance(s, (ast.If, ast.While)):
                    c2 = ctrl or mentions(s.test)
                    visit(s.body, c2)
                    visit(s.orelse, c2)
                elif isinstance(s, ast.For):
                    c2 = ctrl or mentions(s.iter)
                    if c2:
                        add_target(s.target)
                    visit(s.body, c2)
                    visit(s.orelse, c2)
                elif isinstance(s, (ast.With, ast.Try)):
                    visit(getattr(s, "body", []), ctrl)
                    for h in getattr(s, "handlers", []):
                        visit(h.body, ctrl)
                    visit(getattr(s, "orelse", []), ctrl)
                    visit(getattr(s, "finalbody", []), ctrl)
        visit(fnode.body, False)
    return taint


def module_state(chk, prog, files):
    n = 0
    for rel in sorted(files):
        m = prog.modules.get(rel)
        if m is None:
            continue
        # (a) module-level RNG objects
        rngs = {}
        for s in m.tree.body:
            if isinstance(s, (ast.Assign, ast.AnnAssign)) and s.value is not None and isinstance(s.value, ast.Call):
                callee = ast.unparse(s.value.func)
                if callee.split(".")[-1] in RNG_FACTORIES:
                    for t in (s.targets if isinstance(s, ast.Assign) else [s.target]):
                        if isinstance(t, ast.Name):
                            rngs[t.id] = (s, callee)
        for f in _funcs(prog, [rel]):
            n += 1
            for x in _own_nodes(f.node):
                if isinstance(x, ast.Name) and isinstance(x.ctx, ast.Load) and x.id in rngs:
                    s, callee = rngs[x.id]
                    chk.finding("MODULE-STATE.rng", rel, f.qname, "%s = %s(...) used here" % (x.id, callee),
                                "draws come from the module-level generator `%s` (created once at import): its stream is process-wide hidden state that np.random.seed does not reset, "
                                "so a repeated run in the same process gets different draws and every instance shares it" % x.id, line=x.lineno)
                    break
            # (b) global rebinding with argument-dependent value
            gl = {nm for x in _own_nodes(f.node) if isinstance(x, ast.Global) for nm in x.names}
            if gl:
                params = _params(f, skip_self=False)
                taint = _tainted_by_params(f.node, params)
                for s in _own_nodes(f.node):
                    if isinstance(s, (ast.Assign, ast.AugAssign)):
                        tg = s.targets if isinstance(s, ast.Assign) else [s.target]
                        for t in tg:
                            base = t
                            while isinstance(base, (ast.Subscript, ast.Attribute)):
                                base = base.value
                            if isinstance(base, ast.Name) and base.id in gl:
                                dep = sorted(p for p in params if p in taint and (
                                    any(isinstance(y, ast.Name) and y.id in taint for y in ast.walk(s.value)) or base.id in taint))
                                if dep and (base.id in taint):
                                    chk.finding("MODULE-STATE.global", rel, f.qname, "global %s: %s" % (base.id, stmt_text(s)[:90]),
                                                "module-level `%s` is assigned a value that depends on this call's arguments (%s) and is kept for later calls: "
                                                "what an instance gets depends on which call happened first in the process" % (base.id, ", ".join(dep)), line=s.lineno)
    chk.counts["MODULE-STATE.functions"] = chk.counts.get("MODULE-STATE.functions", 0) + n
    return n


# --------------------------------------------------------------------------------------------------------- SHADOW-REBIND
def _is_ndarray_subclass(c):
    return any(ast.unparse(b).split(".")[-1] == "ndarray" for b in c.node.bases)


def _scratch_attribute(cls, attr):
    """every method of the class that reads self.<attr> assigns it first, unconditionally (a top-level statement of the method body that precedes
    the statement containing the read): the value never survives from one call to the next"""
    any_read = False
    for g in cls.methods.values():
        selfn = g.params[0] if g.params else "self"
        first_assign = None
        for i, st_ in enumerate(g.node.body):
            if isinstance(st_, (ast.Assign, ast.AnnAssign)):
                tg = st_.targets if isinstance(st_, ast.Assign) else [st_.target]
                if any(isinstance(t, ast.Attribute) and isinstance(t.value, ast.Name) and t.value.id == selfn and t.attr == attr for t in tg):
                    first_assign = i
                    break
        for i, st_ in enumerate(g.node.body):
            for x in ast.walk(st_):
                if isinstance(x, ast.Attribute) and isinstance(x.ctx, ast.Load) and isinstance(x.value, ast.Name) and x.value.id == selfn and x.attr == attr:
                    any_read = True
                    if first_assign is None or i <= first_assign and not (i == first_assign and False):
                        if not (first_assign is not None and i > first_assign):
                            return False
    return True


def shadow_rebind(chk, prog, files, allowed=()):
    """allowed: {(Class, attr): reason} for attributes legitimately assigned outside the constructors"""
    n = 0
    for rel in sorted(files):
        m = prog.modules.get(rel)
        if m is None:
            continue
        for c in m.classes.values():
            if not _is_ndarray_subclass(c):
                continue
            ctor_names = ("__new__", "__array_finalize__", "__init__")
            shadows = set()
            memo_votes = {}
            for nm in ctor_names:
                g = c.methods.get(nm)
                if g is None:
                    continue
                for x in ast.walk(g.node):
                    if isinstance(x, ast.Attribute) and isinstance(x.ctx, ast.Store) and isinstance(x.value, ast.Name):
                        shadows.add(x.attr)
                for x in ast.walk(g.node):      # slots the constructors only ever clear (x = None / getattr(obj, 'x', None)) are memo slots, not views of the data
                    if isinstance(x, ast.Assign) and len(x.targets) == 1 and isinstance(x.targets[0], ast.Attribute):
                        v = x.value
                        empty = (isinstance(v, ast.Constant) and v.value is None) or (isinstance(v, ast.Call) and ast.unparse(v.func) == "getattr")
                        memo_votes.setdefault(x.targets[0].attr, []).append(empty)
            for name, g in c.methods.items():
                if name in ctor_names:
                    continue
                is_setter = any("setter" in ast.unparse(d) for d in g.node.decorator_list)
                selfn = g.params[0] if g.params else "self"
                for s in ast.walk(g.node):
                    if isinstance(s, (ast.Assign, ast.AnnAssign)):
                        tg = s.targets if isinstance(s, ast.Assign) else [s.target]
                    else:
                        continue
                    for t in tg:
                        for x in (t.elts if isinstance(t, ast.Tuple) else [t]):
                            if isinstance(x, ast.Attribute) and isinstance(x.value, ast.Name) and x.value.id == selfn:
                                n += 1
                                if (g.qname, x.attr) in allowed or is_setter:
                                    continue
                                if x.attr in shadows and not (memo_votes.get(x.attr) and all(memo_votes[x.attr])):
                                    chk.finding("SHADOW-REBIND", rel, g.qname, "self.%s rebound: %s" % (x.attr, stmt_text(s)[:90]),
                                                "`self.%s` is bound in the constructor to the array data of this ndarray subclass; rebinding it here leaves the object's own buffer "
                                                "(what NumPy operations, indexing and other operands read) with the old values while accessors read the new ones" % x.attr, line=s.lineno)
                                elif _scratch_attribute(c, x.attr):
                                    continue        # assigned unconditionally before every read, in every method that reads it: a scratch slot, never a stale value
                                else:
                                    chk.finding("SHADOW-REBIND.memo", rel, g.qname, "self.%s cached: %s" % (x.attr, stmt_text(s)[:90]),
                                                "a method of the mutable ndarray subclass %s stores a derived value in `self.%s`: item assignment and in-place arithmetic on the array "
                                                "cannot invalidate it, so it goes stale" % (c.name, x.attr), line=s.lineno)
            # a value COMPUTED from the data (a norm, a sum, a product ...) stored by __new__: frozen at construction, stale after any in-place change of the array
            # (the array itself, a basic-slicing view of it, its shape / length and options that do not depend on the data are not computed values)
            g = c.methods.get("__new__")
            if g is not None:
                data_params = [p for p in g.params[1:]]
                taint = _tainted_by_params(g.node, data_params)
                buffers = {ast.unparse(s.value) for s in ast.walk(g.node) if isinstance(s, ast.Assign) and len(s.targets) == 1 and isinstance(s.targets[0], ast.Attribute)
                           and isinstance(s.value, ast.Name) and s.value.id in taint}

                def computed(v):
                    if isinstance(v, ast.Name):
                        if v.id not in taint:
                            return False
                        if v.id in buffers:
                            return False
                        # a tainted local: look at what it was computed from
                        defs = [s.value for s in ast.walk(g.node) if isinstance(s, ast.Assign) and any(isinstance(t, ast.Name) and t.id == v.id for t in s.targets)]
                        return any(_reduces(d) for d in defs)
                    if isinstance(v, ast.IfExp):
                        return computed(v.body) or computed(v.orelse)
                    return _reduces(v) and any(isinstance(x, ast.Name) and x.id in taint for x in ast.walk(v))

                def _reduces(v):
                    return any(isinstance(x, ast.Call) and ast.unparse(x.func).split(".")[-1] in ("norm", "sum", "dot", "prod", "mean", "trace", "det", "sqrt", "max", "min", "arccos",
                                                                                                  "arctan2", "vdot", "inner") for x in ast.walk(v))
                for s_ in ast.walk(g.node):
                    if isinstance(s_, ast.Assign) and len(s_.targets) == 1 and isinstance(s_.targets[0], ast.Attribute) and isinstance(s_.targets[0].value, ast.Name) \
                            and s_.targets[0].value.id not in ("self", "cls"):
                        n += 1
                        attr = s_.targets[0].attr
                        readers = [h.qname for h in c.methods.values() if h.name not in ctor_names
                                   and any(isinstance(x, ast.Attribute) and x.attr == attr and isinstance(x.ctx, ast.Load) and isinstance(x.value, ast.Name) and x.value.id == (h.params[0] if h.params else "self")
                                           for x in ast.walk(h.node))]
                        if computed(s_.value) and readers:
                            chk.finding("SHADOW-REBIND.derived", rel, g.qname, "%s computed from the data at construction" % stmt_text(s_)[:80],
                                        "`%s` keeps a value computed from the array when the object is built and %s read(s) it later: in-place changes of the array (normalize(), "
                                        "item assignment, `*=`) cannot refresh it, so those methods answer for the old data" % (attr, ", ".join(readers[:3])), line=s_.lineno)
            # constructors may initialise a cache slot, but a slot that a method later reads-and-returns is a memo
    chk.counts["SHADOW-REBIND.stores"] = chk.counts.get("SHADOW-REBIND.stores", 0) + n
    return n


# ------------------------------------------------------------------------------------------------------------ CASE-MIXED
def case_mixed(chk, prog, files):
    n = 0
    for rel in sorted(files):
        m = prog.modules.get(rel)
        if m is None:
            continue
        for c in m.classes.values():
            folded, raw, normalised = {}, {}, set()
            for g in c.methods.values():
                for x in ast.walk(g.node):
                    if isinstance(x, ast.Assign):
                        for t in x.targets:
                            if isinstance(t, ast.Attribute) and isinstance(t.value, ast.Name) and t.value.id == "self" \
                                    and isinstance(x.value, ast.Call) and isinstance(x.value.func, ast.Attribute) and x.value.func.attr in ("upper", "lower", "casefold"):
                                normalised.add(t.attr)
                    if isinstance(x, ast.Compare) and len(x.ops) == 1 and isinstance(x.ops[0], (ast.Eq, ast.NotEq, ast.In, ast.NotIn)):
                        l, r = x.left, x.comparators[0]
                        lit = r if _strlit(r) else (l if _strlit(l) else None)
                        other = l if lit is r else r
                        if lit is None:
                            continue
                        if isinstance(other, ast.Call) and isinstance(other.func, ast.Attribute) and other.func.attr in ("upper", "lower", "casefold") \
                                and isinstance(other.func.value, ast.Attribute) and isinstance(other.func.value.value, ast.Name) and other.func.value.value.id == "self":
                            folded.setdefault(other.func.value.attr, []).append((g, x))
                        elif isinstance(other, ast.Attribute) and isinstance(other.value, ast.Name) and other.value.id == "self":
                            raw.setdefault(other.attr, []).append((g, x))
            # CASE-MIXED.ctor: the attribute is folded once, by code only the constructor runs, and compared as spelled in the methods: a plain attribute can be
            # re-assigned after construction (`obj.frame = 'enu'`), and that spelling - which the constructor accepts - then takes the wrong branch
            for attr in sorted(normalised & set(raw)):
                where = [g for g in c.methods.values() for x in ast.walk(g.node) if isinstance(x, ast.Assign) and any(
                    isinstance(t, ast.Attribute) and isinstance(t.value, ast.Name) and t.value.id == "self" and t.attr == attr for t in x.targets)
                    and isinstance(x.value, ast.Call) and isinstance(x.value.func, ast.Attribute) and x.value.func.attr in ("upper", "lower", "casefold")]

                def callers(name):
                    return {h.name for h in c.methods.values() for y in ast.walk(h.node) if isinstance(y, ast.Call) and isinstance(y.func, ast.Attribute)
                            and isinstance(y.func.value, ast.Name) and y.func.value.id == "self" and y.func.attr == name}
                ctor_only = where and all(g.name == "__init__" or callers(g.name) <= {"__init__"} for g in where)
                has_setter = any(g.is_setter and g.name == attr for g in c.methods.values()) or attr in getattr(c, "properties", {})
                if not ctor_only or has_setter:
                    continue
                for g, x in raw[attr]:
                    if g.name == "__init__" or g in where or g.name.startswith("_"):
                        continue
                    chk.finding("CASE-MIXED.ctor", rel, g.qname, "raw comparison %s" % ast.unparse(x),
                                "`self.%s` is case-folded only by code the constructor runs (%s) and compared as spelled here: after `obj.%s = <other spelling>` the same "
                                "request takes another branch than on a freshly constructed object" % (attr, ", ".join(sorted({w.qname for w in where})), attr), line=x.lineno)
            for attr in sorted(set(folded) & set(raw)):
                n += 1
                if attr in normalised:
                    continue
                for g, x in raw[attr]:
                    chk.finding("CASE-MIXED", rel, g.qname, "raw comparison %s" % ast.unparse(x),
                                "`self.%s` is compared case-insensitively elsewhere in %s (%s) and is not normalised when stored, but here it is compared as spelled: "
                                "a spelling the validator accepts takes the wrong branch" % (attr, c.name, ast.unparse(folded[attr][0][1])), line=x.lineno)
            n += len(folded)
    chk.counts["CASE-MIXED.attributes"] = chk.counts.get("CASE-MIXED.attributes", 0) + n
    return n


def _strlit(x):
    if isinstance(x, ast.Constant) and isinstance(x.value, str):
        return True
    return isinstance(x, (ast.List, ast.Tuple, ast.Set)) and x.elts and all(isinstance(e, ast.Constant) and isinstance(e.value, str) for e in x.elts)


# ------------------------------------------------------------------------------------------------------------- INT-ALLOC
LIKE = ("zeros_like", "empty_like", "ones_like", "full_like")


def int_alloc(chk, prog, files):
    """buffer = np.zeros_like(<raw parameter>) ... buffer[i] = <computed>   (dtype of the caller's array decides the result's precision)"""
    n = 0
    for f in _funcs(prog, files):
        params = set(_params(f))
        # parameters re-bound to float arrays before use are not raw any more
        floated = set()
        for s in ast.walk(f.node):
            if isinstance(s, ast.Assign) and len(s.targets) == 1 and isinstance(s.targets[0], ast.Name) and s.targets[0].id in params:
                if _float_coercion(s.value):
                    floated.add(s.targets[0].id)
        bufs = {}
        for s in ast.walk(f.node):
            if isinstance(s, ast.Assign) and len(s.targets) == 1 and isinstance(s.targets[0], ast.Name) and isinstance(s.value, ast.Call):
                cal = ast.unparse(s.value.func).split(".")[-1]
                if cal in LIKE and s.value.args and not any(k.arg == "dtype" for k in s.value.keywords):
                    a0 = s.value.args[0]
                    src = None
                    if isinstance(a0, ast.Name) and a0.id in params - floated:
                        src = a0.id
                    elif isinstance(a0, (ast.List, ast.Tuple)) and a0.elts and all(isinstance(e, ast.Name) and e.id in params - floated for e in a0.elts):
                        src = "[%s]" % ", ".join(e.id for e in a0.elts)          # np.zeros_like([x, y, z]): integer arguments give an integer buffer
                    elif isinstance(a0, ast.Attribute) and isinstance(a0.value, ast.Name) and a0.value.id == "self" and f.cls is not None \
                            and a0.attr in _raw_attrs(f.cls):
                        src = "self." + a0.attr                                   # the caller's array as stored by the constructor (no float conversion anywhere)
                    if src is not None:
                        bufs[s.targets[0].id] = (s, src)
            elif isinstance(s, ast.Assign) and len(s.targets) == 1 and isinstance(s.targets[0], ast.Attribute) and isinstance(s.value, ast.Call) \
                    and isinstance(s.targets[0].value, ast.Name) and s.targets[0].value.id == "self" and f.cls is not None:
                cal = ast.unparse(s.value.func).split(".")[-1]
                if cal in LIKE and s.value.args and not any(k.arg == "dtype" for k in s.value.keywords):
                    a0 = s.value.args[0]
                    if isinstance(a0, ast.Attribute) and isinstance(a0.value, ast.Name) and a0.value.id == "self" and a0.attr in _raw_attrs(f.cls):
                        bufs["self." + s.targets[0].attr] = (s, "self." + a0.attr)
        for name, (alloc, src) in bufs.items():
            n += 1
            for s in ast.walk(f.node):
                if isinstance(s, ast.Assign):
                    for t in s.targets:
                        if isinstance(t, ast.Subscript) and ast.unparse(t.value) == name and not _is_int_const(s.value):
                            chk.finding("INT-ALLOC", f.module.rel, f.qname, "%s ; %s" % (stmt_text(alloc), stmt_text(s)[:60]),
                                        "`%s` takes its dtype from the caller's `%s`: with an integer-typed argument the computed values stored into it are truncated to integers" % (name, src),
                                        line=alloc.lineno)
                            break
                    else:
                        continue
                    break
    chk.counts["INT-ALLOC.buffers"] = chk.counts.get("INT-ALLOC.buffers", 0) + n
    return n


_RAW_CACHE = {}


def _raw_attrs(cls):
    """attributes of a class that hold a caller's array exactly as given: every assignment `self.X = ...` in the class is a parameter of the assigning method,
    or np.copy / np.array / np.asarray / np.atleast_2d (no dtype) of a parameter or of self.X itself"""
    key = id(cls.node)
    if key in _RAW_CACHE:
        return _RAW_CACHE[key]
    assigns = {}
    for g in cls.methods.values():
        ps = set(_params(g))
        for s in ast.walk(g.node):
            tgts = s.targets if isinstance(s, ast.Assign) else ([s.target] if isinstance(s, (ast.AnnAssign, ast.AugAssign)) else [])
            for t in tgts:
                if isinstance(t, ast.Attribute) and isinstance(t.value, ast.Name) and t.value.id == "self":
                    assigns.setdefault(t.attr, []).append((getattr(s, "value", None), ps, isinstance(s, ast.AugAssign)))

    def raw(v, ps, attr, depth=0):
        if v is None or depth > 4:
            return False
        if isinstance(v, ast.Name):
            return v.id in ps
        if isinstance(v, ast.Attribute) and isinstance(v.value, ast.Name) and v.value.id == "self":
            return v.attr == attr
        if isinstance(v, ast.IfExp):
            return raw(v.body, ps, attr, depth + 1) or raw(v.orelse, ps, attr, depth + 1)
        if isinstance(v, ast.Call) and ast.unparse(v.func).split(".")[-1] in ("copy", "array", "asarray", "atleast_2d", "atleast_1d", "ascontiguousarray") and v.args \
                and not any(k.arg == "dtype" for k in v.keywords) and len(v.args) == 1:
            return raw(v.args[0], ps, attr, depth + 1)
        return False
    out = set()
    for attr, lst in assigns.items():
        vals = [(v, ps) for v, ps, aug in lst if not (isinstance(v, ast.Constant) and v.value is None)]
        if vals and not any(aug for _, _, aug in lst) and all(raw(v, ps, attr) for v, ps in vals):
            out.add(attr)
    _RAW_CACHE[key] = out
    return out


def _float_coercion(v):
    if isinstance(v, ast.Call):
        cal = ast.unparse(v.func)
        if any(k.arg == "dtype" and "float" in ast.unparse(k.value) for k in v.keywords):
            return True
        if cal.endswith(".astype") and v.args and "float" in ast.unparse(v.args[0]):
            return True
    if isinstance(v, ast.BinOp) and isinstance(v.op, ast.Div):
        return True
    return False


def _is_int_const(v):
    return isinstance(v, ast.Constant) and isinstance(v.value, int)


def no_sign_zero(chk, prog, funcs, why):
    """listed functions must be right where the argument of a would-be np.sign vanishes: sign(0) == 0 annihilates the factor it multiplies"""
    n = 0
    for f in funcs:
        n += 1
        bad = [x for x in ast.walk(f.node) if isinstance(x, ast.Call) and ast.unparse(x.func).split(".")[-1] == "sign"]
        for x in bad:
            chk.finding("NO-SIGN-ZERO", f.module.rel, f.qname, "np.sign: %s" % stmt_text(x), "np.sign(x) is 0 for x == 0: %s" % why, line=x.lineno)
        chk.record("NO-SIGN-ZERO", f.ref, "no factor np.sign(.) in a function that must be exact where its argument vanishes", verdict="VIOLATION" if bad else "HOLDS")
    return n


# functions in which *every* domain-restricted call (np.sqrt, np.arccos, np.arcsin) has an argument that interval analysis proves inside the
# domain (clip / abs / squares / dominating comparison): the authors guard against rounding residue there, so an unguarded site is a regression.
DOMAIN_GUARDED = {
    "ahrs/common/orientation.py::chiaverini": 8, "ahrs/filters/fqa.py::FQA.estimate": 7, "ahrs/filters/aqua.py::AQUA.estimate": 18,
    "ahrs/filters/complementary.py::Complementary.am_estimation": 2, "ahrs/filters/tilt.py::Tilt.estimate": 1, "ahrs/filters/tilt.py::Tilt._compute_all": 1,
    "ahrs/common/orientation.py::acc2q": 1, "ahrs/common/orientation.py::am2angles": 1,
}


def domain_guard(chk, prog, refs=None):
    from .interval import Intervals
    n = 0
    for ref, want in DOMAIN_GUARDED.items():
        if refs is not None and ref not in refs:
            continue
        f = prog.func(ref)
        iv = Intervals(f).analyse()
        if not iv.sites:
            # the restricted calls may have been moved into helpers of the same module / class: analyse those the function calls (one level)
            for c in ast.walk(f.node):
                if isinstance(c, ast.Call):
                    g, _ = _resolve_callee(prog, f, c)
                    if g is not None and g.module is f.module and g is not f:
                        sub = Intervals(g).analyse()
                        iv.sites.extend(sub.sites)
        for s_ in iv.sites:
            n += 1
            site = "%s::%s(%s)" % (ref, s_["kind"], s_["arg"][:60])
            if s_["ok"]:
                chk.record("DOMAIN-GUARD", site, "argument interval [%g, %g] lies inside the domain of %s" % (s_["interval"][0], s_["interval"][1], s_["kind"]))
            else:
                why = "the argument of np.%s is only bounded by [%g, %g]: rounding residue of a mathematically admissible value leaves the domain and the result is NaN " \
                      "(every other such call in this function is clipped or otherwise bounded)" % (s_["kind"], s_["interval"][0], s_["interval"][1])
                chk.record("DOMAIN-GUARD", site, "argument provably inside the domain", verdict="VIOLATION", detail=why)
                chk.finding("DOMAIN-GUARD", f.module.rel, f.qname, "np.%s(%s)" % (s_["kind"], s_["arg"][:80]), why, line=s_["node"].lineno)
        if len(iv.sites) < 1:
            # e.g. sqrt(x**2 + y**2) rewritten as np.hypot(x, y): nothing with a restricted domain is left in the function or in the helpers it calls
            chk.record("DOMAIN-GUARD", ref, "no sqrt/arccos/arcsin call left in the function or its same-module helpers (%d confirmed by hand earlier): nothing to guard" % want)
    return n


ALL = {"MASK-BLEND": lambda chk, prog, files: mask_blend(chk, prog, files), "PROCESS-STATE": lambda chk, prog, files: process_state(chk, prog, files), "SUBCLASS-ARITH": lambda chk, prog, files: subclass_arith(chk, prog, files), "NAN-LITERAL": lambda chk, prog, files: nan_literal(chk, prog, files), "LATCH": lambda chk, prog, files: latch(chk, prog, files), "SIGNATURE": lambda chk, prog, files: signature(chk, prog, files), "SIGN-CANON": lambda chk, prog, files: sign_canon(chk, prog, files), "UNDEFINED-NAME": lambda chk, prog, files: possibly_undefined(chk, prog, files), "SELF-PURE": lambda chk, prog, files: self_pure(chk, prog, files), "STALE-DERIVED": lambda chk, prog, files: stale_derived(chk, prog, files), "CACHE-KEY": lambda chk, prog, files: cache_key(chk, prog, files), "NO-PARAM-WRITE": lambda chk, prog, files: no_param_write(chk, prog, files), "ZERO-AS-MISSING": lambda chk, prog, files: zero_as_missing(chk, prog, files), "POSE-DIV": lambda chk, prog, files: pose_div(chk, prog, files), "UNIT-GUARD": lambda chk, prog, files: unit_guard(chk, prog, files), "PARAM-DEAD": param_dead, "SWAPPED-ARGS": swapped_args, "METHOD-TRUTH": method_truth, "VIEW-SWAP": view_swap,
       "MODULE-STATE": module_state, "SHADOW-REBIND": shadow_rebind, "CASE-MIXED": case_mixed, "INT-ALLOC": int_alloc}


# ------------------------------------------------------------------------------------------------------- driver + self-test
FIXTURE = '''
import numpy as _np
_FIX_RNG = _np.random.default_rng(1)
_FIX_CACHE = None
def _lint_fixture_dead(alpha, beta=1):
    return alpha
def _lint_fixture_callee(acc, gyr):
    return acc + gyr
def _lint_fixture_swapped(acc, gyr):
    return _lint_fixture_callee(gyr, acc)
class _LintFixture(_np.ndarray):
    def __new__(cls, q):
        obj = super().__new__(cls, 4)
        obj.A = q
        obj.mode = 'x'
        obj._nrm = _np.linalg.norm(q)
        return obj
    def is_ok(self):
        return self._nrm > 0
    @cached_property
    def vec2(self):
        return self.mode * 2
    def latched(self, sample):
        if self.ref is None:
            self.ref = sample * 2
        return self.ref
    def derive(self, v):
        self.vec = [self.mode, v]
        self.mode = v
    def cached(self, lat, lon, height):
        key = (lat, lon)
        fresh = key != self._key
        r = lat + height
        if fresh:
            self.table = r * lon
        self._key = key
        return self.table
    def _fold(self):
        self.kind = self.kind.upper()
    def kind_use(self):
        return 1 if self.kind == 'ENU' else 2
    def latched_data(self, flag):
        seen = getattr(self, '_seen', None)
        if seen is None:
            seen = len(self.array)
            self._seen = seen
        return seen
    def cached_identity(self, flag):
        kept = getattr(self, '_kept', None)
        if kept is not None and kept[0] is self.array:
            return kept[1]
        self._kept = (self.array, len(self.array))
        return self._kept[1]
    def cached_tuple(self, east, north, up):
        same = hasattr(self, 'grid') and (east, north) == (self.east, self.north)
        self.east = east
        self.north = north
        self.rebuild(east + up, fresh=not same)
    def cached_early(self, rate, step, scale):
        key2 = (rate, scale)
        if key2 == self._key2:
            return self._val2 + 1
        m2 = rate * step * scale
        self._key2, self._val2 = key2, m2
        return m2 + 1
    def rebind(self):
        self.A = self.A/2
        if self.is_ok:
            pass
        if self.mode.upper() == 'X':
            pass
        if self.mode == 'x':
            pass
def _lint_fixture_swap(x):
    x[:, 0], x[:, 1] = x[:, 1], x[:, 0]
def _lint_fixture_rng():
    return _FIX_RNG.random()
def _lint_fixture_global(frame):
    global _FIX_CACHE
    if _FIX_CACHE is None:
        _FIX_CACHE = 1 if frame else 2
    return _FIX_CACHE
def _lint_fixture_units(angle, deg=True):
    if angle * DEG2RAD > 3:
        return 0.0
    if deg:
        angle = angle * DEG2RAD
    return angle
def _lint_fixture_zero(rate: float = None):
    return rate or 7.5
def lint_fixture_write(vec: _np.ndarray):
    vec /= 2.0
    return vec
def _lint_fixture_undefined(n):
    return n + never_bound_anywhere
def _lint_fixture_sign(v):
    v *= _np.sign(v[0])
    return v
def _lint_fixture_alloc(p):
    out = _np.zeros_like(p)
    out[0] = p[0]/3
    return out
def _lint_fixture_subclass(q):
    q = _np.asanyarray(q)
    return q * _np.array([1, -1, -1, -1])
def _lint_fixture_rows(Q):
    flips = _np.sign(_np.sum(Q[1:]*Q[:-1], axis=1))
    Q[1:] *= flips[:, None]
    return Q
def _lint_fixture_blend(az, ay):
    up = az >= 0
    ka, kb = _np.sqrt(2.0*(1.0+az)), _np.sqrt(2.0*(1.0-az))
    return up*0.5*ka + ~up*(-ay/kb)
def _lint_fixture_process(x):
    old = _np.seterr(all='raise')
    y = 1.0 / x
    _np.seterr(**old)
    return y
def _lint_fixture_nan(x):
    w = _np.full(3, _np.nan)
    return w * 0.0 + x
'''
FIXTURE_HOST = "ahrs/common/frames.py"
# rule -> properties that own it (None = every property, on its anchor files)
OWNERS = {"MASK-BLEND": None, "PROCESS-STATE": None, "SUBCLASS-ARITH": None, "NAN-LITERAL": {"C02", "C03", "C04", "C05", "C07", "C12", "C13"}, "LATCH": None, "SIGNATURE": None, "SIGN-CANON": None, "UNDEFINED-NAME": None, "SELF-PURE": {"C01", "C02", "C07", "C09", "C10", "C11", "C12", "C18", "C20"}, "STALE-DERIVED": None, "CACHE-KEY": None, "NO-PARAM-WRITE": None, "ZERO-AS-MISSING": None, "POSE-DIV": {"C03", "C04", "C05", "C13", "C02", "C07"}, "UNIT-GUARD": None, "PARAM-DEAD": None, "SWAPPED-ARGS": None, "METHOD-TRUTH": None, "VIEW-SWAP": None, "INT-ALLOC": None, "CASE-MIXED": None,
          "SHADOW-REBIND": None,
          # process-wide hidden state only contradicts properties that promise repeatability / isolation / history independence
          "MODULE-STATE": {"C06", "C15", "C19"}}
# confirmed exceptions (one line of reason each)
SHADOW_ALLOWED = {("QuaternionArray.from_DCM", "array"): "builder called on default-constructed instances (QuaternionArray().from_DCM(R)): the row count differs from the "
                                                         "buffer, so writing through is impossible; the class reads its value only through .array"}
PARAM_EXEMPT = {}


class _Sink:
    def __init__(self):
        self.counts, self.rules = {}, set()

    def finding(self, rule, *a, **k):
        self.rules.add(rule.split(".")[0])
        self.rules.add(rule)

    def record(self, *a, **k):
        pass


def self_test(chk, prog):
    """every lint must fire on the embedded positive example (appended in memory to a real module) on every run"""
    def tr(tree):
        tree.body.extend(ast.parse(FIXTURE).body)
        return True
    p2 = prog.mutated(FIXTURE_HOST, tr)
    sink = _Sink()
    for name, fn in ALL.items():
        try:
            fn(sink, p2, [FIXTURE_HOST])
        except Exception as e:       # a crashing lint must not look like a silent one
            chk.error("lint %s crashed on its positive example: %s: %s" % (name, type(e).__name__, e))
    # POSE-DIV is table-driven: its positive example is a pose-dependent divisor inserted (in memory) into a tabled function
    def tr2(tree):
        for c in ast.walk(tree):
            if isinstance(c, ast.ClassDef) and c.name == "Tilt":
                for g in c.body:
                    if isinstance(g, ast.FunctionDef) and g.name == "estimate":
                        g.body.insert(1, ast.parse("_pd = acc[0] / np.sqrt(acc[1]**2 + acc[2]**2)").body[0])
                        return True
        return False
    try:
        p3 = prog.mutated("ahrs/filters/tilt.py", tr2)
        pose_div(sink, p3, ["ahrs/filters/tilt.py"])
    except Exception as e:
        chk.error("lint POSE-DIV crashed on its positive example: %s: %s" % (type(e).__name__, e))
    # SELF-PURE is table-driven too: an accessor of a value class that scales its own storage
    def tr3(tree):
        for c in ast.walk(tree):
            if isinstance(c, ast.ClassDef) and c.name == "Quaternion":
                for g in c.body:
                    if isinstance(g, ast.FunctionDef) and g.name == "to_array":
                        g.body.insert(1, ast.parse("self.A *= 1.0").body[0])
                        return True
        return False
    try:
        p4 = prog.mutated("ahrs/common/quaternion.py", tr3)
        self_pure(sink, p4, ["ahrs/common/quaternion.py"])
    except Exception as e:
        chk.error("lint SELF-PURE crashed on its positive example: %s: %s" % (type(e).__name__, e))
    # SIGNATURE is table-driven: a positional parameter inserted in front of a tabled public function
    def tr4(tree):
        for g in tree.body:
            if isinstance(g, ast.FunctionDef) and g.name == "ned2enu":
                g.args.args.insert(0, ast.arg(arg="flag"))
                return True
        return False
    try:
        p5 = prog.mutated(FIXTURE_HOST, tr4)
        signature(sink, p5, [FIXTURE_HOST])
    except Exception as e:
        chk.error("lint SIGNATURE crashed on its positive example: %s: %s" % (type(e).__name__, e))
    for name in list(ALL) + ["SHADOW-REBIND.memo", "SHADOW-REBIND.derived", "CACHE-KEY.property", "CACHE-KEY.early", "CACHE-KEY.tuple", "LATCH.data", "LATCH.identity", "CASE-MIXED.ctor", "SIGN-CANON.rows"]:
        fired = name in sink.rules
        chk.canary("lint %s fires on its embedded positive example" % name, fired, "" if fired else "no finding on the fixture")


def property_files(pid):
    import json
    import os
    here = os.path.dirname(os.path.dirname(os.path.abspath(__file__)))
    for line in open(os.path.join(here, "properties.jsonl")):
        p = json.loads(line)
        if p["id"] == pid:
            return [f for f in p["anchors"]["files"] if f.endswith(".py")]
    return []


ANCHOR_ONLY = {"MODULE-STATE"}      # documented random generators outside a property's anchor files (ahrs/utils/sensors.py) are not that property's business


def run_for(chk, prog, pid, files=None, extra_files=()):
    anchors = sorted(set(files if files is not None else property_files(pid)))
    files = sorted(set(anchors) | set(extra_files))
    before = len(chk.findings)
    for name, fn in ALL.items():
        own = OWNERS.get(name)
        if own is not None and pid not in own:
            continue
        k0 = len(chk.findings)
        all_files = files
        if name in ANCHOR_ONLY:
            files = anchors
        try:
            pass
        finally:
            pass
        if name == "SHADOW-REBIND":
            n = fn(chk, prog, files, allowed=SHADOW_ALLOWED)
        elif name == "PARAM-DEAD":
            n = fn(chk, prog, files, exempt=PARAM_EXEMPT)
        else:
            n = fn(chk, prog, files)
        files = all_files
        bad = len(chk.findings) - k0
        chk.record("LINT." + name, ", ".join(os_base(f) for f in files), "%s: %d constructs examined in the property's files" % (name, n),
                   verdict="HOLDS" if not bad else "VIOLATION", detail=None if not bad else "%d findings" % bad)
    self_test(chk, prog)
    return len(chk.findings) - before


def os_base(p):
    return p.rsplit("/", 1)[-1]


# ------------------------------------------------------------------------------------------------------------ UNIT-GUARD
UNIT_FLAGS = ("degrees", "deg", "in_degrees", "in_deg")
CONVERSIONS = ("DEG2RAD", "RAD2DEG")


def unit_guard(chk, prog, files):
    """In a function with a boolean unit flag (deg / degrees / in_degrees) a degree<->radian conversion of a *parameter-derived* angle is only
    right on one setting of the flag, so it must be control-dependent on the flag.  An unconditional conversion (while the same function also
    converts under the flag) is applied for both settings: wrong for one of them."""
    n = 0
    for f in _funcs(prog, files):
        params = _params(f)
        flags = [p for p in params if p in UNIT_FLAGS]
        if not flags:
            continue
        flag = flags[0]
        guarded, unguarded = [], []

        def is_conv(x):
            if isinstance(x, ast.BinOp) and isinstance(x.op, (ast.Mult, ast.Div)):
                for side in (x.left, x.right):
                    if isinstance(side, ast.Name) and side.id in CONVERSIONS:
                        return True
            if isinstance(x, ast.Call) and ast.unparse(x.func).split(".")[-1] in ("deg2rad", "rad2deg", "radians", "degrees"):
                return True
            if isinstance(x, ast.AugAssign) and isinstance(x.op, (ast.Mult, ast.Div)) and isinstance(x.value, ast.Name) and x.value.id in CONVERSIONS:
                return True
            return False

        def classify(node, under):
            """conversions in an expression/simple statement; a conditional expression on the flag guards both of its arms"""
            if isinstance(node, ast.IfExp) and any(isinstance(t, ast.Name) and t.id == flag for t in ast.walk(node.test)):
                classify(node.test, under)
                classify(node.body, True)
                classify(node.orelse, True)
                return
            if is_conv(node):
                (guarded if under else unguarded).append(node)
            for c in ast.iter_child_nodes(node):
                classify(c, under)

        def walk(stmts, under):
            for s in stmts:
                if isinstance(s, ast.If):
                    dep = under or any(isinstance(t, ast.Name) and t.id == flag for t in ast.walk(s.test))
                    classify(s.test, under)
                    walk(s.body, dep)
                    walk(s.orelse, dep)
                    continue
                if isinstance(s, (ast.For, ast.While, ast.With, ast.Try)):
                    walk(getattr(s, "body", []), under)
                    walk(getattr(s, "orelse", []), under)
                    for h in getattr(s, "handlers", []):
                        walk(h.body, under)
                    walk(getattr(s, "finalbody", []), under)
                    continue
                classify(s, under)
        walk(f.node.body, False)
        n += len(guarded) + len(unguarded)
        if guarded and unguarded:
            ptaint = _tainted_by_params(f.node, [p for p in params if p != flag])
            for x in unguarded:
                if any(isinstance(t, ast.Name) and t.id in ptaint for t in ast.walk(x)):
                    chk.finding("UNIT-GUARD", f.module.rel, f.qname, "unconditional conversion %s" % ast.unparse(x)[:70],
                                "`%s` converts a caller-supplied angle whatever `%s` says, while the same function converts under `if %s`: for one setting of the flag the value "
                                "is converted twice or tested in the wrong unit" % (ast.unparse(x)[:60], flag, flag), line=x.lineno)
    chk.counts["UNIT-GUARD.conversions"] = chk.counts.get("UNIT-GUARD.conversions", 0) + n
    return n


# ------------------------------------------------------------------------------------------------------------ GATE-BAND
# rotation-angle band (rad) a tolerance gate may capture, per property; gates beyond it replace the exact formula on a band of genuine rotations
GATE_LIMIT = {"C01": 1e-6, "C02": 1e-6, "C07": 1e-6, "C09": 1e-6, "C10": 1e-6, "C11": 1e-6, "C12": 1e-6, "C18": 1e-6, "C19": 1e-6, "C03": 1e-6, "C04": 1e-6}


SCALE_SYMS = {"qs1", "qs2"}          # free positive magnitudes of the accelerometer / magnetometer samples in the scale-invariance obligations
SCALE_FREE = {"C04"}                  # properties that promise "whatever the magnitudes of the measured vectors"
PAIR_LIMIT = 1e-4      # relative rotation angle (rad) below which the metric closed forms need not be resolved


def _pair_gate(chk, pid, fn, lhs, rhs, tol, prefixes, seen, suffix="wxyz"):
    """gate on two unit quaternions with a constant right-hand side: the band of *relative* rotation angles it captures"""
    import math
    from . import poly as P
    c = rhs.const() if hasattr(rhs, "const") else None
    if c is None:
        return 0
    key = (fn, str(lhs)[:80], str(rhs)[:20], tol)
    if key in seen:
        return 0
    seen.add(key)
    t = tol[1] + tol[0] * abs(float(c))
    a = (0.5, 0.5, 0.5, 0.5)
    ax = (0.36, 0.48, 0.8)

    def resid(s_):
        d = (math.sqrt(1 - s_ * s_), s_ * ax[0], s_ * ax[1], s_ * ax[2])
        b = (a[0]*d[0] - a[1]*d[1] - a[2]*d[2] - a[3]*d[3], a[0]*d[1] + a[1]*d[0] + a[2]*d[3] - a[3]*d[2],
             a[0]*d[2] - a[1]*d[3] + a[2]*d[0] + a[3]*d[1], a[0]*d[3] + a[1]*d[2] - a[2]*d[1] + a[3]*d[0])
        vals = {}
        for pre, q in zip(prefixes, (a, b)):
            for ch, v in zip(suffix, q):
                vals[pre + ch] = v
        return abs(P.evalf(lhs - rhs, lambda at: vals[at.name]))
    try:
        f2_, f3_ = resid(1e-3), resid(1e-4)
    except Exception:
        return 0
    if not (f2_ > f3_ > 0) or f3_ > 1e-3:
        return 0
    p_ = round(math.log(f2_ / f3_) / math.log(10.0))
    if p_ < 1:
        return 0
    k_ = f3_ / (1e-4 ** p_)
    width = 2 * math.asin(min(1.0, (t / k_) ** (1.0 / p_)))
    site = "%s::isclose(%s, %s)" % (fn, str(lhs)[:50], rhs)
    if width > PAIR_LIMIT:
        rel, _, q = fn.partition("::")
        why = "the tolerance test isclose(%s, %s) (rtol=%g, atol=%g) in %s is true for every pair of rotations less than %.3e rad apart: the value it substitutes replaces the closed " \
              "form on that whole band (allowed: %.0e rad)" % (str(lhs)[:50], rhs, tol[0], tol[1], q, width, PAIR_LIMIT)
        chk.record("GATE-BAND", site, "tolerance gate captures a negligible band of relative rotations", verdict="VIOLATION", detail=why)
        chk.finding("GATE-BAND", rel, q, "isclose gate closing for nearby rotations", why)
    else:
        chk.record("GATE-BAND", site, "gate captures pairs of rotations within %.3e rad of each other only" % width)
    return 1


def gate_report(chk, pid):
    """Every np.isclose/np.allclose comparison that any interpretation of this run met on symbolic unit quaternions is mapped to the band of rotation
    angles it captures (closing at the identity or at the half-turn); a band wider than the property tolerates is reported with the function that gates."""
    from .symeval import Interp
    from .lib import gate_angle_band
    from . import poly as P
    limit = GATE_LIMIT.get(pid)
    if limit is None:
        return 0
    seen = set()
    n = 0
    for fn, lhs, rhs, tol, answer in list(Interp.GATE_LOG):
        try:
            names = sorted(P.atom(a).name for a in (lhs - rhs).atoms() if P.atom(a).kind == "sym")
        except Exception:
            continue
        # SCALE-GATE: an absolute/relative tolerance test against a constant on a quantity that carries one of the free magnitude symbols the
        # scale-invariance obligations put on the samples (qs1, qs2): what it accepts depends on the units of the measurement
        scale = [nm for nm in names if nm in SCALE_SYMS]
        if scale and pid in SCALE_FREE:
            try:
                rc = rhs.const() if hasattr(rhs, "const") else None
            except Exception:
                rc = None
            key = ("scale", fn, str(lhs)[:80])
            if rc is not None and key not in seen:
                seen.add(key)
                rel, _, q = fn.partition("::")
                why = ("the tolerance test isclose(%s, %s) (rtol=%g, atol=%g) in %s is made on a quantity proportional to the magnitude of the raw sample(s) (free scale %s): for small "
                       "enough magnitudes -- another unit system, a weak field -- it is true for perfectly valid, well-conditioned samples, and the answer behind it replaces the estimate"
                       % (str(lhs)[:60], rhs, tol[0], tol[1], q, ", ".join(scale)))
                chk.record("SCALE-GATE", "%s::isclose(%s, %s)" % (fn, str(lhs)[:50], rhs), "tolerance tests are made on normalised quantities", verdict="VIOLATION", detail=why)
                chk.finding("SCALE-GATE", rel, q, "isclose gate on an un-normalised quantity", why)
            continue
        suffix = "wxyz" if all(nm[-1:] in "wxyz" for nm in names) else ("0123" if all(nm[-1:] in "0123" for nm in names) else None)
        if suffix is None or not names:
            continue
        prefixes = {nm[:-1] for nm in names if len(nm) > 1}
        if len(prefixes) == 2:
            n += _pair_gate(chk, pid, fn, lhs, rhs, tol, sorted(prefixes), seen, suffix)
            continue
        if len(prefixes) != 1:
            continue                      # not a function of one quaternion only
        pre = prefixes.pop()
        key = (fn, str(lhs)[:80], str(rhs)[:20], tol)
        if key in seen:
            continue
        seen.add(key)
        b = gate_angle_band(lhs, rhs, tol[0], tol[1], [pre + c for c in suffix])
        if not b or b == "foreign":
            continue
        n += 1
        where, width, p_, k_ = b
        site = "%s::isclose(%s, %s)" % (fn, str(lhs)[:50], rhs)
        if width > limit:
            rel, _, q = fn.partition("::")
            why = "the tolerance test isclose(%s, %s) (rtol=%g, atol=%g) in %s is true for every rotation within %.3e rad of %s; the formula it short-cuts is replaced on that whole band " \
                  "(allowed: %.0e rad)" % (str(lhs)[:50], rhs, tol[0], tol[1], q, width, "a half-turn" if where == "pi" else "the identity", limit)
            chk.record("GATE-BAND", site, "tolerance gate captures a negligible band of rotations", verdict="VIOLATION", detail=why)
            chk.finding("GATE-BAND", rel, q, "isclose gate closing at %s" % ("pi" if where == "pi" else "0"), why)
        else:
            chk.record("GATE-BAND", site, "gate captures rotations within %.3e rad of %s only" % (width, "pi" if where == "pi" else "0"))
    chk.counts["GATE-BAND.gates"] = n
    return n


# -------------------------------------------------------------------------------------------------------------- POSE-DIV
# Functions that today divide only by literals, by norms, or by values under a dominating non-zero guard (confirmed by listing every division with its
# value number): they have no pose at which a divisor vanishes by construction.  A new divisor that is a computed, pose-dependent quantity (a component,
# a sqrt of a sum of components, a difference...) gives them a singular pose (0/0 = NaN) they did not have.
POSE_FREE = [
    "ahrs/common/orientation.py::acc2q", "ahrs/common/orientation.py::am2angles", "ahrs/common/orientation.py::am2DCM", "ahrs/common/orientation.py::chiaverini",
    "ahrs/common/orientation.py::rpy2q", "ahrs/common/orientation.py::q2R",
    "ahrs/filters/tilt.py::Tilt.estimate", "ahrs/filters/tilt.py::Tilt._compute_all", "ahrs/filters/complementary.py::Complementary.am_estimation",
    "ahrs/filters/fqa.py::FQA.estimate", "ahrs/filters/saam.py::SAAM.estimate", "ahrs/filters/triad.py::TRIAD.estimate", "ahrs/filters/oleq.py::OLEQ.estimate",
    "ahrs/filters/madgwick.py::Madgwick.updateIMU", "ahrs/filters/madgwick.py::Madgwick.updateMARG", "ahrs/filters/mahony.py::Mahony.updateIMU",
    "ahrs/filters/mahony.py::Mahony.updateMARG", "ahrs/filters/ekf.py::EKF.update", "ahrs/filters/ukf.py::UKF.update", "ahrs/filters/fourati.py::Fourati.update",
    "ahrs/filters/roleq.py::ROLEQ.oleq", "ahrs/filters/fkf.py::FKF.measurement_quaternion_acc_mag",
]
POSE_OK_PREFIX = ("c:", "norm(", "P:", "S:", "g:")


def pose_div(chk, prog, files):
    from .facts import Facts
    n = 0
    for ref in POSE_FREE:
        rel = ref.split("::")[0]
        if rel not in files:
            continue
        f = prog.func(ref)
        fa = Facts(f, prog).analyse()
        for d in fa.divisions:
            n += 1
            vn = d["vn"]
            if vn.startswith(POSE_OK_PREFIX) or d["guarded"]:
                continue
            node = d["node"]
            div = ast.unparse(node.right if isinstance(node, ast.BinOp) else node)[:70]
            chk.finding("POSE-DIV", f.module.rel, f.qname, "division: %s" % ast.unparse(node)[:90],
                        "`%s` is a pose-dependent quantity with no dominating non-zero guard: it vanishes for some attitude (an axis exactly vertical, a half-turn ...) and the "
                        "result is NaN there; every other divisor of this function is a literal, a norm or a guarded value" % div, line=node.lineno)
    chk.counts["POSE-DIV.divisions"] = chk.counts.get("POSE-DIV.divisions", 0) + n
    return n


# ------------------------------------------------------------------------------------------------------- ZERO-AS-MISSING
def zero_as_missing(chk, prog, files):
    """`p or DEFAULT` (or `kwargs.get('p') or DEFAULT`) for a parameter annotated as a number: 0 / 0.0 is falsy, so a caller who passes zero
    silently gets DEFAULT.  Only reported when DEFAULT is not itself zero (otherwise nothing changes)."""
    n = 0
    for f in _funcs(prog, files):
        a = f.node.args
        numeric = set()
        for p in a.posonlyargs + a.args + a.kwonlyargs:
            ann = ast.unparse(p.annotation) if p.annotation is not None else ""
            if any(t in ann for t in ("float", "int")) and "bool" not in ann and "str" not in ann and "ndarray" not in ann and "list" not in ann.lower():
                numeric.add(p.arg)
        for x in ast.walk(f.node):
            if isinstance(x, ast.BoolOp) and isinstance(x.op, ast.Or) and len(x.values) == 2:
                first, dflt = x.values
                who = None
                if isinstance(first, ast.Name) and first.id in numeric:
                    who = first.id
                elif isinstance(first, ast.Call) and ast.unparse(first.func).endswith("kwargs.get") and len(first.args) == 1 and isinstance(first.args[0], ast.Constant):
                    who = "kwargs[%r]" % first.args[0].value
                    if not isinstance(dflt, (ast.Constant, ast.Name, ast.Attribute)) or (isinstance(dflt, ast.Constant) and not isinstance(dflt.value, (int, float))):
                        who = None
                if who is None:
                    continue
                n += 1
                val = _const_value(prog, f, dflt)
                if val == 0:
                    continue
                chk.finding("ZERO-AS-MISSING", f.module.rel, f.qname, "%s or %s" % (who, ast.unparse(dflt)[:40]),
                            "`%s` treats a numeric argument of 0 as `not given` and substitutes %s: an explicitly requested zero (no flattening, no rotation, zero noise ...) is silently replaced"
                            % (ast.unparse(x)[:70], ast.unparse(dflt)[:40]), line=x.lineno)
    chk.counts["ZERO-AS-MISSING.sites"] = chk.counts.get("ZERO-AS-MISSING.sites", 0) + n
    return n


def _const_value(prog, f, node):
    if isinstance(node, ast.Constant) and isinstance(node.value, (int, float)) and not isinstance(node.value, bool):
        return node.value
    if isinstance(node, ast.Name):
        r = f.module.resolve_name(node.id)
        if isinstance(r, tuple) and r and r[0] == "assign":
            v = r[3]
            v = getattr(v, "value", v)
            if isinstance(v, ast.Constant) and isinstance(v.value, (int, float)):
                return v.value
    return None


# -------------------------------------------------------------------------------------------------------- NO-PARAM-WRITE
def no_param_write(chk, prog, files):
    """the ownership rule of C19 (flow-sensitive may-alias analysis with callee summaries), restricted to the public callables of the given files:
    an in-place write that reaches a caller-owned array also changes what the *same* call sequence computes next (neighbour rows, second call)"""
    from .flow import Alias
    from props.c19 import is_public, array_params, uses_as_array
    alias = Alias(prog)
    n = 0
    for f in _funcs(prog, files):
        if not is_public(f) or f.is_setter:
            continue
        n += 1
        s = alias.summary(f)
        ap = array_params(f)
        for ph, recs in sorted(s.mut.items(), key=lambda kv: str(kv[0])):
            if ph[0] == "param":
                if ph[1] not in ap:
                    continue
                if ap[ph[1]] is None and not uses_as_array(f, ph[1]) and not any(r["path"] for r in recs):
                    continue
                who = "parameter `%s`" % ph[1]
            elif ph[0] == "kw":
                who = "keyword argument `%s`" % ph[1]
            else:
                continue
            for r in recs:
                inner = r["path"][-1] if r["path"] else r
                via = " via " + " -> ".join(p["func"].split("::")[1] for p in r["path"]) if r["path"] else ""
                chk.finding("NO-PARAM-WRITE", f.module.rel, f.qname, "%s: %s" % (ph[1], inner["stmt"]),
                            "in-place write reaches the caller's %s%s (%s)" % (who, via, r["what"]), line=inner.get("line") or r["line"])
    chk.counts["NO-PARAM-WRITE.callables"] = chk.counts.get("NO-PARAM-WRITE.callables", 0) + n
    return n


# ------------------------------------------------------------------------------------------------------------- CACHE-KEY
def cache_key(chk, prog, files):
    """A method that recomputes part of its state only when a key built from some of its arguments differs from the key remembered on the object
    (`key = (a, b); fresh = key != self._key; if fresh: ...; self._key = key`) must put into the key every argument the skipped computation depends on.
    Dependencies are traced by data flow from each parameter through the locals into (i) the statements guarded by the comparison and (ii) the other
    arguments of calls that receive the comparison's result as a flag."""
    n = 0
    for f in _funcs(prog, files):
        if f.cls is None:
            continue
        params = [p for p in _params(f)]
        if not params:
            continue
        # remembered keys: self.<attr> = <K> somewhere in the function, and a comparison of <K> (or a local bound to it) with self.<attr>
        stores = {}
        for s in ast.walk(f.node):
            if isinstance(s, ast.Assign) and len(s.targets) == 1 and isinstance(s.targets[0], ast.Attribute) and isinstance(s.targets[0].value, ast.Name) \
                    and s.targets[0].value.id == "self":
                stores[s.targets[0].attr] = s.value
            # pairwise form: self._key, self._value = key, value
            if isinstance(s, ast.Assign) and len(s.targets) == 1 and isinstance(s.targets[0], ast.Tuple) and isinstance(s.value, ast.Tuple) \
                    and len(s.targets[0].elts) == len(s.value.elts):
                for t_, v_ in zip(s.targets[0].elts, s.value.elts):
                    if isinstance(t_, ast.Attribute) and isinstance(t_.value, ast.Name) and t_.value.id == "self":
                        stores[t_.attr] = v_
        local_defs = {}
        for s in ast.walk(f.node):
            if isinstance(s, ast.Assign) and len(s.targets) == 1 and isinstance(s.targets[0], ast.Name):
                local_defs.setdefault(s.targets[0].id, []).append(s.value)
        taint_of = {p: _tainted_by_params(f.node, [p]) for p in params}

        def deps(node):
            out = set()
            for x in ast.walk(node):
                c = x.id if isinstance(x, ast.Name) else ("%s.%s" % (x.value.id, x.attr) if isinstance(x, ast.Attribute) and isinstance(x.value, ast.Name) else None)
                if c is not None and c != "self":
                    for p in params:
                        if c in taint_of[p]:
                            out.add(p)
            return out
        for cmp_ in ast.walk(f.node):
            if not (isinstance(cmp_, ast.Compare) and len(cmp_.ops) == 1 and isinstance(cmp_.ops[0], (ast.NotEq, ast.Eq, ast.Is, ast.IsNot))):
                continue
            sides = [cmp_.left, cmp_.comparators[0]]

            def key_attr(x):
                if isinstance(x, ast.Attribute) and isinstance(x.value, ast.Name) and x.value.id == "self" and x.attr in stores:
                    return x.attr
                # getattr(self, '_key', None)
                if isinstance(x, ast.Call) and isinstance(x.func, ast.Name) and x.func.id == "getattr" and len(x.args) >= 2 and isinstance(x.args[0], ast.Name) \
                        and x.args[0].id == "self" and isinstance(x.args[1], ast.Constant) and x.args[1].value in stores:
                    return x.args[1].value
                return None
            attr = key_attr(sides[0]) or key_attr(sides[1])
            tuple_form = False
            if attr is None and all(isinstance(x_, ast.Tuple) for x_ in sides) and len(sides[0].elts) == len(sides[1].elts) and sides[0].elts:
                # tuple key: (lat, lon) == (self.latitude, self.longitude), each attribute stored from the matching element somewhere in the function
                for me, ot in ((sides[0], sides[1]), (sides[1], sides[0])):
                    if all(key_attr(e_) for e_ in me.elts) and all(ast.dump(stores[key_attr(e_)]) == ast.dump(o_) for e_, o_ in zip(me.elts, ot.elts)):
                        attr, other, tuple_form = key_attr(me.elts[0]), ot, True
                        break
            if attr is None:
                continue
            if not tuple_form:
                other = sides[1] if key_attr(sides[0]) == attr else sides[0]
                stored = stores[attr]
                if ast.dump(stored) != ast.dump(other):
                    continue                          # the remembered value is not the compared key
            key_expr = other
            if isinstance(other, ast.Name) and other.id in local_defs:
                key_expr = local_defs[other.id][-1]
            key_params = deps(key_expr)
            n += 1
            # what the comparison guards
            flags = set()
            guarded_nodes = []
            early_nodes = []
            early_cached = set()
            for s in ast.walk(f.node):
                if isinstance(s, ast.Assign) and s.value is cmp_ and isinstance(s.targets[0], ast.Name):
                    flags.add(s.targets[0].id)
                # the comparison and-ed with an availability test: same = hasattr(self, 'P') and key == self._key
                if isinstance(s, ast.Assign) and isinstance(s.targets[0], ast.Name) and isinstance(s.value, ast.BoolOp) and isinstance(s.value.op, ast.And) \
                        and any(v_ is cmp_ for v_ in s.value.values):
                    flags.add(s.targets[0].id)

            def is_flag(t):
                return t is cmp_ or (isinstance(t, ast.Name) and t.id in flags) or (isinstance(t, ast.UnaryOp) and isinstance(t.op, ast.Not) and is_flag(t.operand))
            for s in ast.walk(f.node):
                if isinstance(s, ast.If) and is_flag(s.test) and not (isinstance(cmp_.ops[0], (ast.Eq, ast.Is)) and s.test is cmp_ and s.body and isinstance(s.body[-1], ast.Return) and not s.orelse):
                    guarded_nodes.extend(s.body)
                    guarded_nodes.extend(s.orelse)
                # early-return form: `if key == self._key: return <cached>` skips everything that follows in the block
                for blk in (getattr(s, "body", None), getattr(s, "orelse", None)):
                    if isinstance(blk, list):
                        for i_, st_ in enumerate(blk):
                            if isinstance(st_, ast.If) and is_flag(st_.test) and st_.body and isinstance(st_.body[-1], ast.Return) and not st_.orelse:
                                early_nodes.extend(blk[i_ + 1:])
                if isinstance(s, ast.Call) and any(is_flag(k.value) for k in s.keywords) or (isinstance(s, ast.Call) and any(is_flag(a) for a in s.args)):
                    guarded_nodes.extend([a for a in s.args if not is_flag(a)])
                    guarded_nodes.extend([k.value for k in s.keywords if not is_flag(k.value)])
            need = set()
            for g in guarded_nodes:
                need |= deps(g)
            # after an early return only the values remembered on the object are "skipped work" (the rest of the tail is redone from the cached value on the hit path)
            for g in early_nodes:
                for x in ast.walk(g):
                    if isinstance(x, ast.Assign):
                        tv = []
                        for t_ in x.targets:
                            if isinstance(t_, ast.Tuple) and isinstance(x.value, ast.Tuple) and len(t_.elts) == len(x.value.elts):
                                tv.extend(zip(t_.elts, x.value.elts))
                            else:
                                tv.append((t_, x.value))
                        for t_, v_ in tv:
                            t0 = t_.value if isinstance(t_, ast.Subscript) else t_
                            if isinstance(t0, ast.Attribute) and isinstance(t0.value, ast.Name) and t0.value.id == "self" and t0.attr != attr:
                                need |= deps(v_)
                                early_cached.add(t0.attr)
            guarded_nodes = guarded_nodes + early_nodes
            # object state the skipped work reads: attributes that some method other than the constructor (re)assigns are inputs too
            def attrs_of(node_or_nodes):
                out = set()
                for g_ in (node_or_nodes if isinstance(node_or_nodes, list) else [node_or_nodes]):
                    for x in ast.walk(g_):
                        if isinstance(x, ast.Attribute) and isinstance(x.value, ast.Name) and x.value.id == "self" and isinstance(x.ctx, ast.Load):
                            out.add(x.attr)
                return out
            key_attrs = attrs_of(key_expr)
            frontier = [x.id for x in ast.walk(key_expr) if isinstance(x, ast.Name)]
            seen_l = set()
            while frontier:                      # attributes the key depends on through locals (dt = f(self.date_dec, self.epoch))
                nm = frontier.pop()
                if nm in seen_l:
                    continue
                seen_l.add(nm)
                for d_ in local_defs.get(nm, []):
                    key_attrs |= attrs_of(d_)
                    frontier.extend(x.id for x in ast.walk(d_) if isinstance(x, ast.Name))
            cached_attrs = {t.attr for g_ in guarded_nodes for x in ast.walk(g_) if isinstance(x, (ast.Assign, ast.AugAssign))
                            for t in (x.targets if isinstance(x, ast.Assign) else [x.target])
                            for t in [t.value if isinstance(t, ast.Subscript) else t] if isinstance(t, ast.Attribute)}
            mutable = set()
            for g_ in f.cls.methods.values():
                if g_.name in ("__init__", "__new__"):
                    continue
                for x in ast.walk(g_.node):
                    if isinstance(x, ast.Attribute) and isinstance(x.ctx, ast.Store) and isinstance(x.value, ast.Name) and x.value.id == "self":
                        mutable.add(x.attr)
                    if isinstance(x, ast.Subscript) and isinstance(x.ctx, ast.Store) and isinstance(x.value, ast.Attribute) and isinstance(x.value.value, ast.Name) \
                            and x.value.value.id == "self":
                        mutable.add(x.value.attr)
            stale_state = sorted(a_ for a_ in attrs_of([g_ for g_ in guarded_nodes if isinstance(g_, ast.AST)]) if a_ in mutable and a_ not in key_attrs and a_ not in cached_attrs and a_ not in early_cached and a_ != attr)
            if stale_state:
                chk.finding("CACHE-KEY", f.module.rel, f.qname, "key self.%s = %s" % (attr, ast.unparse(key_expr)[:60]),
                            "the work skipped while `%s` is unchanged reads %s, object state that other methods re-assign and that the remembered key does not cover: after such a "
                            "change (e.g. another model file loaded) the cached result is stale" % (ast.unparse(cmp_)[:60], ", ".join("self." + a_ for a_ in stale_state)), line=cmp_.lineno)
            missing = sorted(need - key_params)
            if missing:
                chk.finding("CACHE-KEY.early" if early_nodes and not guarded_nodes[:len(guarded_nodes) - len(early_nodes)] else ("CACHE-KEY.tuple" if tuple_form else "CACHE-KEY"), f.module.rel, f.qname, "key self.%s = %s" % (attr, ast.unparse(key_expr)[:60]),
                            "the work skipped while `%s` is unchanged also depends on %s, which the remembered key (%s) does not contain: a call that changes only %s reuses stale results"
                            % (ast.unparse(cmp_)[:60], ", ".join("`%s`" % m for m in missing), ", ".join(sorted(key_params)), "/".join(missing)), line=cmp_.lineno)
    # memoising decorators on methods: @cached_property / @lru_cache / @cache.  The cached value is keyed on nothing (cached_property) or on the explicit
    # arguments only (lru_cache keeps `self` by identity); every attribute the method reads that some other method re-assigns is an input the cache ignores,
    # unless every such method also drops the cached entry (self.__dict__.pop('<name>', None) / del self.<name>).
    for rel in sorted(files):
        m = prog.modules.get(rel)
        if m is None:
            continue
        for c in m.classes.values():
            for name, g in c.methods.items():
                decs = [ast.unparse(d).split("(")[0].split(".")[-1] for d in g.node.decorator_list]
                if not any(d in ("cached_property", "lru_cache", "cache") for d in decs):
                    continue
                n += 1
                selfn = g.params[0] if g.params else "self"
                # attributes read directly, through other properties/methods of the class (one level)
                reads = set()
                todo, seen_m = [g], set()
                while todo:
                    h = todo.pop()
                    if h.qname in seen_m:
                        continue
                    seen_m.add(h.qname)
                    hs = h.params[0] if h.params else "self"
                    for x in ast.walk(h.node):
                        if isinstance(x, ast.Attribute) and isinstance(x.value, ast.Name) and x.value.id == hs and isinstance(x.ctx, ast.Load):
                            reads.add(x.attr)
                            if x.attr in c.methods and len(seen_m) < 12:
                                todo.append(c.methods[x.attr])
                writers = {}
                for h in c.methods.values():
                    if h.name in ("__init__", "__new__") or h is g:
                        continue
                    hs = h.params[0] if h.params else "self"
                    wrote = {x.attr for x in ast.walk(h.node) if isinstance(x, ast.Attribute) and isinstance(x.ctx, ast.Store) and isinstance(x.value, ast.Name) and x.value.id == hs}
                    wrote |= {x.value.attr for x in ast.walk(h.node) if isinstance(x, ast.Subscript) and isinstance(x.ctx, ast.Store) and isinstance(x.value, ast.Attribute)
                              and isinstance(x.value.value, ast.Name) and x.value.value.id == hs}
                    hit = wrote & reads
                    if not hit:
                        continue
                    txt = ast.unparse(h.node)
                    drops = ("pop('%s'" % name) in txt or ('pop("%s"' % name) in txt or ("del %s.%s" % (hs, name)) in txt or ("cache_clear" in txt and "lru_cache" in decs)
                    if not drops:
                        writers[h.qname] = sorted(hit)
                # public plain attributes the constructor sets from its arguments are the object's configuration: nothing stops `obj.w = ...` after construction, and an
                # accessor memoised with @cached_property (keyed on nothing) then keeps answering for the configuration of its first read
                if not writers and "cached_property" in decs:
                    init = c.methods.get("__init__")
                    public = set()
                    if init is not None:
                        is_ = init.params[0] if init.params else "self"
                        public = {x.attr for x in ast.walk(init.node) if isinstance(x, ast.Attribute) and isinstance(x.ctx, ast.Store) and isinstance(x.value, ast.Name)
                                  and x.value.id == is_ and not x.attr.startswith("_")}
                    has_hook = any(h_ in c.methods for h_ in ("__setattr__",)) or any(
                        ("pop('%s'" % name) in ast.unparse(h.node) or ("del %s.%s" % ((h.params or ["self"])[0], name)) in ast.unparse(h.node) for h in c.methods.values())
                    hit = sorted(public & reads)
                    if hit and not has_hook:
                        chk.finding("CACHE-KEY.property", rel, g.qname, "@cached_property on %s" % g.qname,
                                    "`%s` is memoised on the object for good, but it is computed from %s - public attributes the constructor sets and any caller may re-assign; "
                                    "after `obj.%s = ...` the accessor keeps returning the value of the earlier configuration while its uncached siblings follow the new one"
                                    % (g.qname, ", ".join("self." + a_ for a_ in hit[:4]), hit[0]), line=g.node.lineno)
                if writers:
                    w0 = sorted(writers)[0]
                    chk.finding("CACHE-KEY.property", rel, g.qname, "@%s on %s" % ([d for d in decs if d in ("cached_property", "lru_cache", "cache")][0], g.qname),
                                "`%s` is memoised on the object, but it reads %s, which %s re-assigns without dropping the cached value: after that call the accessor keeps "
                                "returning the value computed for the earlier state" % (g.qname, ", ".join("self." + a_ for a_ in writers[w0][:4]), w0), line=g.node.lineno)
    chk.counts["CACHE-KEY.keys"] = chk.counts.get("CACHE-KEY.keys", 0) + n
    return n


# ---------------------------------------------------------------------------------------------------------- STALE-DERIVED
def stale_derived(chk, prog, files):
    """Within one method:  self.A = f(self.B, ...)  and, later on the same path,  self.B = <something else>  without re-deriving self.A.
    At the method's exit the object then exposes an A that describes the old B (a copy that went stale).  Value numbers decide `something else`:
    re-assigning B to the very same value number is not a change."""
    from .facts import Facts
    n = 0
    for f in _funcs(prog, files):
        if f.cls is None or f.name in ("__init__", "__new__"):
            continue
        if not any(isinstance(x, ast.Attribute) and isinstance(x.ctx, ast.Store) and isinstance(x.value, ast.Name) and x.value.id == "self" for x in ast.walk(f.node)):
            continue
        selfn = f.params[0] if f.params else "self"

        def self_write(fa, attr, stmt, st):
            val = getattr(stmt, "value", None)
            tgt_is_plain = isinstance(stmt, ast.Assign) and any(isinstance(t, ast.Attribute) and t.attr == attr for t in stmt.targets)
            if val is None or not tgt_is_plain:
                st.pop("dep:" + attr, None)
                return
            reads = {}
            for x in ast.walk(val):
                if isinstance(x, ast.Attribute) and isinstance(x.value, ast.Name) and x.value.id == selfn and x.attr != attr and isinstance(x.ctx, ast.Load):
                    reads[x.attr] = st.get("s:" + x.attr) or ("S:" + x.attr)
            if reads:
                st["dep:" + attr] = tuple(sorted(reads.items())) + (("@line", stmt.lineno),)
            else:
                st.pop("dep:" + attr, None)
        try:
            fa = Facts(f, prog, callbacks={"self_write": self_write}).analyse()
        except Exception:
            continue
        n += 1
        seen = set()
        for stmt, st in fa.returns:
            if st is None:
                continue
            for k, v in st.items():
                if not k.startswith("dep:"):
                    continue
                a = k[4:]
                line = dict(v).get("@line")
                for b, vn_then in v:
                    if b == "@line":
                        continue
                    now = st.get("s:" + b) or ("S:" + b)
                    if now != vn_then and (a, b) not in seen:
                        seen.add((a, b))
                        chk.finding("STALE-DERIVED", f.module.rel, f.qname, "self.%s derived from self.%s, which is re-assigned afterwards" % (a, b),
                                    "`self.%s` is computed from `self.%s` and `self.%s` is then given a different value in the same method without re-deriving `self.%s`: "
                                    "on return the two attributes describe different states" % (a, b, b, a), line=line)
    chk.counts["STALE-DERIVED.methods"] = chk.counts.get("STALE-DERIVED.methods", 0) + n
    return n


# ------------------------------------------------------------------------------------------------------------- SELF-PURE
def self_pure(chk, prog, files):
    """value classes (Quaternion, QuaternionArray, DCM): a method outside the documented in-place API never writes the object's own storage
    (ownership analysis of C19, restricted to the given files): an accessor that mutates its object changes what every later call sees"""
    from .flow import Alias
    from props.c19 import VALUE_CLASSES, INPLACE_API
    alias = Alias(prog)
    n = 0
    for rel in sorted(files):
        m = prog.modules.get(rel)
        if m is None:
            continue
        for c in m.classes.values():
            if c.name not in VALUE_CLASSES:
                continue
            for f in c.methods.values():
                if f.qname in INPLACE_API:
                    continue
                n += 1
                s = alias.summary(f)
                for ph, recs in s.mut.items():
                    if ph[0] == "cell" and ph[1] in VALUE_CLASSES[c.name]:
                        for r in recs:
                            inner = r["path"][-1] if r["path"] else r
                            chk.finding("SELF-PURE", m.rel, f.qname, "self.%s: %s" % (ph[1], inner["stmt"]),
                                        "%s is not part of the in-place API but writes the object's own storage self.%s: a second call sees different data" % (f.qname, ph[1]),
                                        line=inner.get("line"))
    chk.counts["SELF-PURE.methods"] = chk.counts.get("SELF-PURE.methods", 0) + n
    return n


# -------------------------------------------------------------------------------------------------------------------- RD
def possibly_undefined(chk, prog, files):
    """UNDEFINED-NAME: a name read in a function that is bound nowhere -- not a parameter, never assigned / imported / bound by a loop, `with`, `except`
    or comprehension anywhere in the function or an enclosing one, not a module-level name, not a builtin.  Reading it raises NameError on every path that
    reaches it (typically the only definition was deleted or renamed).  Path-sensitive `may be undefined` reasoning is deliberately left to the
    property-specific RD rule (frames.py): infeasible paths make it alarm on correct code."""
    import builtins
    n = 0
    for rel in sorted(files):
        m = prog.modules.get(rel)
        if m is None:
            continue
        module_names = set(m.funcs) | set(m.classes) | set(m.assigns) | set(m.imports) | set(dir(builtins)) | {"__name__", "__file__", "__doc__"}
        for s_ in m.tree.body:      # names bound by other top-level statements (for / with / try / tuple targets ...)
            for x in ast.walk(s_):
                if isinstance(x, ast.Name) and isinstance(x.ctx, ast.Store):
                    module_names.add(x.id)
                if isinstance(x, ast.alias):
                    module_names.add((x.asname or x.name).split(".")[0])
                if isinstance(x, (ast.FunctionDef, ast.ClassDef)) and x in m.tree.body:
                    module_names.add(x.name)

        def scan(fn, outer):
            nonlocal n
            bound = set(outer)
            a = fn.args
            for p in a.posonlyargs + a.args + a.kwonlyargs:
                bound.add(p.arg)
            if a.vararg:
                bound.add(a.vararg.arg)
            if a.kwarg:
                bound.add(a.kwarg.arg)
            inner = []
            for x in ast.walk(fn):
                if x is fn:
                    continue
                if isinstance(x, ast.Name) and isinstance(x.ctx, (ast.Store, ast.Del)):
                    bound.add(x.id)
                elif isinstance(x, ast.alias):
                    bound.add((x.asname or x.name).split(".")[0])
                elif isinstance(x, ast.ExceptHandler) and x.name:
                    bound.add(x.name)
                elif isinstance(x, (ast.FunctionDef, ast.ClassDef, ast.AsyncFunctionDef)):
                    bound.add(x.name)
                    if not isinstance(x, ast.ClassDef):       # parameters of a nested function are bound inside it (over-approximated to the whole body: never an alarm)
                        for p in x.args.posonlyargs + x.args.args + x.args.kwonlyargs + [q_ for q_ in (x.args.vararg, x.args.kwarg) if q_ is not None]:
                            bound.add(p.arg)
                elif isinstance(x, ast.Lambda):
                    for p in x.args.posonlyargs + x.args.args + x.args.kwonlyargs + [q_ for q_ in (x.args.vararg, x.args.kwarg) if q_ is not None]:
                        bound.add(p.arg)
                elif isinstance(x, (ast.Global, ast.Nonlocal)):
                    bound.update(x.names)
                elif isinstance(x, ast.MatchAs) and x.name:
                    bound.add(x.name)
            n += 1
            for x in ast.walk(fn):
                if isinstance(x, ast.Name) and isinstance(x.ctx, ast.Load) and x.id not in bound and x.id not in module_names:
                    yield x
        for f in _funcs(prog, [rel]):
            seen = set()
            for x in scan(f.node, set()):
                if x.id in seen:
                    continue
                seen.add(x.id)
                chk.finding("UNDEFINED-NAME", rel, f.qname, "`%s` is bound nowhere" % x.id,
                            "`%s` is read but no statement of the function (nor the module) binds it: NameError whenever this line runs" % x.id, line=x.lineno)
    chk.counts["UNDEFINED-NAME.functions"] = chk.counts.get("UNDEFINED-NAME.functions", 0) + n
    return n


# ------------------------------------------------------------------------------------------------------------ SIGN-CANON
def sign_canon(chk, prog, files):
    """`v * np.sign(v[k])` / `v *= np.sign(v[k])`: a vector multiplied by the sign of one of its own components, to pick the representative with a positive
    component.  np.sign(0) is 0, so a valid non-zero vector whose k-th component is exactly 0 (a half-turn quaternion, an axis-aligned pose) becomes the zero
    vector.  (Signs of *other* quantities times a magnitude -- 0.5*sign(d)*sqrt(.) -- are a different idiom and are not reported.)"""
    n = 0

    def sign_args(node):
        for x in ast.walk(node):
            if isinstance(x, ast.Call) and ast.unparse(x.func).split(".")[-1] == "sign" and x.args:
                yield x, x.args[0]

    def base_of(e):
        while isinstance(e, (ast.Subscript,)):
            e = e.value
        return ast.unparse(e) if isinstance(e, (ast.Name, ast.Attribute)) else None
    for f in _funcs(prog, files):
        for s in ast.walk(f.node):
            pairs = []
            if isinstance(s, ast.AugAssign) and isinstance(s.op, ast.Mult):
                for call, arg in sign_args(s.value):
                    pairs.append((call, arg, ast.unparse(s.target) if isinstance(s.target, (ast.Name, ast.Attribute)) else base_of(s.target)))
            elif isinstance(s, ast.BinOp) and isinstance(s.op, ast.Mult):
                for side, other in ((s.left, s.right), (s.right, s.left)):
                    if isinstance(side, ast.Call) and ast.unparse(side.func).split(".")[-1] == "sign" and side.args and isinstance(other, (ast.Name, ast.Attribute)):
                        pairs.append((side, side.args[0], ast.unparse(other)))
            for call, arg, other in pairs:
                n += 1
                if other is not None and isinstance(arg, ast.Subscript) and base_of(arg) == other:
                    chk.finding("SIGN-CANON", f.module.rel, f.qname, "%s scaled by %s" % (other, ast.unparse(call)),
                                "`%s` is multiplied by the sign of its own component `%s`: when that component is exactly 0 (a valid value: half-turns, axis-aligned poses) "
                                "np.sign gives 0 and the whole vector is annihilated" % (other, ast.unparse(arg)), line=call.lineno)
        # whole vectors / rows scaled by a factor built from np.sign (directly, through a local, cumprod / prod): X *= sign(<dot products>) ... the factor is 0 when
        # its argument is exactly 0 (orthogonal neighbours, an exact half-turn between samples) and then wipes out every row it multiplies
        signed = set()
        for _ in range(2):
            for s in ast.walk(f.node):
                if isinstance(s, ast.Assign) and len(s.targets) == 1 and isinstance(s.targets[0], ast.Name):
                    if any(True for _c in sign_args(s.value)) or any(isinstance(x, ast.Name) and x.id in signed for x in ast.walk(s.value)):
                        # a sign times a magnitude (0.5*sign(d)*sqrt(.)) is the component idiom, not a factor
                        if not any(isinstance(x, ast.Call) and ast.unparse(x.func).split(".")[-1] == "sqrt" for x in ast.walk(s.value)):
                            signed.add(s.targets[0].id)

        def whole(t):
            if isinstance(t, (ast.Name, ast.Attribute)):
                return True
            if isinstance(t, ast.Subscript):
                first = t.slice.elts[0] if isinstance(t.slice, ast.Tuple) else t.slice
                return isinstance(first, ast.Slice)
            return False
        for s in ast.walk(f.node):
            if isinstance(s, ast.AugAssign) and isinstance(s.op, ast.Mult) and whole(s.target):
                uses = any(True for _c in sign_args(s.value)) or any(isinstance(x, ast.Name) and x.id in signed for x in ast.walk(s.value))
                own = any(isinstance(a_, ast.Subscript) and base_of(a_) == base_of(s.target) and not isinstance(a_.slice, ast.Slice) for _c, a_ in sign_args(s.value))
                if uses and not own:
                    n += 1
                    chk.finding("SIGN-CANON.rows", f.module.rel, f.qname, "%s" % stmt_text(s)[:80],
                                "whole rows of `%s` are multiplied by a factor built from np.sign(...): np.sign is 0 when its argument is exactly 0 (orthogonal consecutive "
                                "quaternions, an exact half-turn between samples), and the zero factor annihilates the rows it reaches (and every later one through a cumulative product)"
                                % base_of(s.target), line=s.lineno)
    chk.counts["SIGN-CANON.products"] = chk.counts.get("SIGN-CANON.products", 0) + n
    return n


# ----------------------------------------------------------------------------------------------------------- SUBCLASS-ARITH
_DUNDER_OPS = {"__mul__": ast.Mult, "__rmul__": ast.Mult, "__matmul__": ast.MatMult, "__add__": ast.Add, "__radd__": ast.Add, "__sub__": ast.Sub, "__rsub__": ast.Sub,
               "__pow__": ast.Pow, "__truediv__": ast.Div}


def subclass_arith(chk, prog, files):
    """np.asanyarray(x) / np.array(x, subok=True) / np.copy(x, subok=True) keep the repository's ndarray subclasses (Quaternion, QuaternionArray, DCM) as they
    are, and those classes overload arithmetic operators with non-element-wise meanings (Quaternion.__mul__ is the Hamilton product, __add__ renormalises).
    A value converted that way and then used with one of the overloaded operators computes something else whenever the caller hands in such an object."""
    ops = set()
    for m in prog.modules.values():
        for c in m.classes.values():
            if _is_ndarray_subclass(c):
                for name in c.methods:
                    if name in _DUNDER_OPS:
                        ops.add(_DUNDER_OPS[name])
    n = 0

    def keeps_subclass(v):
        if not isinstance(v, ast.Call):
            return False
        cal = ast.unparse(v.func).split(".")[-1]
        if cal == "asanyarray":
            return True
        return cal in ("array", "copy", "asarray") and any(k.arg == "subok" and isinstance(k.value, ast.Constant) and k.value.value is True for k in v.keywords)
    for f in _funcs(prog, files):
        kept = {}
        for s in ast.walk(f.node):
            if isinstance(s, ast.Assign) and len(s.targets) == 1 and isinstance(s.targets[0], ast.Name) and keeps_subclass(s.value):
                kept[s.targets[0].id] = s
        sites = [x for x in ast.walk(f.node) if keeps_subclass(x)]
        n += len(sites)
        if not sites or not ops:
            continue
        for b in ast.walk(f.node):
            operands = []
            if isinstance(b, ast.BinOp) and type(b.op) in ops:
                operands = [b.left, b.right]
            elif isinstance(b, ast.AugAssign) and type(b.op) in ops:
                operands = [b.target, b.value]
            for o in operands:
                if keeps_subclass(o) or (isinstance(o, ast.Name) and o.id in kept):
                    chk.finding("SUBCLASS-ARITH", f.module.rel, f.qname, "%s on a subclass-preserving conversion" % stmt_text(b)[:70],
                                "`%s` is used with an operator the package's ndarray subclasses overload (Quaternion.__mul__ is the Hamilton product, __add__/__sub__ "
                                "renormalise): after np.asanyarray / subok=True a Quaternion argument keeps its class and the arithmetic is no longer element-wise"
                                % ast.unparse(o)[:40], line=b.lineno)
                    break
    chk.counts["SUBCLASS-ARITH.conversions"] = chk.counts.get("SUBCLASS-ARITH.conversions", 0) + n
    return n


# --------------------------------------------------------------------------------------------------------------- MASK-BLEND
def mask_blend(chk, prog, files):
    """`mask*A + ~mask*B` (two-way selection by arithmetic with a boolean array): the unselected branch is still evaluated and only multiplied by False.
    If it divides by a computed quantity, the rows where that quantity vanishes give inf or nan there, and nan*False is nan, inf*False is nan: the blend
    returns NaN exactly on the rows the mask was meant to protect (np.where has the same evaluation but at least discards the value).  Reported when a masked
    term contains a division by something other than a literal."""
    n = 0
    for f in _funcs(prog, files):
        masks = set()
        for s in ast.walk(f.node):
            if isinstance(s, ast.Assign) and len(s.targets) == 1 and isinstance(s.targets[0], ast.Name) and isinstance(s.value, ast.Compare):
                masks.add(s.targets[0].id)

        def mask_factor(e):
            if isinstance(e, ast.Name) and e.id in masks:
                return e.id
            if isinstance(e, ast.UnaryOp) and isinstance(e.op, (ast.Invert, ast.Not)):
                return mask_factor(e.operand)
            if isinstance(e, ast.Call) and ast.unparse(e.func).split(".")[-1] == "logical_not" and e.args:
                return mask_factor(e.args[0])
            if isinstance(e, ast.BinOp) and isinstance(e.op, ast.Sub) and isinstance(e.left, ast.Constant) and e.left.value in (1, 1.0):
                return mask_factor(e.right)
            if isinstance(e, ast.Compare):
                return ast.unparse(e)
            return None

        def factors(e):
            if isinstance(e, ast.BinOp) and isinstance(e.op, ast.Mult):
                return factors(e.left) + factors(e.right)
            return [e]

        def risky_div(e):
            for x in ast.walk(e):
                if isinstance(x, ast.BinOp) and isinstance(x.op, ast.Div) and not isinstance(x.right, ast.Constant):
                    return x
            return None
        for b in ast.walk(f.node):
            if not (isinstance(b, ast.BinOp) and isinstance(b.op, ast.Add)):
                continue
            terms = [b.left, b.right]
            picked = []
            for t in terms:
                fs = factors(t)
                mk = [mask_factor(x) for x in fs]
                if any(mk):
                    rest = [x for x, k in zip(fs, mk) if not k]
                    picked.append((next(k for k in mk if k), rest))
            if len(picked) == 2 and picked[0][0] == picked[1][0]:
                n += 1
                for mname, rest in picked:
                    d = next((risky_div(x) for x in rest if risky_div(x) is not None), None)
                    if d is not None:
                        chk.finding("MASK-BLEND", f.module.rel, f.qname, "%s" % stmt_text(b)[:80],
                                    "the two forms are combined as `mask*A + ~mask*B`; `%s` is evaluated on every row, also where `%s` rules its form out, and a zero divisor there gives "
                                    "inf/nan, which multiplied by False is nan: the rows the mask was meant to protect come out as NaN" % (ast.unparse(d)[:40], mname), line=b.lineno)
                        break
    chk.counts["MASK-BLEND.blends"] = chk.counts.get("MASK-BLEND.blends", 0) + n
    return n


# ------------------------------------------------------------------------------------------------------------ PROCESS-STATE
PROCESS_SETTERS = {"_np.seterr", "np.seterr", "numpy.seterr", "np.seterrcall", "numpy.seterrcall", "np.set_printoptions", "numpy.set_printoptions", "np.random.seed", "numpy.random.seed",
                   "random.seed", "warnings.simplefilter", "warnings.filterwarnings", "sys.setrecursionlimit", "np.setbufsize", "numpy.setbufsize"}


def process_state(chk, prog, files):
    """A library function changes interpreter-wide or NumPy-wide settings (floating-point error handling, warning filters, the global random seed ...).  Unless the
    previous setting is restored in a `finally` clause (or the change is made through a context manager, which is not one of these calls), an exception between the
    change and the restore leaves the whole process in the changed state: every later call of any function then behaves differently from the first."""
    n = 0
    for f in _funcs(prog, files):
        for x in _own_nodes(f.node):
            if isinstance(x, ast.Call) and ast.unparse(x.func) in PROCESS_SETTERS:
                n += 1
                name = ast.unparse(x.func)
                # accepted shape:  old = setter(...); try: ... finally: setter(**old)   -> the restoring call sits in a finalbody
                restored = any(isinstance(t, ast.Try) and any(isinstance(y, ast.Call) and ast.unparse(y.func) == name for b in t.finalbody for y in ast.walk(b))
                               for t in ast.walk(f.node))
                in_final = any(isinstance(t, ast.Try) and any(y is x for b in t.finalbody for y in ast.walk(b)) for t in ast.walk(f.node))
                if restored or in_final:
                    continue
                chk.finding("PROCESS-STATE", f.module.rel, f.qname, "%s" % ast.unparse(x)[:70],
                            "`%s` changes a process-wide setting and no `finally` clause restores it: when anything between the change and the restore raises (a rejected input is "
                            "enough) the setting stays changed for every later call in the process, which then raise or answer differently for the same arguments" % name, line=x.lineno)
    chk.counts["PROCESS-STATE.calls"] = chk.counts.get("PROCESS-STATE.calls", 0) + n
    return n


# -------------------------------------------------------------------------------------------------------------- NAN-LITERAL
def _is_nan_literal(e):
    if isinstance(e, ast.Attribute) and e.attr in ("nan", "NaN", "NAN") and isinstance(e.value, ast.Name):
        return True          # np.nan, numpy.nan, math.nan under whatever alias
    return isinstance(e, ast.Call) and isinstance(e.func, ast.Name) and e.func.id == "float" and len(e.args) == 1 and isinstance(e.args[0], ast.Constant) \
        and str(e.args[0].value).lower() in ("nan", "+nan", "-nan")


def all_nan_array(v):
    """np.array([np.nan]*4), np.array([np.nan, ...]), np.full(n, np.nan), np.full_like(x, np.nan), np.nan*np.ones(n), np.ones(n)*np.nan"""
    if isinstance(v, ast.Call):
        fn = ast.unparse(v.func).split(".")[-1]
        if fn in ("full", "full_like") and len(v.args) >= 2 and _is_nan_literal(v.args[1]):
            return True
        if fn in ("array", "asarray") and v.args:
            a = v.args[0]
            if isinstance(a, ast.BinOp) and isinstance(a.op, ast.Mult) and isinstance(a.left, ast.List) and a.left.elts and all(_is_nan_literal(e) for e in a.left.elts):
                return True
            if isinstance(a, (ast.List, ast.Tuple)) and a.elts and all(_is_nan_literal(e) for e in a.elts):
                return True
    if isinstance(v, ast.BinOp) and isinstance(v.op, ast.Mult):
        for x, y in ((v.left, v.right), (v.right, v.left)):
            if _is_nan_literal(x) and isinstance(y, ast.Call) and ast.unparse(y.func).split(".")[-1] in ("ones", "ones_like"):
                return True
    return False


def nan_echo(f, stmt):
    """the return statement hands back an all-NaN array and sits directly under `if <... isnan(<a parameter>) ...>:` (NaN in, NaN out)"""
    if not isinstance(stmt, ast.Return) or stmt.value is None or not all_nan_array(stmt.value):
        return False
    for n in ast.walk(f.node):
        if isinstance(n, ast.If) and stmt in n.body:
            return any(isinstance(c, ast.Call) and ast.unparse(c.func).split(".")[-1] == "isnan" and
                       any(isinstance(a, ast.Name) and a.id in f.params for a in ast.walk(c)) for c in ast.walk(n.test))
    return False


def nan_literal(chk, prog, files):
    """A NaN constant written into a computation (a fill value, a marker for "missing", a default): NaN is absorbing -- 0*NaN, NaN-NaN, a zero-weighted sum with it
    are all NaN -- so a result that touches the marked entries is NaN, where the properties promise finite, valid outputs (or a refusal).  The one accepted use
    is the echo `if isnan(<input>): return <all-NaN array>`."""
    n = 0
    for f in _funcs(prog, files):
        echoes = {id(x) for s in ast.walk(f.node) if isinstance(s, ast.Return) and nan_echo(f, s) for x in ast.walk(s)}
        for x in _own_nodes(f.node):
            if isinstance(x, (ast.Attribute, ast.Call)) and _is_nan_literal(x):
                n += 1
                if id(x) in echoes:
                    continue
                # comparisons against the constant do not put it into the data
                chk.finding("NAN-LITERAL", f.module.rel, f.qname, "NaN constant in %s" % f.qname,
                            "`%s` is written into the computation: NaN is absorbing (0*NaN is NaN), so every result that touches the marked entries -- including a "
                            "zero-weighted blend -- is NaN instead of a finite value or a refusal" % ast.unparse(x), line=x.lineno)
    chk.counts["NAN-LITERAL.constants"] = chk.counts.get("NAN-LITERAL.constants", 0) + n
    return n


# ------------------------------------------------------------------------------------------------------------- SIGNATURE
def signature(chk, prog, files):
    """the positional parameters of every public callable (names, order, defaults) keep the list frozen from the pinned tree as a prefix
    (sa/signatures.json, written by tools/gen_signatures.py): inserting, removing, reordering or re-defaulting a positional parameter changes what every
    existing positional call means, silently when the new parameter accepts the old argument (a string unit where a boolean flag now sits)"""
    import json
    import os
    path = os.path.join(os.path.dirname(os.path.abspath(__file__)), "signatures.json")
    table = json.load(open(path))
    n = 0
    for f in _funcs(prog, files):
        want = table.get(f.ref)
        if want is None:
            continue
        n += 1
        a = f.node.args
        params = a.posonlyargs + a.args
        defaults = [None] * (len(params) - len(a.defaults)) + list(a.defaults)
        got = [[p.arg, (ast.unparse(d) if d is not None else None)] for p, d in zip(params, defaults)]
        for i, w in enumerate(want):
            g = got[i] if i < len(got) else None
            if g != w:
                what = "parameter %d is now %s (was `%s%s`)" % (i + 1, ("`%s%s`" % (g[0], "=" + g[1] if g[1] is not None else "")) if g else "missing", w[0], "=" + w[1] if w[1] is not None else "")
                chk.finding("SIGNATURE", f.module.rel, f.qname, "positional parameter %d (%s)" % (i + 1, w[0]),
                            "%s: existing positional calls now bind their argument to a different parameter or get a different default" % what, line=f.node.lineno)
                break
    chk.counts["SIGNATURE.callables"] = chk.counts.get("SIGNATURE.callables", 0) + n
    return n


# ----------------------------------------------------------------------------------------------------------------- LATCH
def latch(chk, prog, files):
    """`if self.X is None: self.X = <value computed from this call's arguments>` in a method other than the constructor: the first call latches a value that
    depends on ITS arguments and every later call -- with other arguments -- reuses it.  What a call returns then depends on the calls made before it
    (a lazily built table that depends on configuration only is fine and is not reported)."""
    n = 0
    for f in _funcs(prog, files):
        if f.cls is None or f.name in ("__init__", "__new__", "__array_finalize__"):
            continue
        params = _params(f)
        taint = None
        # locals that hold the remembered attribute: v = getattr(self, '_x', None) / v = self._x
        held = {}
        for s0 in ast.walk(f.node):
            if isinstance(s0, ast.Assign) and len(s0.targets) == 1 and isinstance(s0.targets[0], ast.Name):
                v0 = s0.value
                if isinstance(v0, ast.Call) and isinstance(v0.func, ast.Name) and v0.func.id == "getattr" and len(v0.args) >= 2 and isinstance(v0.args[0], ast.Name) \
                        and v0.args[0].id == "self" and isinstance(v0.args[1], ast.Constant):
                    held[s0.targets[0].id] = v0.args[1].value
                elif isinstance(v0, ast.Attribute) and isinstance(v0.value, ast.Name) and v0.value.id == "self":
                    held[s0.targets[0].id] = v0.attr
        # LATCH.identity: a remembered result declared valid because the data buffer is still the same OBJECT (`cached[0] is self.array`): in-place writers keep
        # the buffer and change its content, so the test cannot see them
        for node in ast.walk(f.node):
            if not (isinstance(node, ast.If) and node.body and isinstance(node.body[-1], ast.Return)):
                continue
            for cmp2 in ast.walk(node.test):
                if not (isinstance(cmp2, ast.Compare) and len(cmp2.ops) == 1 and isinstance(cmp2.ops[0], ast.Is)):
                    continue
                sides = [cmp2.left, cmp2.comparators[0]]
                data = [x for x in sides if isinstance(x, ast.Attribute) and isinstance(x.value, ast.Name) and x.value.id == "self" and x.attr in ("array", "A")]
                other = [x for x in sides if x not in data]
                if not data or not other or isinstance(other[0], ast.Constant):
                    continue
                roots = {y.id for y in ast.walk(other[0]) if isinstance(y, ast.Name)}
                from_state = bool(roots & set(held)) or any(isinstance(y, ast.Attribute) and isinstance(y.value, ast.Name) and y.value.id == "self" for y in ast.walk(other[0]))
                if from_state:
                    n += 1
                    chk.finding("LATCH.identity", f.module.rel, f.qname, "validity test %s" % ast.unparse(cmp2),
                                "the remembered result is reused while `%s` holds, i.e. while the data buffer is the same object; in-place methods and item assignment change "
                                "the buffer's content without replacing it, so after them the method returns the result for the old content" % ast.unparse(cmp2), line=cmp2.lineno)
        for node in ast.walk(f.node):
            if not isinstance(node, ast.If):
                continue
            t = node.test
            attr = None
            if isinstance(t, ast.Compare) and len(t.ops) == 1 and isinstance(t.ops[0], ast.Is) and isinstance(t.comparators[0], ast.Constant) and t.comparators[0].value is None:
                l = t.left
                if isinstance(l, ast.Name) and l.id in held:
                    attr = held[l.id]
                if isinstance(l, ast.Attribute) and isinstance(l.value, ast.Name) and l.value.id == "self":
                    attr = l.attr
                elif isinstance(l, ast.Call) and isinstance(l.func, ast.Name) and l.func.id == "getattr" and len(l.args) >= 2 and isinstance(l.args[1], ast.Constant):
                    attr = l.args[1].value
            elif isinstance(t, ast.UnaryOp) and isinstance(t.op, ast.Not) and isinstance(t.operand, ast.Call) and ast.unparse(t.operand.func) == "hasattr" \
                    and len(t.operand.args) == 2 and isinstance(t.operand.args[1], ast.Constant):
                attr = t.operand.args[1].value
            if attr is None:
                continue
            for s in ast.walk(node):
                if isinstance(s, ast.Assign) and any(isinstance(tg, ast.Attribute) and isinstance(tg.value, ast.Name) and tg.value.id == "self" and tg.attr == attr for tg in s.targets):
                    n += 1
                    if taint is None:
                        taint = _tainted_by_params(f.node, params)
                    dep = sorted({p for p in params for x in ast.walk(s.value)
                                  if (isinstance(x, ast.Name) and x.id in _tainted_by_params(f.node, [p]))})
                    # LATCH.data: the latched value is computed from the object's own DATA (the array an ndarray subclass wraps), which in-place methods and item
                    # assignment change without resetting the latch
                    vals = [s.value]
                    if isinstance(s.value, ast.Name):
                        vals += [a_.value for a_ in ast.walk(node) if isinstance(a_, ast.Assign) and any(isinstance(tg, ast.Name) and tg.id == s.value.id for tg in a_.targets)]
                    data = sorted({"self." + x.attr for v_ in vals for x in ast.walk(v_) if isinstance(x, ast.Attribute) and isinstance(x.value, ast.Name) and x.value.id == "self"
                                   and x.attr in ("array", "A") and isinstance(x.ctx, ast.Load)})
                    resets = [g_ for g_ in f.cls.methods.values() if g_ is not f and g_.name not in ("__init__", "__new__", "__array_finalize__") and any(
                        isinstance(x, ast.Attribute) and isinstance(x.ctx, (ast.Store, ast.Del)) and x.attr == attr for x in ast.walk(g_.node))]
                    if data and not resets:
                        dep = []
                        chk.finding("LATCH.data", f.module.rel, f.qname, "self.%s latched from %s" % (attr, ", ".join(data)),
                                    "`self.%s` is computed from the object's data (%s) only while it is still unset and reused ever after, and no other method resets it: once the data "
                                    "change (an in-place method, item assignment) later calls work from the stale value" % (attr, ", ".join(data)), line=s.lineno)
                    if dep:
                        chk.finding("LATCH", f.module.rel, f.qname, "self.%s latched on first use" % attr,
                                    "`self.%s` is computed from this call's arguments (%s) only while it is still None and reused ever after: later calls with other arguments "
                                    "get the value of the first call, so a result depends on the call history" % (attr, ", ".join(dep)), line=s.lineno)
    chk.counts["LATCH.sites"] = chk.counts.get("LATCH.sites", 0) + n
    return n


# ------------------------------------------------------------------------------------------------ second module of lints (sa/lints2.py), same registries
from . import lints2 as _lints2      # noqa: E402  (imported last: it uses the helpers defined above)
for _name, _fn in _lints2.LINTS.items():
    ALL[_name] = (lambda fn_: (lambda chk, prog, files: fn_(chk, prog, files)))(_fn)
OWNERS.update(_lints2.OWNERS)
FIXTURE = FIXTURE + _lints2.FIXTURE
