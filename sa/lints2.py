"""More shape lints (round 6 of the independent seeding: ordinary maintenance accidents).  Same conventions as sa/lints.py: every lint is a rule about a shape
of code that is wrong for a stated, reachable class of inputs; each has a positive example in lints.FIXTURE that must fire on every run; each returns the number
of constructs it examined.

 ALL-AS-NONNULL   np.all(x) / x.all() / all(x) on a data vector used as a truth value ("sample is not null"): false as soon as ONE component is exactly 0;
 SHAPE-AMBIGUOUS  input transposed when `x.shape[0] == 3` (to accept 3-by-N as well as N-by-3): a regular batch of exactly three samples is 3-by-3;
 NORM-AXIS        np.linalg.norm(x, axis=0) of an array whose LAST axis is the sample axis: the norms of the columns, not of the samples;
 NULL-TOL         `isclose(norm(sample), 0)` / `allclose(sample, 0)` as the null-sample test: an absolute tolerance on a dimensional quantity;
 ZERO-PATCH       zero norms replaced by 1 before dividing (`n[n == 0] = 1`): the zero vector is passed through instead of refused; values snapped to exactly 0 by
                  a tolerance mask and then fed to np.sign;
 NAN-SWALLOW      `if isnan(x) / not isfinite(x): return <an ordinary value>`: a non-finite input is answered with a valid-looking result;
 SWALLOW-ROW      try/except around the per-row store of a batch loop whose handler just continues: the row keeps its preallocated value;
 PARAM-CLAMP      a caller's argument silently replaced by its clamp to a constant range (min(max(x, A), B), np.clip(x, A, B)) before it is used / stored;
 VALIDATOR-WRITES a validator (`_assert*`, `_guard*`, `_validate*`, `_check*`) overwrites an attribute with a constant under a condition on the data;
 NONE-MISMATCH    `default if a is None else f(b)`: the presence test is made on one argument and the value is taken from another;
 INIT-DERIVED     a private attribute derived once in __init__ from a public, caller-settable attribute and read by the methods instead of it;
 DTYPE-FROM-ARG   an output buffer typed with `dtype=<argument>.dtype` and filled with computed values.
"""
from __future__ import annotations

import ast

from .model import stmt_text
from .lints import _funcs, _params, _own_nodes


def _last(call):
    return ast.unparse(call.func).split(".")[-1] if isinstance(call, ast.Call) else None


def _is_boolish(e):
    """expressions whose elements are truth values already"""
    if isinstance(e, (ast.Compare, ast.BoolOp)):
        return True
    if isinstance(e, ast.UnaryOp) and isinstance(e.op, (ast.Not, ast.Invert)):
        return True
    if isinstance(e, (ast.GeneratorExp, ast.ListComp)):
        return True
    if isinstance(e, ast.Call):
        return True          # isclose(...), isnan(...), self.is_versor(): calls are taken to return flags
    if isinstance(e, ast.BinOp) and isinstance(e.op, (ast.BitAnd, ast.BitOr)):
        return True
    return False


FLAG_CALLS = ("isclose", "isnan", "isfinite", "isinf", "isreal", "logical_and", "logical_or", "logical_not", "logical_xor", "greater", "less", "equal", "not_equal",
              "greater_equal", "less_equal", "any", "all", "is_versor", "is_pure", "is_real", "is_identity", "isin", "astype", "isinstance", "issubclass", "callable",
              "hasattr", "startswith", "endswith", "issubdtype", "isscalar", "iscomplexobj", "isrealobj", "array_equal", "allclose")


def _flag_valued(e):
    """an expression that yields truth flags: a comparison, a boolean combination, one of NumPy's predicate functions, or a list / array / comprehension of such"""
    if isinstance(e, (ast.Compare, ast.BoolOp)):
        return True
    if isinstance(e, (ast.List, ast.Tuple)) and e.elts:
        return all(_flag_valued(x) for x in e.elts)
    if isinstance(e, (ast.ListComp, ast.GeneratorExp)):
        return _flag_valued(e.elt)
    if isinstance(e, ast.Call) and _last(e) in ("array", "asarray", "list", "tuple", "fromiter") and e.args:
        return _flag_valued(e.args[0])
    if isinstance(e, ast.UnaryOp) and isinstance(e.op, (ast.Not, ast.Invert)):
        return True
    if isinstance(e, ast.BinOp) and isinstance(e.op, (ast.BitAnd, ast.BitOr, ast.BitXor)):
        return True
    if isinstance(e, ast.Call):
        nm = _last(e)
        return nm in FLAG_CALLS and not (nm == "astype" and "bool" not in ast.unparse(e))
    return False


def _test_positions(fnode):
    """expressions evaluated for their truth value"""
    for n in _own_nodes(fnode):
        if isinstance(n, (ast.If, ast.While, ast.IfExp)):
            yield n.test
        elif isinstance(n, ast.Assert):
            yield n.test


def _truth_leaves(e):
    if isinstance(e, ast.BoolOp):
        for v in e.values:
            yield from _truth_leaves(v)
    elif isinstance(e, ast.UnaryOp) and isinstance(e.op, ast.Not):
        yield from _truth_leaves(e.operand)
    else:
        yield e


# ------------------------------------------------------------------------------------------------------------ ALL-AS-NONNULL
def all_as_nonnull(chk, prog, files):
    n = 0
    for f in _funcs(prog, files):
        for t in _test_positions(f.node):
            for leaf in _truth_leaves(t):
                arg = None
                if isinstance(leaf, ast.Call):
                    nm = ast.unparse(leaf.func)
                    if nm in ("np.all", "numpy.all", "all") and len(leaf.args) == 1 and not leaf.keywords:
                        arg = leaf.args[0]
                    elif isinstance(leaf.func, ast.Attribute) and leaf.func.attr == "all" and not leaf.args and not leaf.keywords:
                        arg = leaf.func.value
                if arg is None:
                    continue
                n += 1
                base_ = arg
                while isinstance(base_, ast.Subscript):
                    base_ = base_.value
                if isinstance(base_, ast.Name):
                    # a local that holds flags already (valid = norms > 0; ok = np.isfinite(x)) is a legitimate argument of all()
                    defs_ = [x.value for x in _own_nodes(f.node) if isinstance(x, ast.Assign) and any(isinstance(t_, ast.Name) and t_.id == base_.id for t_ in x.targets)]
                    defs_ += [x.value for x in _own_nodes(f.node) if isinstance(x, ast.AugAssign) and isinstance(x.target, ast.Name) and x.target.id == base_.id]
                    if any(_flag_valued(d_) for d_ in defs_):
                        continue
                if not _is_boolish(arg) and isinstance(arg, (ast.Name, ast.Attribute, ast.Subscript)):
                    chk.finding("ALL-AS-NONNULL", f.module.rel, f.qname, "%s used as a truth value" % ast.unparse(leaf)[:60],
                                "`%s` is true only when EVERY component of `%s` is non-zero: a valid sample with one exactly-zero component (a level device, a rate about one axis) "
                                "is treated as null -- the null test is `np.any(...)` / a norm" % (ast.unparse(leaf)[:40], ast.unparse(arg)[:30]), line=leaf.lineno)
        # row-wise form, wherever it is used:  np.all(acc, axis=1)  on a data array is "every component of the row is non-zero"
        params = set(_params(f))
        for c in _own_nodes(f.node):
            if isinstance(c, ast.Call) and ast.unparse(c.func) in ("np.all", "numpy.all") and len(c.args) >= 1 and any(k.arg == "axis" for k in c.keywords):
                a0 = c.args[0]
                n += 1
                base_ = a0
                while isinstance(base_, ast.Subscript):
                    base_ = base_.value
                is_data = (isinstance(base_, ast.Name) and base_.id in params) or (isinstance(base_, ast.Attribute) and isinstance(base_.value, ast.Name) and base_.value.id == "self")
                if isinstance(base_, ast.Name) and base_.id not in params:
                    defs_ = [x.value for x in _own_nodes(f.node) if isinstance(x, ast.Assign) and any(isinstance(t_, ast.Name) and t_.id == base_.id for t_ in x.targets)]
                    def _stored(d_):
                        if isinstance(d_, ast.Call) and _last(d_) in ("atleast_2d", "atleast_1d", "copy", "array", "asarray", "ascontiguousarray") and len(d_.args) >= 1:
                            d_ = d_.args[0]
                        return isinstance(d_, ast.Attribute) and isinstance(d_.value, ast.Name) and d_.value.id == "self"
                    if defs_ and all(_stored(d_) for d_ in defs_):
                        is_data = True       # a local alias / copy of a stored sample array:  acc = self.acc, acc = np.atleast_2d(self.acc)
                if is_data and not _flag_valued(a0):
                    chk.finding("ALL-AS-NONNULL", f.module.rel, f.qname, "%s as a per-row validity flag" % ast.unparse(c)[:60],
                                "`%s` is true for a row only when EVERY component of it is non-zero: a valid sample with one exactly-zero component (a level device, an "
                                "axis-aligned field) is flagged as missing -- the per-row null test is a norm or `np.any(..., axis=1)`" % ast.unparse(c)[:50], line=c.lineno)
    chk.counts["ALL-AS-NONNULL.tests"] = chk.counts.get("ALL-AS-NONNULL.tests", 0) + n
    return n


# ----------------------------------------------------------------------------------------------------------- SHAPE-AMBIGUOUS
def shape_ambiguous(chk, prog, files):
    n = 0
    for f in _funcs(prog, files):
        for s in _own_nodes(f.node):
            if not isinstance(s, ast.If):
                continue
            names = []
            for c in ast.walk(s.test):
                if isinstance(c, ast.Compare) and len(c.ops) == 1 and isinstance(c.ops[0], ast.Eq) and isinstance(c.comparators[0], ast.Constant) and c.comparators[0].value == 3:
                    l = c.left
                    if isinstance(l, ast.Subscript) and isinstance(l.value, ast.Attribute) and l.value.attr == "shape" and isinstance(l.slice, ast.Constant) and l.slice.value == 0:
                        names.append(ast.unparse(l.value.value))
                    elif isinstance(l, ast.Call) and ast.unparse(l.func) == "len" and l.args:
                        names.append(ast.unparse(l.args[0]))
            if not names:
                continue
            n += 1
            # the other axis is ruled out in the same test: shape[1] != 3 / shape[-1] != 3
            guarded = any(isinstance(c, ast.Compare) and isinstance(c.ops[0], ast.NotEq) and ".shape[" in ast.unparse(c.left) and ast.unparse(c.left).endswith(("[1]", "[-1]"))
                          for c in ast.walk(s.test))
            if guarded:
                continue
            for nm in names:
                transposed = any((isinstance(x, ast.Attribute) and x.attr == "T" and ast.unparse(x.value) == nm) or
                                 (isinstance(x, ast.Call) and _last(x) in ("transpose", "swapaxes") and nm in ast.unparse(x)) for b in s.body for x in ast.walk(b))
                if transposed:
                    chk.finding("SHAPE-AMBIGUOUS", f.module.rel, f.qname, "%s transposed when its first axis has length 3" % nm,
                                "`%s` is transposed whenever `%s.shape[0] == 3`, to accept column-wise input as well; a regular row-wise batch of exactly three samples is 3-by-3 and is "
                                "transposed too: every element is attributed to the wrong sample" % (nm, nm), line=s.lineno)
                    break
    chk.counts["SHAPE-AMBIGUOUS.tests"] = chk.counts.get("SHAPE-AMBIGUOUS.tests", 0) + n
    return n


# ----------------------------------------------------------------------------------------------------------------- NORM-AXIS
def norm_axis(chk, prog, files):
    n = 0
    for f in _funcs(prog, files):
        txt = ast.unparse(f.node)
        params = set(_params(f))
        rowwise = ".shape[-1]" in txt or ".shape[1]" in txt or "ndim" in txt
        for c in _own_nodes(f.node):
            if isinstance(c, ast.Call) and _last(c) == "norm" and c.args:
                ax = next((k.value for k in c.keywords if k.arg == "axis"), c.args[2] if len(c.args) > 2 else None)
                if ax is None:
                    continue
                n += 1
                arg0 = c.args[0]
                is_input = False
                if isinstance(arg0, ast.Name):
                    stands_for = set()
                    if arg0.id in params:
                        stands_for.add(arg0.id)
                    else:        # for name, item in zip([...], [acc, mag]): the loop variable stands for the parameters
                        for lp in _own_nodes(f.node):
                            if isinstance(lp, ast.For) and any(isinstance(x, ast.Name) and x.id == arg0.id for x in ast.walk(lp.target)):
                                stands_for |= {x.id for x in ast.walk(lp.iter) if isinstance(x, ast.Name) and x.id in params}
                    names_ = stands_for | ({arg0.id} if stands_for else set())
                    is_input = any(isinstance(x, ast.Subscript) and isinstance(x.value, ast.Attribute) and x.value.attr == "shape" and ast.unparse(x.value.value) in names_
                                   and ast.unparse(x.slice) in ("-1", "1") for x in _own_nodes(f.node))
                if isinstance(ax, ast.Constant) and ax.value == 0 and rowwise and is_input:
                    chk.finding("NORM-AXIS", f.module.rel, f.qname, "%s" % ast.unparse(c)[:60],
                                "`%s` takes the norm along axis 0: for an N-by-3 array of row samples that is the norm of each COLUMN (all x components, all y ...), not of each "
                                "sample -- a recording whose x component is zero throughout has a zero column although no sample is null; the sample norm is axis=-1"
                                % ast.unparse(c)[:50], line=c.lineno)
    chk.counts["NORM-AXIS.norms"] = chk.counts.get("NORM-AXIS.norms", 0) + n
    return n


# ------------------------------------------------------------------------------------------------------------------ NULL-TOL
def null_tol(chk, prog, files):
    n = 0
    for f in _funcs(prog, files):
        params = set(_params(f))
        for t in _test_positions(f.node):
            for leaf in _truth_leaves(t):
                if not (isinstance(leaf, ast.Call) and _last(leaf) in ("isclose", "allclose") and len(leaf.args) >= 2):
                    continue
                a, b = leaf.args[0], leaf.args[1]
                if not (isinstance(b, ast.Constant) and b.value in (0, 0.0)):
                    continue
                n += 1
                inner = a.args[0] if (isinstance(a, ast.Call) and _last(a) == "norm" and a.args) else a
                if isinstance(inner, ast.Name) and inner.id in params and (isinstance(a, ast.Call) or _last(leaf) == "allclose") \
                        and not any(k.arg in ("atol", "rtol") for k in leaf.keywords):
                    chk.finding("NULL-TOL", f.module.rel, f.qname, "%s as the null-sample test" % ast.unparse(leaf)[:60],
                                "the raw sample `%s` is declared null when its magnitude is within NumPy's default absolute tolerance (1e-8) of zero: small but genuine readings "
                                "(another unit, a slow rate) are dropped, where the exact test `== 0` only drops a missing sample" % inner.id, line=leaf.lineno)
    chk.counts["NULL-TOL.tests"] = chk.counts.get("NULL-TOL.tests", 0) + n
    return n


# ---------------------------------------------------------------------------------------------------------------- ZERO-PATCH
def zero_patch(chk, prog, files):
    n = 0
    for f in _funcs(prog, files):
        snapped = {}
        for s in _own_nodes(f.node):
            if isinstance(s, ast.Assign) and len(s.targets) == 1 and isinstance(s.targets[0], ast.Subscript) and isinstance(s.targets[0].value, ast.Name) \
                    and isinstance(s.value, ast.Constant) and isinstance(s.value.value, (int, float)) and not isinstance(s.value.value, bool):
                base = s.targets[0].value.id
                mask = s.targets[0].slice
                # X[X == 0] = 1   (a norm patched before a division)
                if isinstance(mask, ast.Compare) and len(mask.ops) == 1 and isinstance(mask.ops[0], ast.Eq) and ast.unparse(mask.left) == base \
                        and isinstance(mask.comparators[0], ast.Constant) and mask.comparators[0].value in (0, 0.0) and s.value.value not in (0, 0.0):
                    n += 1
                    defs = [x.value for x in _own_nodes(f.node) if isinstance(x, ast.Assign) and any(isinstance(t, ast.Name) and t.id == base for t in x.targets)]
                    if any(isinstance(d, ast.Call) and _last(d) == "norm" for d in defs):
                        chk.finding("ZERO-PATCH", f.module.rel, f.qname, "%s" % stmt_text(s)[:60],
                                    "zero norms in `%s` are replaced by %s before the division: a zero vector is no longer an error or a NaN, it passes through unchanged and is "
                                    "returned / wrapped as if it were valid" % (base, s.value.value), line=s.lineno)
                # X[isclose(X, 0)] = 0   (snapping) ... np.sign(X)
                if s.value.value in (0, 0.0) and any(isinstance(c, ast.Call) and _last(c) in ("isclose", "abs", "absolute", "fabs") for c in ast.walk(mask)):
                    n += 1
                    snapped[base] = s
        for c in _own_nodes(f.node):
            if isinstance(c, ast.Call) and _last(c) == "sign" and c.args:
                b = c.args[0]
                while isinstance(b, ast.Subscript):
                    b = b.value
                if isinstance(b, ast.Name) and b.id in snapped and c.lineno > snapped[b.id].lineno:
                    s = snapped[b.id]
                    chk.finding("ZERO-PATCH", f.module.rel, f.qname, "%s ... %s" % (stmt_text(s)[:40], ast.unparse(c)[:30]),
                                "entries of `%s` within a tolerance of zero are set to exactly 0 and then passed to np.sign, which is 0 there: the factor it multiplies is wiped out "
                                "for every input inside the tolerance band (a band of genuine rotations, not only the degenerate point)" % b.id, line=c.lineno)
                    break
    chk.counts["ZERO-PATCH.patches"] = chk.counts.get("ZERO-PATCH.patches", 0) + n
    return n


# --------------------------------------------------------------------------------------------------------------- NAN-SWALLOW
def nan_swallow(chk, prog, files):
    from .lints import all_nan_array, _is_nan_literal
    n = 0
    for f in _funcs(prog, files):
        params = set(_params(f))
        for s in _own_nodes(f.node):
            if not isinstance(s, ast.If):
                continue
            # positive leaves: isnan(p) / not isfinite(p) (possibly .any()) in a disjunction
            hit = None

            def scan(e, neg=False):
                nonlocal hit
                if isinstance(e, ast.BoolOp) and isinstance(e.op, ast.Or) and not neg:
                    for v in e.values:
                        scan(v, neg)
                elif isinstance(e, ast.UnaryOp) and isinstance(e.op, ast.Not):
                    scan(e.operand, not neg)
                else:
                    for c in ast.walk(e):
                        if isinstance(c, ast.Call) and _last(c) in ("isnan", "isfinite", "isinf") and c.args \
                                and any(isinstance(x, ast.Name) and x.id in params for x in ast.walk(c.args[0])):
                            if (_last(c) in ("isnan", "isinf")) != neg:
                                hit = c
            scan(s.test)
            if hit is None:
                continue
            n += 1
            for b in s.body:
                if isinstance(b, ast.Return) and b.value is not None and not all_nan_array(b.value) and not _is_nan_literal(b.value) \
                        and not (isinstance(b.value, ast.Constant) and b.value.value is None):
                    chk.finding("NAN-SWALLOW", f.module.rel, f.qname, "non-finite `%s` answered with %s" % (ast.unparse(hit.args[0])[:20], ast.unparse(b.value)[:30]),
                                "when `%s` is NaN / infinite the function returns `%s`, an ordinary-looking value: the invalid input no longer reaches the validation that "
                                "rejects it (nor propagates as NaN), it is silently turned into a valid result" % (ast.unparse(hit.args[0])[:20], ast.unparse(b.value)[:40]), line=b.lineno)
                    break
    chk.counts["NAN-SWALLOW.tests"] = chk.counts.get("NAN-SWALLOW.tests", 0) + n
    return n


# --------------------------------------------------------------------------------------------------------------- SWALLOW-ROW
def swallow_row(chk, prog, files):
    n = 0
    for f in _funcs(prog, files):
        for loop in _own_nodes(f.node):
            if not isinstance(loop, (ast.For, ast.While)):
                continue
            for t in ast.walk(loop):
                if not isinstance(t, ast.Try):
                    continue
                stores = [x for b in t.body for x in ast.walk(b) if isinstance(x, ast.Assign) and any(isinstance(tt, ast.Subscript) for tt in x.targets)]
                if not stores:
                    continue
                n += 1
                for h in t.handlers:
                    if h.body and all(isinstance(x, (ast.Continue, ast.Pass)) or (isinstance(x, ast.Expr) and isinstance(x.value, ast.Constant)) for x in h.body):
                        chk.finding("SWALLOW-ROW", f.module.rel, f.qname, "except %s: %s around %s" % (ast.unparse(h.type) if h.type else "", stmt_text(h.body[0]), stmt_text(stores[0])[:50]),
                                    "the exception raised for a rejected sample is swallowed and the loop goes on: row `%s` keeps its preallocated value (zeros: not a unit "
                                    "quaternion) and, in a recursive filter, is the a-priori state of the next step" % ast.unparse(stores[0].targets[0])[:30], line=h.lineno)
                        break
    chk.counts["SWALLOW-ROW.tries"] = chk.counts.get("SWALLOW-ROW.tries", 0) + n
    return n


# --------------------------------------------------------------------------------------------------------------- PARAM-CLAMP
def param_clamp(chk, prog, files):
    n = 0

    def const_like(e):
        return isinstance(e, ast.Constant) or (isinstance(e, ast.Name) and e.id.isupper()) or (isinstance(e, ast.UnaryOp) and isinstance(e.operand, ast.Constant))

    def clamp_of(e, params):
        """name of the parameter e is the two-sided clamp of, or None"""
        if isinstance(e, ast.Call) and _last(e) == "clip" and len(e.args) == 3 and isinstance(e.args[0], ast.Name) and e.args[0].id in params \
                and const_like(e.args[1]) and const_like(e.args[2]):
            return e.args[0].id
        if isinstance(e, ast.Call) and ast.unparse(e.func) in ("min", "max", "np.minimum", "np.maximum") and len(e.args) == 2:
            for a, b in ((e.args[0], e.args[1]), (e.args[1], e.args[0])):
                if const_like(b) and isinstance(a, ast.Call) and ast.unparse(a.func) in ("min", "max", "np.minimum", "np.maximum") and len(a.args) == 2:
                    for c, d in ((a.args[0], a.args[1]), (a.args[1], a.args[0])):
                        if const_like(d) and isinstance(c, ast.Name) and c.id in params:
                            return c.id
        return None
    for f in _funcs(prog, files):
        if f.name.startswith("_"):
            continue
        params = set(_params(f))
        for s in _own_nodes(f.node):
            if isinstance(s, (ast.Assign, ast.AnnAssign)) and getattr(s, "value", None) is not None:
                p = clamp_of(s.value, params)
                if p is None:
                    continue
                n += 1
                tg = s.targets[0] if isinstance(s, ast.Assign) else s.target
                same = (isinstance(tg, ast.Name) and tg.id == p) or (isinstance(tg, ast.Attribute) and tg.attr == p)
                if same:
                    chk.finding("PARAM-CLAMP", f.module.rel, f.qname, "%s" % stmt_text(s)[:70],
                                "the caller's `%s` is replaced by its clamp to a fixed range before it is used: a value outside the range is silently evaluated as another input "
                                "instead of being computed (or refused)" % p, line=s.lineno)
    chk.counts["PARAM-CLAMP.clamps"] = chk.counts.get("PARAM-CLAMP.clamps", 0) + n
    return n


# ---------------------------------------------------------------------------------------------------------- VALIDATOR-WRITES
VALIDATOR_PREFIXES = ("_assert", "_guard", "_validate", "_check")


def validator_writes(chk, prog, files):
    n = 0
    for f in _funcs(prog, files):
        if not f.name.startswith(VALIDATOR_PREFIXES) or f.cls is None:
            continue
        n += 1
        selfn = f.params[0] if f.params else "self"
        for s in _own_nodes(f.node):
            if not isinstance(s, ast.If):
                continue
            cond_attrs = {x.attr for x in ast.walk(s.test) if isinstance(x, ast.Attribute) and isinstance(x.value, ast.Name) and x.value.id == selfn}
            for b in s.body + s.orelse:
                for x in ast.walk(b):
                    if isinstance(x, ast.Assign) and len(x.targets) == 1 and isinstance(x.targets[0], ast.Attribute) and isinstance(x.targets[0].value, ast.Name) \
                            and x.targets[0].value.id == selfn and isinstance(x.value, ast.Constant) and isinstance(x.value.value, (int, float)) and not isinstance(x.value.value, bool) \
                            and cond_attrs and x.targets[0].attr not in cond_attrs:
                        chk.finding("VALIDATOR-WRITES", f.module.rel, f.qname, "%s under `%s`" % (stmt_text(x)[:40], ast.unparse(s.test)[:40]),
                                    "the validator overwrites `self.%s` with the constant %r when `%s`: the request the object answers is no longer the one the caller made "
                                    "(only on this route: the same request made through the method keeps its value)" % (x.targets[0].attr, x.value.value, ast.unparse(s.test)[:40]), line=x.lineno)
    chk.counts["VALIDATOR-WRITES.validators"] = chk.counts.get("VALIDATOR-WRITES.validators", 0) + n
    return n


# ------------------------------------------------------------------------------------------------------------- NONE-MISMATCH
def none_mismatch(chk, prog, files):
    n = 0
    for f in _funcs(prog, files):
        defs = {}
        for s in _own_nodes(f.node):
            if isinstance(s, ast.Assign) and len(s.targets) == 1 and isinstance(s.targets[0], ast.Name) and isinstance(s.value, ast.Call):
                defs[s.targets[0].id] = ast.unparse(s.value.func)
        for e in _own_nodes(f.node):
            if not isinstance(e, ast.IfExp):
                continue
            t = e.test
            if not (isinstance(t, ast.Compare) and len(t.ops) == 1 and isinstance(t.ops[0], (ast.Is, ast.IsNot)) and isinstance(t.left, ast.Name)
                    and isinstance(t.comparators[0], ast.Constant) and t.comparators[0].value is None):
                continue
            n += 1
            a = t.left.id
            used = {x.id for arm in (e.body, e.orelse) for x in ast.walk(arm) if isinstance(x, ast.Name)}
            if a in used:
                continue
            others = [b for b in used if b != a and b in defs and a in defs and defs[b] == defs[a]]
            if others:
                chk.finding("NONE-MISMATCH", f.module.rel, f.qname, "%s" % ast.unparse(e)[:80],
                            "the presence test is made on `%s` but the value is taken from `%s` (both read the same way, `%s(...)`): giving `%s` alone is ignored, and giving `%s` "
                            "alone makes `%s` be used while it is None" % (a, others[0], defs[a], others[0], a, others[0]), line=e.lineno)
    chk.counts["NONE-MISMATCH.tests"] = chk.counts.get("NONE-MISMATCH.tests", 0) + n
    return n


# ------------------------------------------------------------------------------------------------------------ DTYPE-FROM-ARG
def dtype_from_arg(chk, prog, files):
    n = 0
    for f in _funcs(prog, files):
        params = set(_params(f))
        for c in _own_nodes(f.node):
            if isinstance(c, ast.Call) and _last(c) in ("zeros", "empty", "ones", "full", "fromiter", "array", "asarray", "zeros_like", "empty_like"):
                for k in c.keywords:
                    if k.arg == "dtype" and isinstance(k.value, ast.Attribute) and k.value.attr == "dtype":
                        n += 1
                        src = k.value.value
                        while isinstance(src, (ast.Subscript, ast.Attribute)):
                            src = src.value
                        raw = isinstance(src, ast.Name) and src.id in params
                        if raw and _last(c) != "asarray":
                            chk.finding("DTYPE-FROM-ARG", f.module.rel, f.qname, "%s" % ast.unparse(c)[:70],
                                        "the result buffer takes `%s`, the dtype of the caller's array: with integer-typed input every computed (real) value stored in it is "
                                        "truncated to an integer" % ast.unparse(k.value), line=c.lineno)
    chk.counts["DTYPE-FROM-ARG.allocs"] = chk.counts.get("DTYPE-FROM-ARG.allocs", 0) + n
    return n


# -------------------------------------------------------------------------------------------------------------- INIT-DERIVED
def init_derived(chk, prog, files):
    """__init__ stores `self._p = g(self.q)` for a PUBLIC, caller-settable attribute q, and the other methods read self._p instead of q without ever
    re-deriving it: assigning q on a live object (a documented way of changing the frame, the date ...) has no effect on the answers any more, which then depend
    on how the object was built rather than on its current (date, place, frame)."""
    n = 0
    for rel in sorted(files):
        m = prog.modules.get(rel)
        if m is None:
            continue
        for c in m.classes.values():
            init = c.methods.get("__init__")
            if init is None:
                continue
            selfn = init.params[0] if init.params else "self"
            public_set = {x.attr for x in ast.walk(init.node) if isinstance(x, ast.Attribute) and isinstance(x.ctx, ast.Store) and isinstance(x.value, ast.Name)
                          and x.value.id == selfn and not x.attr.startswith("_")}
            for s in _own_nodes(init.node):
                tg = s.targets[0] if isinstance(s, ast.Assign) and len(s.targets) == 1 else (s.target if isinstance(s, ast.AnnAssign) else None)
                val = getattr(s, "value", None)
                if not (isinstance(tg, ast.Attribute) and isinstance(tg.value, ast.Name) and tg.value.id == selfn and tg.attr.startswith("_") and val is not None):
                    continue
                srcs = sorted({x.attr for x in ast.walk(val) if isinstance(x, ast.Attribute) and isinstance(x.value, ast.Name) and x.value.id == selfn and x.attr in public_set})
                if not srcs:
                    continue
                n += 1
                writers = [g for g in c.methods.values() if g is not init and any(isinstance(x, ast.Attribute) and x.attr == tg.attr and isinstance(x.ctx, ast.Store) for x in ast.walk(g.node))]
                readers = [g for g in c.methods.values() if g is not init and any(isinstance(x, ast.Attribute) and x.attr == tg.attr and isinstance(x.ctx, ast.Load) for x in ast.walk(g.node))]
                if readers and not writers:
                    chk.finding("INIT-DERIVED", rel, init.qname, "%s" % stmt_text(s)[:70],
                                "`self.%s` is derived once, in __init__, from the public attribute%s %s, and %s read(s) it instead: assigning `%s` on a live object no longer "
                                "changes the answers, which then depend on how the object was built" % (tg.attr, "s" if len(srcs) > 1 else "", ", ".join("self." + a for a in srcs),
                                                                                                      ", ".join(g.qname for g in readers[:2]), srcs[0]), line=s.lineno)
    chk.counts["INIT-DERIVED.derived"] = chk.counts.get("INIT-DERIVED.derived", 0) + n
    return n


# --------------------------------------------------------------------------------------------------------------- INDEX-SPACE
_POS_FUNCS = ("nonzero", "flatnonzero", "argwhere", "argmax", "argmin", "argsort", "where")
_MASK_HINTS = ("isnan", "isfinite", "isinf", "any", "all")


def index_space(chk, prog, files):
    """Positions found in a mask-compressed copy (`c = X[mask]; idx = np.nonzero(f(c))[0]`) index the rows that survived the mask; used to index X itself
    they point at other rows as soon as the mask drops something in front of them."""
    n = 0
    for f in _funcs(prog, files):
        defs = {}
        for s_ in _own_nodes(f.node):
            if isinstance(s_, ast.Assign) and len(s_.targets) == 1 and isinstance(s_.targets[0], ast.Name):
                defs.setdefault(s_.targets[0].id, []).append(s_.value)

        def boolish(e, depth=0):
            if isinstance(e, ast.UnaryOp) and isinstance(e.op, ast.Invert):
                return True
            if isinstance(e, ast.Compare):
                return True
            if isinstance(e, ast.Call) and _last(e) in _MASK_HINTS:
                return True
            if isinstance(e, ast.Name) and depth < 2:
                return any(boolish(d, depth + 1) for d in defs.get(e.id, []))
            return False
        comp = {}
        for nm, vs in defs.items():
            for v in vs:
                if isinstance(v, ast.Subscript) and isinstance(v.value, (ast.Name, ast.Attribute)) and not isinstance(v.slice, (ast.Slice, ast.Tuple, ast.Constant)) and boolish(v.slice):
                    comp[nm] = ast.unparse(v.value)
        if not comp:
            continue
        n += len(comp)
        for c, base in comp.items():
            # names derived from c
            derived = {c}
            pos = set()
            changed = True
            while changed:
                changed = False
                for nm, vs in defs.items():
                    for v in vs:
                        names = {x.id for x in ast.walk(v) if isinstance(x, ast.Name)}
                        if nm not in derived and names & derived and nm not in pos:
                            is_pos = any(isinstance(x, ast.Call) and _last(x) in _POS_FUNCS and (_last(x) != "where" or len(x.args) == 1) and
                                         any(isinstance(y, ast.Name) and y.id in derived for a in x.args for y in ast.walk(a)) for x in ast.walk(v))
                            (pos if is_pos else derived).add(nm)
                            changed = True
                        if nm not in pos and names & pos:
                            pos.add(nm)
                            derived.discard(nm)
                            changed = True
                for s_ in _own_nodes(f.node):
                    if isinstance(s_, ast.For) and isinstance(s_.target, ast.Name) and s_.target.id not in pos and any(isinstance(x, ast.Name) and x.id in pos for x in ast.walk(s_.iter)):
                        pos.add(s_.target.id)
                        changed = True
            if not pos:
                continue
            for x in _own_nodes(f.node):
                if isinstance(x, ast.Subscript) and ast.unparse(x.value) == base and any(isinstance(y, ast.Name) and y.id in pos for y in ast.walk(x.slice)):
                    chk.finding("INDEX-SPACE", f.module.rel, f.qname, "%s indexed by positions found in %s" % (base, c),
                                "`%s` is `%s` with the rows of a mask removed; the positions computed from it (%s) count surviving rows, but `%s` applies them to the "
                                "uncompressed array: every position behind a removed row points at the wrong row" % (c, base, ", ".join(sorted(pos)), ast.unparse(x)[:50]), line=x.lineno)
                    break
    chk.counts["INDEX-SPACE.compressed"] = chk.counts.get("INDEX-SPACE.compressed", 0) + n
    return n


LINTS = {
    "ALL-AS-NONNULL": all_as_nonnull, "SHAPE-AMBIGUOUS": shape_ambiguous, "NORM-AXIS": norm_axis, "NULL-TOL": null_tol, "ZERO-PATCH": zero_patch, "NAN-SWALLOW": nan_swallow,
    "SWALLOW-ROW": swallow_row, "PARAM-CLAMP": param_clamp, "VALIDATOR-WRITES": validator_writes, "NONE-MISMATCH": none_mismatch, "DTYPE-FROM-ARG": dtype_from_arg, "INIT-DERIVED": init_derived, "INDEX-SPACE": index_space,
}
# rule -> owning properties (None: every property on its anchor files).  PARAM-CLAMP and NAN-SWALLOW contradict only properties that promise an answer for every
# input of a range / a rejection of invalid input.
OWNERS = {"ALL-AS-NONNULL": None, "SHAPE-AMBIGUOUS": None, "NORM-AXIS": None, "NULL-TOL": None, "ZERO-PATCH": None, "NAN-SWALLOW": {"C10", "C11", "C09", "C01"}, "SWALLOW-ROW": None,
          "PARAM-CLAMP": {"C14", "C15", "C16", "C17", "C20"}, "VALIDATOR-WRITES": None, "NONE-MISMATCH": None, "DTYPE-FROM-ARG": None, "INIT-DERIVED": {"C14", "C15", "C06", "C19"}, "INDEX-SPACE": None}

FIXTURE = '''
def _lint2_index_space(X):
    keep = ~np.isnan(X).any(axis=1)
    c = X[keep]
    hits = np.nonzero(c[:, 0] < 0)[0] + 1
    for j in hits:
        X[j] = 0.0
    return X
def _lint2_all(acc, mag):
    if np.all(acc) and not mag.all():
        return acc
    return mag
def _lint2_shape(acc):
    if acc.shape[0] == 3:
        acc = acc.T
    return acc
def _lint2_axis(item):
    if item.ndim not in [1, 2] or item.shape[-1] != 3:
        raise ValueError("shape")
    return np.all(np.linalg.norm(item, axis=0) > 0)
def _lint2_tol(gyr):
    if np.isclose(np.linalg.norm(gyr), 0.0):
        return None
    return gyr
def _lint2_patch(q, S):
    q_norm = np.linalg.norm(q, axis=1)
    q_norm[q_norm == 0.0] = 1.0
    S[np.isclose(S, 0.0)] = 0.0
    return q / q_norm[:, None] * np.sign(S[:, 0])
def _lint2_nan(ang):
    if not np.isfinite(ang):
        return np.identity(3)
    return ang
def _lint2_rows(self, Q, gyr):
    for t in range(1, len(Q)):
        try:
            Q[t] = self.update(Q[t-1], gyr[t])
        except ValueError:
            continue
    return Q
def lint2_clamp(height):
    height = min(max(height, LOW_LIMIT), 850.0)
    return height
class _Lint2Fixture:
    def __init__(self, frame):
        self.frame = frame
        self._enu = self.frame.upper() == 'ENU'
    def answer(self):
        return 1 if self._enu else 2
    def _guard_clauses(self):
        if abs(self.latitude) == 90:
            self.longitude = 0.0
def _lint2_none(kwargs):
    ref_a = kwargs.get('a')
    ref_b = kwargs.get('b')
    return 1.0 if ref_a is None else np.array(ref_b)
def _lint2_dtype(R1, it):
    return np.fromiter(it, dtype=R1.dtype, count=R1.shape[0])
'''
