"""Shared helpers for obligations: equality verdicts with witnesses, extracted reference formulas."""
from __future__ import annotations

import numpy as np

from . import poly as P
from .poly import Rat
from .symeval import Interp, to_obj, is_arr, unit_quat, sym_vec, sym_mat, vec_norm, det, inv, NPShim, ClassRef, Obj, Raised, Unsupported
from .model import AnalysisError

QUAT = "ahrs/common/quaternion.py"
ORI = "ahrs/common/orientation.py"
DCM = "ahrs/common/dcm.py"


def eq(a, b, what="", domain=None, seed=0):
    """Decide a == b exactly.  Returns True | (False, detail, extra) | (None, detail)."""
    a, b = to_obj(a), to_obj(b)
    if is_arr(a) or is_arr(b):
        a, b = np.asarray(a, dtype=object), np.asarray(b, dtype=object)
        if a.shape != b.shape:
            try:
                a, b = np.broadcast_arrays(a, b)
            except ValueError:
                return (False, "%s: shapes differ %s vs %s" % (what, a.shape, b.shape))
        unknown = None
        for idx in np.ndindex(a.shape):
            r = eq(a[idx], b[idx], "%s%s" % (what, list(idx)), domain, seed)
            if r is True:
                continue
            if r[0] is False:
                return r
            unknown = r
        return unknown if unknown else True
    if not isinstance(a, Rat) or not isinstance(b, Rat):
        if a is b or a == b:
            return True
        return (False, "%s: %r != %r" % (what, a, b))
    if a.same(b):
        return True
    w = P.witness(a, b, seed=seed, domain=domain)
    if w is None:
        return (None, "%s: normal forms differ but no numeric witness separates them (incomplete rewriting)" % what)
    vals, av, bv = w
    return (False, "%s: got %s, expected %s" % (what, _short(a), _short(b)),
            {"witness": {k: round(v, 6) for k, v in sorted(vals.items())}, "got": av, "expected": bv,
             "key": "%s got %s" % (what, _short(a, 90))})


def _short(r, n=160):
    s = repr(r)
    return s if len(s) <= n else s[:n] + "..."


def all_of(*results):
    unknown = None
    for r in results:
        if r is True:
            continue
        if r[0] is False:
            return r
        unknown = r
    return unknown if unknown else True


def I(n):
    return NPShim._identity(n)


def quat_obj(it: Interp, data, scalar_vector=True, cls="Quaternion"):
    data = to_obj(data)
    if cls == "Quaternion":
        return it.make_obj(QUAT + "::Quaternion", data=data, A=data, scalar_vector=scalar_vector)
    return it.make_obj(QUAT + "::QuaternionArray", data=data, array=data, scalar_vector=scalar_vector, num_qts=data.shape[0])


def E_of(it: Interp, q):
    """the 3x3 matrix extracted from Quaternion.to_DCM for component array q=(w,x,y,z)"""
    return it.run(it.program.func(QUAT + "::Quaternion.to_DCM"), [], self_obj=quat_obj(it, q))


def prod_of(it: Interp, p, q):
    return it.run(it.program.func(QUAT + "::Quaternion.product"), [to_obj(q)], self_obj=quat_obj(it, p))


def conj_of(it: Interp, q):
    return it.getattr(quat_obj(it, q), "conjugate", None)


def E_ref(q):
    """textbook rotation matrix of a (not necessarily unit) quaternion divided by |q|^2: independent oracle"""
    w, x, y, z = q
    s = w * w + x * x + y * y + z * z
    M = np.empty((3, 3), dtype=object)
    M[0] = [w*w + x*x - y*y - z*z, 2*(x*y - w*z), 2*(x*z + w*y)]
    M[1] = [2*(x*y + w*z), w*w - x*x + y*y - z*z, 2*(y*z - w*x)]
    M[2] = [2*(x*z - w*y), 2*(w*x + y*z), w*w - x*x - y*y + z*z]
    return M / s


def hamilton_ref(p, q):
    pw, px, py, pz = p
    qw, qx, qy, qz = q
    out = np.empty((4,), dtype=object)
    out[0] = pw*qw - px*qx - py*qy - pz*qz
    out[1] = pw*qx + px*qw + py*qz - pz*qy
    out[2] = pw*qy - px*qz + py*qw + pz*qx
    out[3] = pw*qz + px*qy - py*qx + pz*qw
    return out


def free_quat(prefix, sub=None):
    return sym_vec(prefix, 4, "wxyz", sub)


def solve_single_atom(diff: Rat):
    """if diff == c*atom + d (c, d rational constants, atom a plain symbol) return (name, -d/c)"""
    if not P.p_is_const(diff.den):
        diff = Rat(diff.num)
    name, c, d = None, None, 0
    for m, v in diff.num.items():
        if not m:
            d = v
        elif len(m) == 1 and m[0][1] == 1 and P.atom(m[0][0]).kind == "sym" and name is None:
            name, c = P.atom(m[0][0]).name, v
        else:
            return None
    if name is None:
        return None
    return name, -d / c


def explore_arms(body, max_arms=16):
    """Degenerate-arm exploration.  ``body(sub, mk_interp)`` runs an obligation with the symbol substitution
    ``sub`` (name -> Fraction) and must create its interpreters through ``mk_interp(**kw)``.  After the generic run,
    every generic-position decision whose condition pins a single input symbol (x != 0, x == c, isclose(x, c)) is
    revisited with that symbol set to the pinned value, recursively.  Returns list of (arm label, verdict)."""
    results = []
    seen = set()
    work = [{}]
    while work and len(results) < max_arms:
        sub = work.pop(0)
        key = tuple(sorted(sub.items()))
        if key in seen:
            continue
        seen.add(key)
        its = []

        def mk(*a, **kw):
            it = Interp(*a, **kw)
            its.append(it)
            return it
        label = "generic" if not sub else ",".join("%s=%s" % kv for kv in sorted(sub.items()))
        try:
            v = body(sub, mk)
        except Raised as e:
            v = ("raised", e.exc_name)
        results.append((label, v))
        for it in its:
            for cond, val, was_generic in it.decisions:
                if not was_generic:
                    continue
                if cond.op == "nonzero":
                    s = solve_single_atom(cond.lhs)
                elif cond.op in ("==", "!=", "isclose"):
                    s = solve_single_atom(cond.lhs - cond.rhs)
                else:
                    s = None
                if s and s[0] not in sub:
                    nsub = dict(sub)
                    nsub[s[0]] = s[1]
                    work.append(nsub)
                elif s is None and cond.op in ("nonzero", "==", "!=", "isclose"):
                    # a compound quantity (m = w^2 a^2 b / GM ...): it vanishes identically when one of its symbols does -- each such symbol is a degenerate arm
                    d = cond.lhs if cond.op == "nonzero" else (cond.lhs - cond.rhs)
                    try:
                        names = sorted({P.atom(a_).name for a_ in d.atoms() if P.atom(a_).kind == "sym"})
                    except Exception:
                        names = []
                    for nm in names:
                        if nm in sub or nm == "pi":
                            continue
                        try:
                            z = d.subs({nm: P.ZERO})
                        except Exception:
                            continue
                        if getattr(z, "is_zero", lambda: False)():
                            nsub = dict(sub)
                            nsub[nm] = 0
                            work.append(nsub)
    return results


def normalized(v):
    return v / vec_norm(v)


def expect_raises(fn, names=("ValueError", "TypeError")):
    try:
        fn()
    except Raised as e:
        return e.exc_name in names or (False, "raised %s" % e.exc_name)
    return (False, "did not raise")


def ob_arms(chk, rule, site, law, body, max_arms=16, **kw):
    """run ``body`` on the generic arm and on every degenerate arm it exposes; one obligation per arm"""
    try:
        arms = explore_arms(body, max_arms=max_arms)
    except Exception as e:
        chk.ob(rule, site, law, lambda: (_ for _ in ()).throw(e), **kw)
        return
    cons = kw.pop("construct", law)
    for label, verdict in arms:
        if isinstance(verdict, tuple) and verdict and verdict[0] == "raised":
            chk.record(rule, site, "%s [arm %s]" % (law, label), detail="arm ends in raise %s (exempt)" % verdict[1])
            continue
        chk.ob(rule, site, "%s [arm %s]" % (law, label), lambda v=verdict: v,
               construct=cons if label == "generic" else "%s [arm %s]" % (cons, label), **kw)


def DEG2RAD_of(it, mod):
    """the repo's own DEG2RAD constant as an abstract value"""
    return it.module_global(mod, "DEG2RAD")


# ------------------------------------------------------------------------------------------ BAND rule
import ast as _ast
import math as _math


def isclose_band(call, default_rtol=1e-5, default_atol=1e-8):
    """for a call np.isclose/np.allclose(e, c) with literal c: the half-width |e - c| <= atol + rtol*|c| of the shortcut"""
    if len(call.args) < 2:
        return None
    c = call.args[1]
    try:
        cv = float(_ast.literal_eval(c))
    except Exception:
        return None
    rtol, atol = default_rtol, default_atol
    for k in call.keywords:
        try:
            if k.arg == "rtol":
                rtol = float(_ast.literal_eval(k.value))
            if k.arg == "atol":
                atol = float(_ast.literal_eval(k.value))
        except Exception:
            return None
    if len(call.args) > 2:
        try:
            rtol = float(_ast.literal_eval(call.args[2]))
        except Exception:
            return None
    return cv, atol + rtol * abs(cv)


def trace_band_angle(half_width):
    """largest rotation angle t with |trace - 3| = 2(1 - cos t) <= half_width"""
    x = 1.0 - half_width / 2.0
    return _math.acos(max(-1.0, min(1.0, x)))


# ------------------------------------------------------------------------------------------ path enumeration
class _NeedMore(Exception):
    def __init__(self, cond):
        self.cond = cond


def enumerate_paths(run, ops=("<", ">", "<=", ">=", "argmax", "argmin"), max_paths=64):
    """Enumerate the decision paths of ``run(oracle)``: every condition whose op is in ``ops`` is answered by a script;
    when the script is exhausted the run is forked (booleans: 2 ways, argmax/argmin: one per entry).
    Returns [(decisions [(cond, answer)], result | exception)]."""
    out = []
    work = [[]]
    while work and len(out) < max_paths:
        script = work.pop(0)
        pos = [0]
        taken = []

        def oracle(c, it):
            if c.op not in ops:
                return None
            if pos[0] < len(script):
                a = script[pos[0]]
                pos[0] += 1
                taken.append((c, a))
                return a
            raise _NeedMore(c)
        try:
            res = run(oracle)
            out.append((list(taken), res))
        except _NeedMore as e:
            c = e.cond
            if c.op in ("argmax", "argmin"):
                n = int(np.asarray(to_obj(c.lhs), dtype=object).size)
                for k in range(n):
                    work.append(script + [k])
            else:
                work.append(script + [True])
                work.append(script + [False])
        except Exception as e:        # Raised / Unsupported ... : a terminal outcome of this path
            out.append((list(taken), e))
    return out


# ------------------------------------------------------------------------------------------ structural discovery helpers
def newton_updates(func_node):
    """[(while_node, x, u, v, u_expr, v_expr)] for loops containing  x -= u/v  or  x = x - u/v  with u, v assigned in the loop"""
    out = []
    for w in _ast.walk(func_node):
        if not isinstance(w, _ast.While):
            continue
        assigns = {}
        for s in w.body:
            if isinstance(s, _ast.Assign) and isinstance(s.targets[0], _ast.Name):
                assigns[s.targets[0].id] = s.value
        for s in w.body:
            x = u = v = None
            if isinstance(s, _ast.AugAssign) and isinstance(s.op, _ast.Sub) and isinstance(s.target, _ast.Name) and isinstance(s.value, _ast.BinOp) and isinstance(s.value.op, _ast.Div):
                x, u, v = s.target.id, s.value.left, s.value.right
            elif isinstance(s, _ast.Assign) and isinstance(s.targets[0], _ast.Name) and isinstance(s.value, _ast.BinOp) and isinstance(s.value.op, _ast.Sub) \
                    and isinstance(s.value.left, _ast.Name) and s.value.left.id == s.targets[0].id and isinstance(s.value.right, _ast.BinOp) and isinstance(s.value.right.op, _ast.Div):
                x, u, v = s.targets[0].id, s.value.right.left, s.value.right.right
            if x and isinstance(u, _ast.Name) and isinstance(v, _ast.Name) and u.id in assigns and v.id in assigns:
                out.append((w, x, u.id, v.id, assigns[u.id], assigns[v.id]))
    return out


def eval_free(prog, module, func, expr, bind=None):
    """evaluate an expression AST with every free Name bound to a symbol of that name (or to ``bind[name]``)"""
    from .symeval import Env
    it = Interp(prog)
    env = Env(module, func)
    bind = dict(bind or {})
    for n in _ast.walk(expr):
        if isinstance(n, _ast.Name) and isinstance(n.ctx, _ast.Load) and n.id not in env.vars:
            if n.id in bind:
                env.vars[n.id] = bind[n.id]
            elif module.resolve_name(n.id) is None and n.id not in ("np", "abs", "float", "int", "len"):
                env.vars[n.id] = P.sym("v_" + n.id)
    return it.eval(expr, env)


def newton_derivative(prog, func):
    """verdict: in every Newton loop of ``func``, the divisor is the derivative of the dividend w.r.t. the iterate"""
    ups = newton_updates(func.node)
    if not ups:
        return (None, "no Newton update  x -= u/v  found")
    outs = []
    for w, x, u, v, ue, ve in ups:
        xs = P.sym("v_" + x)
        uu = eval_free(prog, func.module, func, ue)
        vv = eval_free(prog, func.module, func, ve)
        outs.append(eq(vv, uu.deriv("v_" + x), "%s == d %s / d %s" % (v, u, x)))
    return all_of(*outs)


# ------------------------------------------------------------------------------------------ tolerance gates -> angle bands
def collect_gates(run):
    """run(oracle) interprets a function; every np.isclose/np.allclose condition met on the generic arm (answered False) is returned
    as (lhs Rat, rhs Rat, rtol, atol)"""
    gates = []

    def oracle(c, it=None):
        if c.op in ("isclose", "allclose"):
            tol = ("tol",) + tuple(getattr(c, "tol", None) or (1e-5, 1e-8))
            gates.append((c.lhs, c.rhs, tol[1], tol[2]))
            return False
        if c.op == ">":
            return True
        if c.op == ">=":
            return False
        if c.op == "nonzero":
            return True
        return None
    run(oracle)
    return gates


def gate_angle_band(lhs, rhs, rtol, atol, qnames):
    """For a gate |lhs - rhs| <= atol + rtol |rhs| whose operands are functions of a unit quaternion (symbols qnames = w, x, y, z):
    which limit closes it (rotation angle -> 0 or -> pi) and the largest angular distance from that limit still inside the gate.
    Decided on the closed forms: the residual is sampled along  q(s) -> limit  and fitted to  k * s^p  (exact for the monomial residuals
    such gates have: trace +- const = 4 w^2, 4 (1 - w^2); scalar part = w; ...).  Returns (limit, band_rad, p, k) or None."""
    c = rhs.const() if hasattr(rhs, "const") else None
    if c is None or rtol is None or atol is None:
        return None
    tol = atol + rtol * abs(float(c))
    ax = (0.36, 0.48, 0.8)          # a fixed generic unit axis

    def resid(limit, s):
        # half-turn limit: w = s -> 0 ; identity limit: |vector part| = s -> 0
        if limit == "pi":
            w, v = s, _math.sqrt(1 - s * s)
        else:
            w, v = _math.sqrt(1 - s * s), s
        vals = {qnames[0]: w, qnames[1]: v * ax[0], qnames[2]: v * ax[1], qnames[3]: v * ax[2]}

        def val(at):
            if at.name in vals:
                return vals[at.name]
            raise KeyError(at.name)
        return abs(P.evalf(lhs - rhs, val))
    for limit in ("pi", "0"):
        try:
            f1, f2, f3 = resid(limit, 1e-2), resid(limit, 1e-3), resid(limit, 1e-4)
        except KeyError:
            return "foreign"
        if not (f1 > f2 > f3 >= 0) or f3 > 1e-3:
            continue
        if f3 == 0 or f2 == 0:
            return (limit, 0.0, None, None)
        p = _math.log(f2 / f3) / _math.log(10.0)
        p_r = round(p)
        if p_r < 1 or abs(p - p_r) > 0.05:
            continue
        k = f3 / (1e-4 ** p_r)
        s_band = (tol / k) ** (1.0 / p_r)
        return (limit, 2 * _math.asin(min(1.0, s_band)), p_r, k)
    return None


# ------------------------------------------------------------------------------------------ path selection by a sample point
def sample_oracle(vals, default=None):
    """An oracle that decides every data-dependent condition the way it comes out at ONE numeric valuation of the symbols (vals: name -> float): the
    interpretation then follows the single path that valuation takes, and its results stay exact closed forms (valid on that path's whole region).
    Used to compare two implementations arm by arm without enumerating every combination of their branch conditions."""
    def val(at):
        if at.name == "pi":
            return _math.pi
        return vals[at.name]

    def num(x):
        if isinstance(x, Rat):
            return P.evalf(x, val)
        return float(x)

    def oracle(c, it=None):
        try:
            if c.op in ("argmax", "argmin"):
                arr = np.asarray(to_obj(c.lhs), dtype=object).ravel()
                nums = [num(x) for x in arr]
                return int(np.argmax(nums) if c.op == "argmax" else np.argmin(nums))
            if c.op in ("max", "min"):
                a, b = num(c.lhs), num(c.rhs)
                return 0 if ((a >= b) if c.op == "max" else (a <= b)) else 1
            if c.op == "nonzero":
                return num(c.lhs) != 0
            l, r = num(c.lhs), num(c.rhs)
            if c.op in ("isclose", "allclose"):
                tol = getattr(c, "tol", None) or (1e-5, 1e-8)
                return abs(l - r) <= tol[1] + tol[0] * abs(r)
            return {"<": l < r, ">": l > r, "<=": l <= r, ">=": l >= r, "==": l == r, "!=": l != r}.get(c.op, default)
        except (KeyError, TypeError, ValueError):
            return default
    return oracle


# ------------------------------------------------------------------------------------------ arms decided on the samples that reach them
def arms_agree(run, want, samples, what, tol=1e-6, ops=("<", ">", "<=", ">=")):
    """``run(oracle)`` interprets a function; ``want`` is the closed form every arm must return.  The generic arm (no inequality met) is compared exactly by the
    caller; this helper handles code that has inequality-guarded arms: every decision path is enumerated, and a path is compared with ``want`` *numerically, on
    those sample valuations that satisfy all of the path's decisions* (an arm that replaces the formula by a series near a limit agrees to rounding there; an arm
    that returns something else on a whole region does not).  Returns True | (False, detail, None) | (None, detail)."""
    paths = enumerate_paths(run, ops=ops, max_paths=16)
    unknown = None
    reached = 0
    for decisions, res in paths:
        label = ", ".join("%s %s %s -> %s" % (str(c.lhs)[:24], c.op, str(c.rhs)[:10], a_) for c, a_ in decisions) or "no inequality met"
        if isinstance(res, Exception):
            from .symeval import Raised
            if isinstance(res, Raised):
                continue
            unknown = (None, "%s: path [%s] not analysable (%s: %s)" % (what, label, type(res).__name__, str(res)[:60]))
            continue
        got = np.asarray(to_obj(res), dtype=object).ravel()
        exp = np.asarray(to_obj(want), dtype=object).ravel()
        if got.shape != exp.shape:
            return (False, "%s: path [%s] returns shape %s" % (what, label, got.shape), None)
        for vals in samples:
            def val(at, vals=vals):
                return _math.pi if at.name == "pi" else vals[at.name]
            try:
                if not all(bool(sample_oracle(vals)(c)) == bool(a_) for c, a_ in decisions):
                    continue
                g = [P.evalf(x, val) if isinstance(x, Rat) else float(x) for x in got]
                e = [P.evalf(x, val) if isinstance(x, Rat) else float(x) for x in exp]
            except Exception:
                continue
            reached += 1
            num = _math.sqrt(sum((a_ - b_) ** 2 for a_, b_ in zip(g, e)))
            den = _math.sqrt(sum(b_ ** 2 for b_ in e)) or 1.0
            if not num <= tol * den + 1e-9:
                return (False, "%s: on the arm [%s] the returned value differs from the closed form by %.3g (relative) at %s" % (
                    what, label, num / den, {k: round(v, 4) for k, v in sorted(vals.items())}), None)
    if unknown is not None:
        return unknown
    if reached == 0:
        return (None, "%s: no sample valuation reaches any decision path" % what)
    return True
