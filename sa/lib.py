"""Shared helpers for obligations: equality verdicts with witnesses, extracted reference formulas."""
from __future__ import annotations

import numpy as np

from . import poly as P
from .poly import Rat
from .symeval import Interp, to_obj, is_arr, unit_quat, sym_vec, sym_mat, vec_norm, det, inv, NPShim, ClassRef, Obj, Raised, Unsupported
from .model import AnalysisError

QUAT = "ahrs/common/quaternion.py"
ORI = "ahrs/common/orientation.py"
DCM = "ahrs/common/dcm.py"


def eq(a, b, what="", domain=None, seed=0):
    """Decide a == b exactly.  Returns True | (False, detail, extra) | (None, detail)."""
    a, b = to_obj(a), to_obj(b)
    if is_arr(a) or is_arr(b):
        a, b = np.asarray(a, dtype=object), np.asarray(b, dtype=object)
        if a.shape != b.shape:
            try:
                a, b = np.broadcast_arrays(a, b)
            except ValueError:
                return (False, "%s: shapes differ %s vs %s" % (what, a.shape, b.shape))
        unknown = None
        for idx in np.ndindex(a.shape):
            r = eq(a[idx], b[idx], "%s%s" % (what, list(idx)), domain, seed)
            if r is True:
                continue
            if r[0] is False:
                return r
            unknown = r
        return unknown if unknown else True
    if not isinstance(a, Rat) or not isinstance(b, Rat):
        if a is b or a == b:
            return True
        return (False, "%s: %r != %r" % (what, a, b))
    if a.same(b):
        return True
    w = P.witness(a, b, seed=seed, domain=domain)
    if w is None:
        return (None, "%s: normal forms differ but no numeric witness separates them (incomplete rewriting)" % what)
    vals, av, bv = w
    return (False, "%s: got %s, expected %s" % (what, _short(a), _short(b)),
            {"witness": {k: round(v, 6) for k, v in sorted(vals.items())}, "got": av, "expected": bv})


def _short(r, n=160):
    s = repr(r)
    return s if len(s) <= n else s[:n] + "..."


def all_of(*results):
    unknown = None
    for r in results:
        if r is True:
            continue
        if r[0] is False:
            return r
        unknown = r
    return unknown if unknown else True


def I(n):
    return NPShim._identity(n)


def quat_obj(it: Interp, data, scalar_vector=True, cls="Quaternion"):
    data = to_obj(data)
    if cls == "Quaternion":
        return it.make_obj(QUAT + "::Quaternion", data=data, A=data, scalar_vector=scalar_vector)
    return it.make_obj(QUAT + "::QuaternionArray", data=data, array=data, scalar_vector=scalar_vector, num_qts=data.shape[0])


def E_of(it: Interp, q):
    """the 3x3 matrix extracted from Quaternion.to_DCM for component array q=(w,x,y,z)"""
    return it.run(it.program.func(QUAT + "::Quaternion.to_DCM"), [], self_obj=quat_obj(it, q))


def prod_of(it: Interp, p, q):
    return it.run(it.program.func(QUAT + "::Quaternion.product"), [to_obj(q)], self_obj=quat_obj(it, p))


def conj_of(it: Interp, q):
    return it.getattr(quat_obj(it, q), "conjugate", None)


def E_ref(q):
    """textbook rotation matrix of a (not necessarily unit) quaternion divided by |q|^2: independent oracle"""
    w, x, y, z = q
    s = w * w + x * x + y * y + z * z
    M = np.empty((3, 3), dtype=object)
    M[0] = [w*w + x*x - y*y - z*z, 2*(x*y - w*z), 2*(x*z + w*y)]
    M[1] = [2*(x*y + w*z), w*w - x*x + y*y - z*z, 2*(y*z - w*x)]
    M[2] = [2*(x*z - w*y), 2*(w*x + y*z), w*w - x*x - y*y + z*z]
    return M / s


def hamilton_ref(p, q):
    pw, px, py, pz = p
    qw, qx, qy, qz = q
    out = np.empty((4,), dtype=object)
    out[0] = pw*qw - px*qx - py*qy - pz*qz
    out[1] = pw*qx + px*qw + py*qz - pz*qy
    out[2] = pw*qy - px*qz + py*qw + pz*qx
    out[3] = pw*qz + px*qy - py*qx + pz*qw
    return out


def free_quat(prefix):
    return sym_vec(prefix, 4, "wxyz")


def normalized(v):
    return v / vec_norm(v)


def expect_raises(fn, names=("ValueError", "TypeError")):
    try:
        fn()
    except Raised as e:
        return e.exc_name in names or (False, "raised %s" % e.exc_name)
    return (False, "did not raise")
