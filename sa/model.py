"""Front end: the resolved program model of /repo/ahrs (parsed, never imported)."""
from __future__ import annotations

import ast
import hashlib
import os

REPO = os.environ.get("AHRS_REPO", "/repo")
PKG = "ahrs"
MIN_FILES = 30   # confirmed by hand on the pinned tree: 36 python files under ahrs/


class AnalysisError(Exception):
    """Anchor vanished / construct outside the analysable fragment -> UNKNOWN (exit 2)."""


class Func:
    def __init__(self, module, node, cls=None):
        self.module, self.node, self.cls = module, node, cls
        self.name = node.name
        self.qname = (cls.name + "." if cls else "") + node.name
        self.is_property = any((isinstance(d, ast.Name) and d.id in ("property", "cached_property")) or (isinstance(d, ast.Attribute) and d.attr == "cached_property")
                               for d in node.decorator_list)
        self.is_classmethod = any(isinstance(d, ast.Name) and d.id == "classmethod" for d in node.decorator_list)
        self.is_static = any(isinstance(d, ast.Name) and d.id in ("staticmethod",) for d in node.decorator_list)
        self.is_setter = any(isinstance(d, ast.Attribute) and d.attr == "setter" for d in node.decorator_list)

    @property
    def ref(self):
        return "%s::%s" % (self.module.rel, self.qname)

    @property
    def params(self):
        a = self.node.args
        return [x.arg for x in a.posonlyargs + a.args]

    def body(self):
        b = self.node.body
        if b and isinstance(b[0], ast.Expr) and isinstance(getattr(b[0], "value", None), ast.Constant) and isinstance(b[0].value.value, str):
            return b[1:]
        return b

    def __repr__(self):
        return "<Func %s>" % self.ref


class Class:
    def __init__(self, module, node):
        self.module, self.node, self.name = module, node, node.name
        self.methods: dict[str, Func] = {}
        self.setters: dict[str, Func] = {}
        self.attrs: dict[str, ast.AST] = {}
        self.base_names = [ast.unparse(b) for b in node.bases]
        for st in node.body:
            if isinstance(st, ast.FunctionDef):
                f = Func(module, st, self)
                if f.is_setter:
                    self.setters[st.name] = f
                else:
                    self.methods[st.name] = f
            elif isinstance(st, ast.Assign):
                for t in st.targets:
                    if isinstance(t, ast.Name):
                        self.attrs[t.id] = st.value
            elif isinstance(st, ast.AnnAssign) and isinstance(st.target, ast.Name) and st.value is not None:
                self.attrs[st.target.id] = st.value

    @property
    def ref(self):
        return "%s::%s" % (self.module.rel, self.name)

    def mro(self):
        out = [self]
        for b in self.base_names:
            c = self.module.resolve_name(b)
            if isinstance(c, Class):
                out.extend(c.mro())
        return out

    def lookup(self, name):
        for c in self.mro():
            if name in c.methods:
                return c.methods[name]
        return None

    def lookup_setter(self, name):
        for c in self.mro():
            if name in c.setters:
                return c.setters[name]
        return None

    def lookup_attr(self, name):
        for c in self.mro():
            if name in c.attrs:
                return c, c.attrs[name]
        return None

    def __repr__(self):
        return "<Class %s>" % self.ref


class Module:
    def __init__(self, program, rel, src):
        self.program, self.rel, self.src = program, rel, src
        self.tree = ast.parse(src, filename=rel)
        self.funcs: dict[str, Func] = {}
        self.classes: dict[str, Class] = {}
        self.assigns: dict[str, ast.AST] = {}
        self.imports: dict[str, tuple] = {}     # local name -> ("module", modrel) | ("from", modrel, name) | ("ext", dotted)
        self.star_imports: list[str] = []
        self.dotted = rel[:-3].replace("/", ".")
        if self.dotted.endswith(".__init__"):
            self.dotted = self.dotted[: -len(".__init__")]
            self.is_pkg = True
        else:
            self.is_pkg = False
        self._scan(self.tree.body)

    def _scan(self, body):
        for st in body:
            if isinstance(st, ast.FunctionDef):
                self.funcs[st.name] = Func(self, st)
            elif isinstance(st, ast.ClassDef):
                self.classes[st.name] = Class(self, st)
            elif isinstance(st, ast.Assign):
                for t in st.targets:
                    if isinstance(t, ast.Name):
                        self.assigns[t.id] = st.value
                    elif isinstance(t, ast.Tuple) and isinstance(st.value, ast.Tuple) and len(t.elts) == len(st.value.elts):
                        for tt, vv in zip(t.elts, st.value.elts):
                            if isinstance(tt, ast.Name):
                                self.assigns[tt.id] = vv
            elif isinstance(st, ast.AnnAssign) and isinstance(st.target, ast.Name) and st.value is not None:
                self.assigns[st.target.id] = st.value
            elif isinstance(st, ast.Import):
                for al in st.names:
                    self.imports[al.asname or al.name.split(".")[0]] = ("ext", al.name)
            elif isinstance(st, ast.ImportFrom):
                base = self._resolve_from(st.module, st.level)
                for al in st.names:
                    if al.name == "*":
                        self.star_imports.append(base)
                    else:
                        self.imports[al.asname or al.name] = ("from", base, al.name)
            elif isinstance(st, (ast.If, ast.Try)):
                self._scan(st.body)
                for h in getattr(st, "handlers", []):
                    self._scan(h.body)
                self._scan(st.orelse)

    def _resolve_from(self, module, level):
        if level == 0:
            return module
        parts = self.dotted.split(".")
        if not self.is_pkg:
            parts = parts[:-1]
        parts = parts[: len(parts) - (level - 1)]
        if module:
            parts += module.split(".")
        return ".".join(parts)

    def resolve_name(self, name, _seen=None):
        """Resolve a (possibly dotted) name used in this module to Func/Class/Module/assign-node/('ext', dotted)."""
        _seen = _seen or set()
        if (self.rel, name) in _seen:
            return None
        _seen.add((self.rel, name))
        head, _, rest = name.partition(".")
        obj = None
        if head in self.funcs:
            obj = self.funcs[head]
        elif head in self.classes:
            obj = self.classes[head]
        elif head in self.assigns:
            obj = ("assign", self, head, self.assigns[head])
        elif head in self.imports:
            imp = self.imports[head]
            if imp[0] == "ext":
                obj = ("ext", imp[1] if not rest else imp[1])
                if rest:
                    return ("ext", imp[1] + "." + rest)
                return obj
            _, base, nm = imp
            m = self.program.by_dotted.get(base)
            if m is None:
                return ("ext", (base or "") + "." + nm)
            sub = self.program.by_dotted.get(base + "." + nm)
            r = m.resolve_name(nm, _seen)
            obj = r if r is not None else sub
        else:
            for base in self.star_imports:
                m = self.program.by_dotted.get(base)
                if m is not None:
                    r = m.resolve_name(head, _seen)
                    if r is not None:
                        obj = r
                        break
        if obj is None:
            return None
        if not rest:
            return obj
        if isinstance(obj, Module):
            return obj.resolve_name(rest, _seen)
        if isinstance(obj, Class):
            h2, _, r2 = rest.partition(".")
            f = obj.lookup(h2)
            return f if not r2 else None
        return None


class Program:
    def __init__(self, root=None, overrides=None):
        self.root = root or REPO
        self.overrides = dict(overrides or {})
        self.modules: dict[str, Module] = {}
        self.by_dotted: dict[str, Module] = {}
        pk = os.path.join(self.root, PKG)
        if not os.path.isdir(pk):
            raise AnalysisError("package directory %s not found" % pk)
        for dp, dn, fn in sorted(os.walk(pk)):
            dn.sort()
            for f in sorted(fn):
                if f.endswith(".py"):
                    full = os.path.join(dp, f)
                    rel = os.path.relpath(full, self.root)
                    try:
                        src = self.overrides[rel] if rel in self.overrides else open(full, encoding="utf-8").read()
                        m = Module(self, rel, src)
                    except SyntaxError as e:
                        raise AnalysisError("cannot parse %s: %s" % (rel, e))
                    self.modules[rel] = m
                    self.by_dotted[m.dotted] = m
        if len(self.modules) < MIN_FILES:
            raise AnalysisError("only %d python files under %s (expected >= %d)" % (len(self.modules), pk, MIN_FILES))

    def mutated(self, rel, transform):
        """Program with module ``rel`` replaced by transform(deep-copied tree) (in memory; used by canaries).
        ``transform`` must return True if it changed something."""
        import copy
        tree = copy.deepcopy(self.module(rel).tree)
        if not transform(tree):
            raise AnalysisError("canary transform did not apply to %s" % rel)
        ast.fix_missing_locations(tree)
        ov = dict(self.overrides)
        ov[rel] = ast.unparse(tree)
        return Program(self.root, ov)

    def digest(self):
        h = hashlib.sha256()
        for rel in sorted(self.modules):
            h.update(rel.encode())
            h.update(self.modules[rel].src.encode())
        return h.hexdigest()[:16]

    def module(self, rel) -> Module:
        m = self.modules.get(rel)
        if m is None:
            raise AnalysisError("anchor module %s vanished" % rel)
        return m

    def func(self, ref) -> Func:
        """ref = 'ahrs/common/quaternion.py::Quaternion.to_DCM' or '...::slerp'"""
        rel, _, q = ref.partition("::")
        m = self.module(rel)
        if "." in q:
            c, _, f = q.partition(".")
            cl = m.classes.get(c)
            if cl is None:
                raise AnalysisError("anchor class %s::%s vanished" % (rel, c))
            fn = cl.lookup(f)
            if fn is None:
                raise AnalysisError("anchor method %s vanished" % ref)
            return fn
        fn = m.funcs.get(q)
        if fn is None:
            raise AnalysisError("anchor function %s vanished" % ref)
        return fn

    def cls(self, ref) -> Class:
        rel, _, q = ref.partition("::")
        c = self.module(rel).classes.get(q)
        if c is None:
            raise AnalysisError("anchor class %s vanished" % ref)
        return c

    def all_funcs(self):
        for m in self.modules.values():
            yield from m.funcs.values()
            for c in m.classes.values():
                yield from c.methods.values()
                yield from c.setters.values()

    def stats(self):
        nf = sum(1 for _ in self.all_funcs())
        return {"files": len(self.modules), "functions": nf, "digest": self.digest()}


def stmt_text(node):
    """normalised, line-number free text of a statement (for finding keys)"""
    try:
        s = ast.unparse(node)
    except Exception:  # pragma: no cover
        s = type(node).__name__
    first = s.strip().splitlines()[0] if s.strip() else s
    return first if len(first) <= 160 else first[:157] + "..."


_PROGRAM = None


def program() -> Program:
    global _PROGRAM
    if _PROGRAM is None:
        _PROGRAM = Program()
    return _PROGRAM
