"""AVN: abstract interpreter of repo functions over the exact rational-function domain.

The interpreter walks the *AST* of functions from the program model.  Nothing from
/repo is imported or executed; values are ``Rat`` scalars, NumPy *object* arrays of
``Rat`` (NumPy is used purely as a container giving slicing/broadcasting semantics to
the abstract arrays), plain Python constants, and ``Obj`` records for class instances.
Anything outside the modelled fragment raises ``Unsupported`` (verdict UNKNOWN).
"""
from __future__ import annotations

import ast
import operator
from fractions import Fraction

import numpy as np

from . import poly as P
from .poly import Rat, Cond, Undecided
from .model import Func, Class, Module, AnalysisError, stmt_text


class Unsupported(AnalysisError):
    pass


class Raised(Exception):
    """the analysed path ends in a ``raise``"""

    def __init__(self, exc_name, node=None, func=None):
        super().__init__(exc_name)
        self.exc_name, self.node, self.func = exc_name, node, func


class Stop(Exception):
    """raised by an intercept to end the interpretation early with a captured value"""

    def __init__(self, value):
        self.value = value


class Obj:
    """instance of a repo class"""

    def __init__(self, cls: Class, data=None):
        self.cls, self.attrs, self.data = cls, {}, data

    def __repr__(self):
        return "<Obj %s>" % self.cls.name


class ClassRef:
    def __init__(self, cls):
        self.cls = cls


class Bound:
    def __init__(self, obj, func):
        self.obj, self.func = obj, func


class SuperRef:
    def __init__(self, cls, obj):
        self.cls, self.obj = cls, obj


class Opaque:
    """value the analysis does not track (e.g. result of an unmodelled external call)"""

    def __init__(self, what):
        self.what = what

    def __repr__(self):
        return "<Opaque %s>" % self.what


_RET = object()

# --------------------------------------------------------------------------- helpers


def is_arr(x):
    return isinstance(x, np.ndarray)


def to_obj(x):
    """convert numbers / nested sequences / arrays to an object array (or Rat scalar)"""
    if isinstance(x, Obj):
        if x.data is None:
            raise Unsupported("object %r used as array" % x)
        return x.data
    if isinstance(x, Rat):
        return x
    if isinstance(x, (bool, int, float, Fraction, np.generic)):
        return P._to_rat(x)
    if isinstance(x, np.ndarray):
        if x.dtype == object:
            return x
        out = np.empty(x.shape, dtype=object)
        for idx, v in np.ndenumerate(x):
            out[idx] = P._to_rat(v.item() if hasattr(v, "item") else v)
        return out
    if isinstance(x, (list, tuple)):
        items = [to_obj(i) for i in x]
        if not items:
            return np.empty((0,), dtype=object)
        shapes = {(i.shape if is_arr(i) else ()) for i in items}
        if len(shapes) != 1:
            raise Unsupported("ragged array literal")
        shp = shapes.pop()
        out = np.empty((len(items),) + shp, dtype=object)
        for k, i in enumerate(items):
            out[k] = i
        return out
    if isinstance(x, Cond):
        return x
    raise Unsupported("cannot make abstract array from %r" % type(x).__name__)


def unwrap(x):
    if isinstance(x, Obj) and x.data is not None:
        return x.data
    return x


def _num(x):
    """python float -> Rat (decimal text), others unchanged"""
    if isinstance(x, float):
        return P._to_rat(x)
    if isinstance(x, np.generic):
        return P._to_rat(x)
    return x


def vec_norm(x, axis=None, keepdims=False):
    x = to_obj(x)
    if isinstance(x, Rat):
        return P.absf(x)
    sq = x * x
    if axis is None:
        tot = P.ZERO
        for v in sq.flat:
            tot = tot + v
        return P.sqrt(tot)
    s = np.sum(sq, axis=axis, keepdims=keepdims)
    if is_arr(s):
        out = np.empty(s.shape, dtype=object)
        for idx, v in np.ndenumerate(s):
            out[idx] = P.sqrt(v)
        return out
    return P.sqrt(s)


def det(m):
    m = to_obj(m)
    n = m.shape[0]
    if m.ndim != 2 or m.shape[1] != n:
        raise Unsupported("det of non-square")
    if n == 1:
        return m[0, 0]
    if n == 2:
        return m[0, 0] * m[1, 1] - m[0, 1] * m[1, 0]
    tot = P.ZERO
    for j in range(n):
        if isinstance(m[0, j], Rat) and m[0, j].is_zero():
            continue
        minor = np.delete(np.delete(m, 0, axis=0), j, axis=1)
        term = m[0, j] * det(minor)
        tot = tot + term if j % 2 == 0 else tot - term
    return tot


def inv(m):
    m = to_obj(m)
    n = m.shape[0]
    d = det(m)
    out = np.empty((n, n), dtype=object)
    if n == 1:
        out[0, 0] = P.ONE / d
        return out
    for i in range(n):
        for j in range(n):
            minor = np.delete(np.delete(m, j, axis=0), i, axis=1)
            c = det(minor)
            out[i, j] = (c if (i + j) % 2 == 0 else -c) / d
    return out


def rat_map(f, x, *rest):
    x = to_obj(x)
    if is_arr(x):
        out = np.empty(x.shape, dtype=object)
        rest_b = [np.broadcast_to(to_obj(r), x.shape) if is_arr(to_obj(r)) else None for r in rest]
        for idx, v in np.ndenumerate(x):
            extra = [(rb[idx] if rb is not None else to_obj(r)) for rb, r in zip(rest_b, rest)]
            out[idx] = f(v, *extra)
        return out
    return f(x, *[to_obj(r) for r in rest])


# --------------------------------------------------------------------------- numpy shim

class _Linalg:
    def __init__(self, it):
        self.it = it

    def norm(self, x, ord=None, axis=None, keepdims=False):
        if ord not in (None, 2, "fro"):
            raise Unsupported("norm ord=%r" % (ord,))
        return vec_norm(x, axis=axis, keepdims=keepdims)

    def det(self, m):
        return det(m)

    def inv(self, m):
        return inv(m)

    def matrix_power(self, m, n):
        m = to_obj(m)
        n = int(n)
        out = NPShim._identity(m.shape[0])
        for _ in range(n):
            out = out @ m
        return out

    def __getattr__(self, name):
        raise Unsupported("np.linalg.%s is outside the AVN fragment" % name)


class _CClass:
    def __init__(self, axis):
        self.axis = axis

    def __getitem__(self, items):
        if not isinstance(items, tuple):
            items = (items,)
        arrs = [to_obj(unwrap(i)) for i in items]
        arrs = [a if is_arr(a) else np.array([a], dtype=object) for a in arrs]
        if self.axis == "c":
            arrs = [a[:, None] if a.ndim == 1 else a for a in arrs]
            return np.concatenate(arrs, axis=1)
        return np.concatenate([np.atleast_1d(a) for a in arrs], axis=0)


class NPShim:
    """the ``np`` namespace seen by analysed code"""
    pi = P.PI
    e = P.sym("euler_e")
    newaxis = None
    nan = P.sym("nan")
    inf = P.sym("inf")
    ndarray = np.ndarray
    float64 = float
    c_ = _CClass("c")
    r_ = _CClass("r")

    def __init__(self, it):
        self.it = it
        self.linalg = _Linalg(it)

    def __getattr__(self, name):
        raise Unsupported("np.%s is outside the AVN fragment" % name)

    # creation
    @staticmethod
    def _full(shape, v):
        if isinstance(shape, (int, Rat)):
            shape = (int(shape),)
        shape = tuple(int(s) for s in shape)
        out = np.empty(shape, dtype=object)
        out.fill(v)
        return out

    @staticmethod
    def _identity(n):
        n = int(n)
        out = NPShim._full((n, n), P.ZERO)
        for i in range(n):
            out[i, i] = P.ONE
        return out

    def array(self, x, dtype=None, copy=True, **kw):
        x = to_obj(unwrap(x))
        return x.copy() if is_arr(x) else x

    def asarray(self, x, dtype=None):
        return to_obj(unwrap(x))

    asanyarray = asarray

    def einsum(self, subscripts, *operands, **kw):
        ops = [np.asarray(to_obj(unwrap(o)), dtype=object) for o in operands]
        return np.einsum(subscripts, *ops)

    def sinc(self, x):
        x = to_obj(unwrap(x))
        px = x * P.sym("pi")            # NumPy's normalised sinc: sin(pi x)/(pi x)
        return self.sin(px) / px

    def mod(self, a, b):
        return self.it.binop(ast.Mod(), a, b)

    remainder = mod

    def hypot(self, a, b):
        a, b = to_obj(unwrap(a)), to_obj(unwrap(b))
        return self.sqrt(a * a + b * b)

    def ascontiguousarray(self, x, dtype=None):
        return to_obj(unwrap(x))        # memory layout is not part of the value

    def asfortranarray(self, x, dtype=None):
        return to_obj(unwrap(x))

    def copy(self, x):
        x = to_obj(unwrap(x))
        return x.copy() if is_arr(x) else x

    def zeros(self, shape, dtype=None):
        return self._full(shape, P.ZERO)

    def ones(self, shape, dtype=None):
        return self._full(shape, P.ONE)

    empty = zeros

    def linspace(self, start, stop, num=50, endpoint=True, **kw):
        a, b, n = unwrap(start), unwrap(stop), int(unwrap(num) if not isinstance(unwrap(num), Rat) else unwrap(num).const())
        a = a if isinstance(a, Rat) else P._to_rat(a)
        b = b if isinstance(b, Rat) else P._to_rat(b)
        div = (n - 1) if endpoint else n
        out = np.empty(n, dtype=object)
        for i in range(n):
            out[i] = a + (b - a) * P.const(P.Fraction(i, div)) if div else a
        return out

    def full(self, shape, fill_value, dtype=None):
        return self._full(shape, P._to_rat(unwrap(fill_value)) if not isinstance(unwrap(fill_value), Rat) else unwrap(fill_value))

    def full_like(self, x, fill_value, dtype=None):
        return self.full(to_obj(unwrap(x)).shape, fill_value)

    def count_nonzero(self, x, axis=None):
        x = to_obj(unwrap(x))
        if not is_arr(x):
            return int(bool(x))
        if axis is not None:
            return np.apply_along_axis(lambda r: sum(1 for v in r if bool(v)), axis, x)
        return sum(1 for v in x.flat if bool(v))

    def flatnonzero(self, x):
        x = to_obj(unwrap(x))
        return np.flatnonzero(np.array([bool(v) for v in np.asarray(x, dtype=object).flat], dtype=bool))

    def nonzero(self, x):
        x = np.asarray(to_obj(unwrap(x)), dtype=object)
        return np.nonzero(np.array([bool(v) for v in x.flat], dtype=bool).reshape(x.shape))

    def zeros_like(self, x, dtype=None):
        x = to_obj(unwrap(x))
        return self._full(x.shape, P.ZERO) if is_arr(x) else P.ZERO

    def ones_like(self, x, dtype=None):
        x = to_obj(unwrap(x))
        return self._full(x.shape, P.ONE) if is_arr(x) else P.ONE

    def identity(self, n, dtype=None):
        return self._identity(n)

    def eye(self, n, dtype=None):
        return self._identity(n)

    def diag(self, x):
        x = to_obj(unwrap(x))
        if x.ndim == 1:
            out = self._full((len(x), len(x)), P.ZERO)
            for i, v in enumerate(x):
                out[i, i] = v
            return out
        return np.diag(x)

    def atleast_1d(self, x):
        x = to_obj(unwrap(x))
        return np.atleast_1d(x) if is_arr(x) else np.array([x], dtype=object)

    def atleast_2d(self, x):
        x = to_obj(unwrap(x))
        return np.atleast_2d(x) if is_arr(x) else np.array([[x]], dtype=object)

    def vstack(self, xs):
        return np.vstack([np.atleast_1d(to_obj(unwrap(x))) for x in xs])

    def hstack(self, xs):
        return np.hstack([np.atleast_1d(to_obj(unwrap(x))) for x in xs])

    def diff(self, x, n=1, axis=-1):
        x = np.asarray(to_obj(unwrap(x)), dtype=object)
        for _ in range(int(n)):
            x = np.moveaxis(x, axis, 0)
            x = x[1:] - x[:-1]
            x = np.moveaxis(x, 0, axis)
        return x

    def append(self, arr, values, axis=None):
        a_, v_ = np.asarray(to_obj(unwrap(arr))), np.asarray(to_obj(unwrap(values)))
        if a_.dtype != object and v_.dtype != object:
            return np.append(a_, v_, axis=axis)
        return np.append(a_.astype(object), v_.astype(object), axis=axis)

    def concatenate(self, xs, axis=0):
        return np.concatenate([to_obj(unwrap(x)) for x in xs], axis=axis)

    def stack(self, xs, axis=0):
        return np.stack([to_obj(unwrap(x)) for x in xs], axis=axis)

    def column_stack(self, xs):
        return np.column_stack([to_obj(unwrap(x)) for x in xs])

    def arange(self, *a):
        return list(range(*[int(x) for x in a]))

    def repeat(self, x, n, axis=None):
        x = to_obj(unwrap(x))
        if not is_arr(x):
            x = np.array([x], dtype=object)
        return np.repeat(x, int(n), axis=axis)

    def tile(self, x, reps):
        return np.tile(to_obj(unwrap(x)), reps)

    def roll(self, x, shift, axis=None):
        return np.roll(to_obj(unwrap(x)), int(shift), axis=axis)

    def flip(self, x, axis=None):
        return np.flip(to_obj(unwrap(x)), axis=axis)

    def transpose(self, x, axes=None):
        return np.transpose(to_obj(unwrap(x)), axes)

    def ravel(self, x):
        return np.ravel(to_obj(unwrap(x)))

    def reshape(self, x, shp):
        return np.reshape(to_obj(unwrap(x)), shp)

    def squeeze(self, x):
        return np.squeeze(to_obj(unwrap(x)))

    def shape(self, x):
        x = to_obj(unwrap(x))
        return x.shape if is_arr(x) else ()

    def ndim(self, x):
        x = to_obj(unwrap(x))
        return x.ndim if is_arr(x) else 0

    # elementwise math
    def sqrt(self, x):
        return rat_map(P.sqrt, unwrap(x))

    def cbrt(self, x):
        return rat_map(P.cbrt, unwrap(x))

    def sin(self, x):
        return rat_map(P.sin, unwrap(x))

    def cos(self, x):
        return rat_map(P.cos, unwrap(x))

    def tan(self, x):
        return rat_map(lambda v: P.sin(v) / P.cos(v), unwrap(x))

    def arccos(self, x):
        return rat_map(lambda v: P.fn("arccos", v), unwrap(x))

    def arcsin(self, x):
        return rat_map(lambda v: P.fn("arcsin", v), unwrap(x))

    def arctan(self, x):
        return rat_map(lambda v: P.fn("arctan", v), unwrap(x))

    def arctan2(self, y, x):
        return rat_map(P.arctan2, unwrap(y), unwrap(x))

    def exp(self, x):
        return rat_map(lambda v: P.fn("exp", v), unwrap(x))

    def log(self, x):
        return rat_map(lambda v: P.fn("log", v), unwrap(x))

    def abs(self, x):
        return rat_map(P.absf, unwrap(x))

    absolute = fabs = abs

    def sign(self, x):
        return rat_map(P.sign, unwrap(x))

    def square(self, x):
        return rat_map(lambda v: v * v, unwrap(x))

    def negative(self, x):
        return rat_map(lambda v: -v, unwrap(x))

    def deg2rad(self, x):
        return rat_map(lambda v: v * P.PI / 180, unwrap(x))

    radians = deg2rad

    def rad2deg(self, x):
        return rat_map(lambda v: v * 180 / P.PI, unwrap(x))

    degrees = rad2deg

    def clip(self, x, lo, hi):
        mode = self.it.config.get("clip", "transparent")
        if mode == "transparent":
            # transparent only if the bounds do not cut values the clipped quantity really takes: probe its closed form on the sampling manifold
            try:
                lo_c, hi_c = float(unwrap(lo)) if lo is not None else None, float(unwrap(hi)) if hi is not None else None
            except Exception:
                lo_c = hi_c = None
            cut = []

            def probe(v):
                if isinstance(v, Rat) and v.const() is None and (lo_c is not None or hi_c is not None):
                    rg = P.range_probe(v)
                    if rg is not None and ((lo_c is not None and rg[0] < lo_c - 1e-9) or (hi_c is not None and rg[1] > hi_c + 1e-9)):
                        cut.append((v, rg))
                return v
            rat_map(probe, unwrap(x))
            if lo_c is None and hi_c is None and (lo is not None or hi is not None):
                # bounds that are expressions themselves (np.clip(g, ge, gp)): transparent only if lo <= x <= hi wherever the three are sampled
                def probe2(v, a=None, b=None):
                    for d_, what in (((v - a) if a is not None else None, "below its lower bound"), ((b - v) if b is not None else None, "above its upper bound")):
                        if isinstance(d_, Rat) and d_.const() is None:
                            rg = P.range_probe(d_)
                            if rg is not None and rg[0] < -1e-9 * max(1.0, abs(rg[1])):
                                cut.append((v, (rg[0], rg[1])))
                        elif isinstance(d_, Rat) and d_.const() is not None and float(d_.const()) < 0:
                            cut.append((v, (float(d_.const()), float(d_.const()))))
                    return v
                try:
                    if lo is not None and hi is not None:
                        rat_map(lambda v, a, b: probe2(v, a, b), unwrap(x), unwrap(lo), unwrap(hi))
                    elif lo is not None:
                        rat_map(lambda v, a: probe2(v, a, None), unwrap(x), unwrap(lo))
                    else:
                        rat_map(lambda v, b: probe2(v, None, b), unwrap(x), unwrap(hi))
                except Exception:
                    pass
            if cut:
                self.it.assume("clip(x, %s, %s) cuts values x takes (sampled range %.3g..%.3g): kept as a clip" % (lo_c, hi_c, cut[0][1][0], cut[0][1][1]))
                return self._clip_atom(x, lo, hi)
            self.it.assume("clip(x, lo, hi) treated as x (value inside the clipping interval)")
            return to_obj(unwrap(x))
        return self._clip_atom(x, lo, hi)

    def _clip_atom(self, x, lo, hi):
        if lo is None and hi is None:
            return to_obj(unwrap(x))
        if hi is None:
            return rat_map(lambda v, a: P.fn("max", v, a), unwrap(x), lo)
        if lo is None:
            return rat_map(lambda v, b: P.fn("min", v, b), unwrap(x), hi)
        return rat_map(lambda v, a, b: P.fn("clip", v, a, b), unwrap(x), lo, hi)

    def real(self, x):
        return to_obj(unwrap(x))

    def isnan(self, x):
        x = to_obj(unwrap(x))
        self.it.assume("inputs are finite (isnan -> False)")
        if is_arr(x):
            return np.zeros(x.shape, dtype=bool)
        return False

    # reductions / products
    def sum(self, x, axis=None, keepdims=False):
        x = to_obj(unwrap(x))
        if not is_arr(x):
            return x
        return np.sum(x, axis=axis, keepdims=keepdims)

    nansum = sum

    def nanmean(self, x, axis=None):
        return self.mean(x, axis=axis)

    def prod(self, x, axis=None):
        return np.prod(to_obj(unwrap(x)), axis=axis)

    def mean(self, x, axis=None):
        x = to_obj(unwrap(x))
        n = x.size if axis is None else x.shape[axis]
        return np.sum(x, axis=axis) / P.const(n)

    def dot(self, a, b):
        a, b = to_obj(unwrap(a)), to_obj(unwrap(b))
        if not is_arr(a) or not is_arr(b):
            return a * b
        return np.dot(a, b)

    def matmul(self, a, b):
        return to_obj(unwrap(a)) @ to_obj(unwrap(b))

    def inner(self, a, b):
        return np.inner(to_obj(unwrap(a)), to_obj(unwrap(b)))

    def outer(self, a, b):
        return np.outer(to_obj(unwrap(a)), to_obj(unwrap(b)))

    def cross(self, a, b, axis=-1, **kw):
        a, b = to_obj(unwrap(a)), to_obj(unwrap(b))
        a_, b_ = np.moveaxis(a, axis, -1) if a.ndim > 1 else a, np.moveaxis(b, axis, -1) if b.ndim > 1 else b
        a_, b_ = np.broadcast_arrays(a_, b_)
        out = np.empty(a_.shape, dtype=object)
        out[..., 0] = a_[..., 1] * b_[..., 2] - a_[..., 2] * b_[..., 1]
        out[..., 1] = a_[..., 2] * b_[..., 0] - a_[..., 0] * b_[..., 2]
        out[..., 2] = a_[..., 0] * b_[..., 1] - a_[..., 1] * b_[..., 0]
        return np.moveaxis(out, -1, axis) if out.ndim > 1 else out

    def diagonal(self, x, offset=0, axis1=0, axis2=1):
        return np.diagonal(to_obj(unwrap(x)), offset=offset, axis1=axis1, axis2=axis2)

    def trace(self, x, offset=0, axis1=0, axis2=1):
        return np.trace(to_obj(unwrap(x)), offset=offset, axis1=axis1, axis2=axis2)

    # logic
    def isclose(self, a, b, rtol=None, atol=None, **kw):
        def f(u, v):
            d = u - v
            if d.is_zero():
                return True
            c = d.const()
            if c is not None and u.const() is not None:
                return abs(c) <= 1e-8 + 1e-5 * abs(v.const())
            return Cond("isclose", u, v, tol=(tol_r, tol_a))
        def _num(t, dflt):
            try:
                return float(unwrap(t)) if t is not None else dflt
            except Exception:
                return None
        tol_r, tol_a = _num(rtol, 1e-5), _num(atol, 1e-8)
        a, b = to_obj(unwrap(a)), to_obj(unwrap(b))
        if is_arr(a) or is_arr(b):
            a, b = np.broadcast_arrays(np.asarray(a, dtype=object), np.asarray(b, dtype=object))
            out = np.empty(a.shape, dtype=object)
            for idx in np.ndindex(a.shape):
                out[idx] = f(a[idx], b[idx])
            return out
        return f(a, b)

    def allclose(self, a, b, rtol=None, atol=None, **kw):
        r = self.isclose(a, b, rtol=rtol, atol=atol)
        if is_arr(r):
            conds = [v for v in r.flat if v is not True]
            if not conds:
                return True
            if any(v is False for v in conds):
                return False
            tol = next((getattr(v, "tol", None) for v in conds if isinstance(v, Cond)), None)
            c = Cond("allclose", to_obj(unwrap(a)), to_obj(unwrap(b)), tol=tol)
            c.elements = [v for v in conds if isinstance(v, Cond)]        # the element-wise tolerance tests behind the array answer
            return c
        return r

    def any(self, x, axis=None):
        x = to_obj(unwrap(x))
        if not is_arr(x):
            return bool(x)
        if axis is not None:
            return np.apply_along_axis(lambda r: any(bool(v) for v in r), axis, x).astype(bool)
        return any(bool(v) for v in x.flat)

    def all(self, x, axis=None):
        x = to_obj(unwrap(x))
        if not is_arr(x):
            return bool(x)
        if axis is not None:
            return np.apply_along_axis(lambda r: all(bool(v) for v in r), axis, x).astype(bool)
        return all(bool(v) for v in x.flat)

    def where(self, c, a=None, b=None):
        c = c if is_arr(c) else np.asarray(c, dtype=object)
        if a is None:
            flags = np.array([bool(v) for v in c.flat], dtype=bool).reshape(c.shape)
            return np.nonzero(flags)
        a, b = to_obj(unwrap(a)), to_obj(unwrap(b))
        cc, aa, bb = np.broadcast_arrays(c, np.asarray(a, dtype=object), np.asarray(b, dtype=object))
        out = np.empty(cc.shape, dtype=object)
        for idx in np.ndindex(cc.shape):
            out[idx] = aa[idx] if bool(cc[idx]) else bb[idx]
        return out if out.ndim else out[()]

    def _argext(self, which, x, axis):
        x = to_obj(unwrap(x))
        try:        # all entries are numbers: nothing to ask
            nums = np.array([float(v.const()) if isinstance(v, Rat) else float(v) for v in np.asarray(x, dtype=object).flat]).reshape(np.shape(x))
            if not np.isnan(nums).any():
                return (np.argmax if which == "argmax" else np.argmin)(nums, axis=axis)
        except (TypeError, ValueError, AttributeError):
            pass
        if axis is None or not is_arr(x) or x.ndim == 1:
            return self.it.ask(Cond(which, x), kind=int)
        moved = np.moveaxis(x, axis, -1)
        out = np.empty(moved.shape[:-1], dtype=object)
        for idx in np.ndindex(out.shape):            # one decision per row: each is a selection among that row's entries
            out[idx] = self.it.ask(Cond(which, moved[idx]), kind=int)
        return out.astype(int)

    def argmax(self, x, axis=None):
        return self._argext("argmax", x, axis)

    def argmin(self, x, axis=None):
        return self._argext("argmin", x, axis)

    def _bound(self, a, b, kind):
        """np.maximum(x, c) / np.minimum(x, c) with a constant bound is one half of a clip: transparent under the same assumption as np.clip"""
        ua, ub = unwrap(a), unwrap(b)
        if self.it.config.get("clip", "transparent") == "transparent":
            ca = ua.const() if isinstance(ua, Rat) else (ua if isinstance(ua, (int, float, Fraction)) and not isinstance(ua, bool) else None)
            cb = ub.const() if isinstance(ub, Rat) else (ub if isinstance(ub, (int, float, Fraction)) and not isinstance(ub, bool) else None)
            if (ca is None) != (cb is None):
                self.it.assume("np.%s(x, const) treated as x (value inside the clipping interval)" % kind)
                return to_obj(ua if ca is None else ub)
        return rat_map(lambda u, v: self.it.pick(kind[:3], u, v), ua, b)

    def maximum(self, a, b):
        return self._bound(a, b, "maximum")

    def minimum(self, a, b):
        return self._bound(a, b, "minimum")


# --------------------------------------------------------------------------- interpreter

_BINOPS = {
    ast.Add: operator.add, ast.Sub: operator.sub, ast.Mult: operator.mul, ast.Div: operator.truediv,
    ast.Pow: operator.pow, ast.MatMult: operator.matmul, ast.FloorDiv: operator.floordiv, ast.Mod: operator.mod,
    ast.BitAnd: operator.and_, ast.BitOr: operator.or_, ast.BitXor: operator.xor,
}
_IBINOPS = {
    ast.Add: operator.iadd, ast.Sub: operator.isub, ast.Mult: operator.imul, ast.Div: operator.itruediv,
    ast.Pow: operator.ipow, ast.MatMult: operator.imatmul, ast.BitAnd: operator.iand, ast.BitOr: operator.ior,
}
_CMPOPS = {
    ast.Eq: operator.eq, ast.NotEq: operator.ne, ast.Lt: operator.lt, ast.LtE: operator.le,
    ast.Gt: operator.gt, ast.GtE: operator.ge,
}

_SAFE_NATIVE = (str, bytes, dict, list, tuple, set, range, type(None), int, bool)


def _entry(method):
    """public entry points activate this interpreter's oracle for Cond.__bool__"""
    import functools

    @functools.wraps(method)
    def wrapper(self, *a, **k):
        if Cond.oracle is not None and getattr(Cond.oracle, "__self__", None) is self:
            return method(self, *a, **k)
        prev = Cond.oracle
        Cond.oracle = self._ask1
        try:
            return method(self, *a, **k)
        finally:
            Cond.oracle = prev
    return wrapper


class Env:
    def __init__(self, module: Module, func: Func | None):
        self.module, self.func, self.vars = module, func, {}


def _full_turn(a):
    """2*pi*c if a == c * f(...) with f an inverse trigonometric function (an angle in radians scaled by the constant c)"""
    try:
        if not (len(a.den) == 1 and P.ONE_M in a.den) or len(a.num) != 1:
            return None
        (mono, co), = a.num.items()
        angle = [x for x, e in mono if P.atom(x).kind == "fn" and P.atom(x).name in ("arctan2", "arctan", "arcsin", "arccos")]
        if len(angle) != 1 or dict(mono)[angle[0]] != 1:
            return None
        rest = Rat({tuple((x, e) for x, e in mono if x != angle[0]): co}) / Rat(dict(a.den))
        for x, e in mono:
            if x != angle[0] and not (P.atom(x).kind == "sym" and P.atom(x).name == "pi"):
                return None
        return rest * 2 * P.sym("pi")
    except Exception:
        return None


def _close_const(u, v):
    """both are numeric constants (possibly through pi) that agree to 1e-9 relative"""
    import math
    try:
        val = lambda at: math.pi
        x, y = P.evalf(u, val), P.evalf(v, val)
        return abs(x - y) <= 1e-9 * max(abs(x), abs(y), 1.0) and all(P.atom(t).name == "pi" for r_ in (u, v) for mono in list(r_.num) + list(r_.den) for t, _ in mono)
    except Exception:
        return False


class Interp:
    GATE_LOG = []      # every tolerance comparison any interpretation of this run met: (function, lhs, rhs, (rtol, atol), answer)
    MAX_DEPTH = 8
    MAX_LOOP = 128

    def __init__(self, program, oracle=None, config=None, intercepts=None, skip_calls=()):
        self.program = program
        self.user_oracle = oracle
        self.config = dict(config or {})
        self.intercepts = dict(intercepts or {})
        self.skip_calls = set(skip_calls)
        self.assumptions: list[str] = []
        self.depth = 0
        self.test_text = []
        self.func_stack = []
        self.envs_by_func = {}
        self.np = NPShim(self)
        self.decisions = []
        self._modglobals = {}

    # -- oracle plumbing
    def assume(self, text):
        if text not in self.assumptions:
            self.assumptions.append(text)

    def _ask1(self, cond):
        return self.ask(cond)

    def ask(self, cond, kind=bool):
        cond.text = self.test_text[-1] if self.test_text else None
        v = None
        was_generic = False
        if self.user_oracle is not None:
            v = self.user_oracle(cond, self)
        if v is None and kind is bool:
            v = self.generic(cond)
            was_generic = v is not None and cond.op in ("isclose", "==", "!=", "nonzero")
        if v is None:
            raise Undecided(cond)
        self.decisions.append((cond, v, was_generic))
        if cond.op in ("isclose", "allclose") and isinstance(cond.lhs, Rat):
            Interp.GATE_LOG.append((self.func_stack[-1].ref if self.func_stack else "?", cond.lhs, cond.rhs, getattr(cond, "tol", None) or (1e-5, 1e-8), v))
        elif cond.op == "allclose":
            for e_ in getattr(cond, "elements", None) or ():
                if isinstance(e_.lhs, Rat):
                    Interp.GATE_LOG.append((self.func_stack[-1].ref if self.func_stack else "?", e_.lhs, e_.rhs, getattr(e_, "tol", None) or (1e-5, 1e-8), v))
        return v

    def generic(self, cond):
        """generic-position defaults (logged)"""
        if cond.op in ("isclose", "allclose", "=="):
            self.assume("generic position: %s is False for non-identical values" % cond.op)
            return False
        if cond.op == "!=":
            self.assume("generic position: != is True for non-identical values")
            return True
        if cond.op == "nonzero":
            self.assume("generic position: a non-constant value is non-zero")
            return True
        if cond.op in (">", ">=", "<", "<=") and isinstance(cond.rhs, Rat) and cond.rhs.is_zero() and isinstance(cond.lhs, Rat):
            sg = _norm_like_sign(cond.lhs)
            if sg:
                self.assume("generic position: a norm/absolute value of a non-constant quantity is positive")
                pos = sg > 0
                return pos if cond.op in (">", ">=") else not pos
        if cond.op == "not":
            return not bool(cond.lhs)
        if cond.op == "and":
            return bool(cond.lhs) and bool(cond.rhs)
        if cond.op == "or":
            return bool(cond.lhs) or bool(cond.rhs)
        return None

    def pick(self, which, u, v):
        u, v = P._to_rat(u), P._to_rat(v)
        d = (u - v).const()
        if d is None:
            # a difference built from pi only (2*pi - 0 ...) is a number too
            try:
                diff = u - v
                if all(P.atom(t).kind == "sym" and P.atom(t).name == "pi" for t in diff.atoms()):
                    import math
                    d = P.evalf(diff, lambda at: math.pi)
            except Exception:
                d = None
        if d is not None:
            return (u if d >= 0 else v) if which == "max" else (u if d <= 0 else v)
        r = None
        if self.user_oracle is not None:
            c = Cond(which, u, v)
            c.text = self.test_text[-1] if self.test_text else None
            r = self.user_oracle(c, self)
        if r is None:
            # uninterpreted but symmetric: min(a, b) == min(b, a)
            a, b = sorted((u, v), key=lambda x: repr(x))
            return P.fn_atom(which, a, b)
        return u if r == 0 else v

    # -- running
    @_entry
    def run(self, func: Func, args=(), kwargs=None, self_obj=None):
        """interpret ``func``; returns its value.  Raises Raised/Unsupported/Undecided."""
        if self_obj is not None:
            args = (self_obj,) + tuple(args)
        return self.call_func(func, list(args), dict(kwargs or {}))

    @_entry
    def call_func(self, func: Func, args, kwargs, _bypass=False):
        key = func.ref
        if key in self.intercepts and not _bypass:
            return self.intercepts[key](self, args, kwargs)
        if self.depth >= self.MAX_DEPTH:
            raise Unsupported("inlining depth exceeded at %s" % func.ref)
        env = Env(func.module, func)
        a = func.node.args
        params = a.posonlyargs + a.args
        defaults = [None] * (len(params) - len(a.defaults)) + list(a.defaults)
        args = list(args)
        if len(args) > len(params) and not a.vararg:
            raise Unsupported("too many positional arguments for %s" % func.ref)
        for i, p in enumerate(params):
            if i < len(args):
                env.vars[p.arg] = args[i]
            elif p.arg in kwargs:
                env.vars[p.arg] = kwargs.pop(p.arg)
            elif defaults[i] is not None:
                env.vars[p.arg] = self.eval(defaults[i], Env(func.module, None))
            else:
                raise Unsupported("missing argument %s for %s" % (p.arg, func.ref))
        if a.vararg:
            env.vars[a.vararg.arg] = tuple(args[len(params):])
        for p, d in zip(a.kwonlyargs, a.kw_defaults):
            if p.arg in kwargs:
                env.vars[p.arg] = kwargs.pop(p.arg)
            elif d is not None:
                env.vars[p.arg] = self.eval(d, Env(func.module, None))
            else:
                raise Unsupported("missing kw-only argument %s" % p.arg)
        if a.kwarg:
            env.vars[a.kwarg.arg] = dict(kwargs)
        elif kwargs:
            raise Unsupported("unexpected keyword(s) %s for %s" % (sorted(kwargs), func.ref))
        self.depth += 1
        self.func_stack.append(func)
        try:
            r = self.exec_block(func.body(), env)
        finally:
            self.depth -= 1
            self.func_stack.pop()
        self.last_env = env
        self.envs_by_func[func.ref] = env        # locals of the most recent activation of each function
        if r is not None and r[0] is _RET:
            return r[1]
        return None

    # -- statements
    @_entry
    def exec_block(self, stmts, env):
        for st in stmts:
            r = self.exec_stmt(st, env)
            if r is not None:
                return r
        return None

    def exec_stmt(self, st, env):
        m = getattr(self, "st_" + type(st).__name__, None)
        if m is None:
            raise Unsupported("statement %s" % type(st).__name__)
        return m(st, env)

    def st_Expr(self, st, env):
        if isinstance(st.value, ast.Constant):
            return None
        self.eval(st.value, env)
        return None

    def st_Pass(self, st, env):
        return None

    def st_Return(self, st, env):
        return (_RET, self.eval(st.value, env) if st.value is not None else None)

    def st_Raise(self, st, env):
        name = "Exception"
        if st.exc is not None:
            e = st.exc
            if isinstance(e, ast.Call):
                e = e.func
            name = ast.unparse(e)
        raise Raised(name, st, self.func_stack[-1] if self.func_stack else None)

    def st_Assert(self, st, env):
        return None

    def st_Import(self, st, env):
        return None

    st_ImportFrom = st_Import

    def st_Global(self, st, env):
        raise Unsupported("global statement")

    def st_Break(self, st, env):
        return ("break",)

    def st_Continue(self, st, env):
        return ("continue",)

    def st_Assign(self, st, env):
        v = self.eval(st.value, env)
        for t in st.targets:
            self.assign(t, v, env)
        return None

    def st_AnnAssign(self, st, env):
        if st.value is not None:
            self.assign(st.target, self.eval(st.value, env), env)
        return None

    def st_AugAssign(self, st, env):
        t = st.target
        rhs = _num(unwrap(self.eval(st.value, env)))
        if isinstance(t, ast.Name):
            cur = self.load_name(t.id, env)
            if is_arr(cur):
                op = _IBINOPS.get(type(st.op))
                if op is None:
                    raise Unsupported("augmented op")
                res = op(cur, to_obj(rhs) if not isinstance(rhs, (int, Rat)) else rhs)   # in place: aliases observe it
                env.vars[t.id] = res
            else:
                env.vars[t.id] = self.binop(st.op, cur, rhs)
            return None
        if isinstance(t, ast.Subscript):
            base = self.eval(t.value, env)
            idx = self.eval_index(t.slice, env)
            arr = unwrap(base)
            if isinstance(arr, (list, dict)):
                arr[idx] = self.binop(st.op, arr[idx], rhs)
                return None
            cur = arr[idx]
            arr[idx] = self.binop(st.op, cur, rhs)
            return None
        if isinstance(t, ast.Attribute):
            obj = self.eval(t.value, env)
            cur = self.getattr(obj, t.attr, env)
            if is_arr(cur):
                op = _IBINOPS[type(st.op)]
                res = op(cur, rhs)
                self.setattr(obj, t.attr, res, env)
            else:
                self.setattr(obj, t.attr, self.binop(st.op, cur, rhs), env)
            return None
        raise Unsupported("augmented assignment target")

    def assign(self, t, v, env):
        if isinstance(t, ast.Name):
            ov = self.config.get("override_locals")
            if ov and env.func is not None and (env.func.ref, t.id) in ov:
                v = ov[(env.func.ref, t.id)]
            env.vars[t.id] = v
        elif isinstance(t, (ast.Tuple, ast.List)):
            vv = unwrap(v)
            items = list(vv) if not isinstance(vv, Rat) else None
            if items is None:
                raise Unsupported("unpacking a scalar")
            star = [i for i, e in enumerate(t.elts) if isinstance(e, ast.Starred)]
            if star:
                i = star[0]
                n_after = len(t.elts) - i - 1
                for e, x in zip(t.elts[:i], items[:i]):
                    self.assign(e, x, env)
                self.assign(t.elts[i].value, items[i:len(items) - n_after], env)
                for e, x in zip(t.elts[i + 1:], items[len(items) - n_after:]):
                    self.assign(e, x, env)
            else:
                if len(items) != len(t.elts):
                    raise Unsupported("unpacking %d values into %d targets in %s" % (len(items), len(t.elts), stmt_text(t)))
                for e, x in zip(t.elts, items):
                    self.assign(e, x, env)
        elif isinstance(t, ast.Subscript):
            base = unwrap(self.eval(t.value, env))
            idx = self.eval_index(t.slice, env)
            if is_arr(base):
                val = unwrap(v)
                if not isinstance(val, (Rat, Cond)):
                    val = to_obj(val)
                base[idx] = val
            elif isinstance(base, (list, dict)):
                base[idx] = v
            else:
                raise Unsupported("subscript store on %s" % type(base).__name__)
        elif isinstance(t, ast.Attribute):
            obj = self.eval(t.value, env)
            self.setattr(obj, t.attr, v, env)
        else:
            raise Unsupported("assignment target %s" % type(t).__name__)

    def st_If(self, st, env):
        self.test_text.append(ast.unparse(st.test))
        try:
            c = self.truth(self.eval(st.test, env))
        finally:
            self.test_text.pop()
        return self.exec_block(st.body if c else st.orelse, env)

    def truth(self, v):
        v = unwrap(v)
        if is_arr(v):
            if v.size == 1:
                return bool(v.flat[0])
            raise Unsupported("truth value of an array")
        return bool(v)

    def st_For(self, st, env):
        it = unwrap(self.eval(st.iter, env))
        if isinstance(it, Rat):
            raise Unsupported("iterating a scalar")
        count = 0
        for item in it:
            count += 1
            if count > self.MAX_LOOP:
                raise Unsupported("loop longer than %d iterations" % self.MAX_LOOP)
            self.assign(st.target, item, env)
            r = self.exec_block(st.body, env)
            if r is not None:
                if r[0] == "break":
                    break
                if r[0] == "continue":
                    continue
                return r
        else:
            if st.orelse:
                return self.exec_block(st.orelse, env)
        return None

    def st_While(self, st, env):
        count = 0
        while True:
            self.test_text.append(ast.unparse(st.test))
            try:
                c = self.truth(self.eval(st.test, env))
            finally:
                self.test_text.pop()
            if not c:
                break
            count += 1
            if count > self.config.get("max_while", 8):
                raise Unsupported("while loop not bounded by the oracle")
            r = self.exec_block(st.body, env)
            if r is not None:
                if r[0] == "break":
                    break
                if r[0] == "continue":
                    continue
                return r
        return None

    def st_Try(self, st, env):
        try:
            r = self.exec_block(st.body, env)
        except Raised as e:
            for h in st.handlers:
                names = []
                if h.type is not None:
                    names = [ast.unparse(x) for x in (h.type.elts if isinstance(h.type, ast.Tuple) else [h.type])]
                if h.type is None or e.exc_name in names or "Exception" in names:
                    r = self.exec_block(h.body, env)
                    break
            else:
                raise
        else:
            if st.orelse:
                r2 = self.exec_block(st.orelse, env)
                r = r2 if r2 is not None else r
        if st.finalbody:
            r3 = self.exec_block(st.finalbody, env)
            if r3 is not None:
                return r3
        return r

    def st_With(self, st, env):
        return self.exec_block(st.body, env)

    def st_FunctionDef(self, st, env):
        env.vars[st.name] = Func(env.module, st)
        return None

    def st_Delete(self, st, env):
        return None

    # -- expressions
    @_entry
    def eval(self, node, env):
        m = getattr(self, "ex_" + type(node).__name__, None)
        if m is None:
            raise Unsupported("expression %s" % type(node).__name__)
        return m(node, env)

    def ex_Constant(self, node, env):
        v = node.value
        if isinstance(v, float):
            return P._to_rat(v)
        return v

    def ex_JoinedStr(self, node, env):
        return "<fstring>"

    def ex_Name(self, node, env):
        return self.load_name(node.id, env)

    def module_global(self, module, name):
        key = (module.rel, name)
        pre = self.config.get("globals") or {}
        if key in pre:
            return pre[key]
        if key in self._modglobals:
            return self._modglobals[key]
        r = module.resolve_name(name)
        if r is None:
            raise Unsupported("unresolved name %s in %s" % (name, module.rel))
        v = self.resolved_value(r, name)
        self._modglobals[key] = v
        return v

    def resolved_value(self, r, name):
        if isinstance(r, Func):
            return r
        if isinstance(r, Class):
            return ClassRef(r)
        if isinstance(r, Module):
            return r
        if isinstance(r, tuple) and r[0] == "assign":
            _, mod, nm, node = r
            return self.eval(node, Env(mod, None))
        if isinstance(r, tuple) and r[0] == "ext":
            return self.external(r[1])
        raise Unsupported("cannot evaluate global %s" % name)

    def external(self, dotted):
        if dotted == "numpy":
            return self.np
        if dotted.startswith("numpy."):
            obj = self.np
            for part in dotted.split(".")[1:]:
                obj = getattr(obj, part)
            return obj
        if dotted in ("math",):
            return _MathShim(self)
        if dotted.startswith("math."):
            return getattr(_MathShim(self), dotted.split(".", 1)[1])
        if dotted.startswith("typing") or dotted in ("warnings", "datetime", "os", "pkgutil", "io"):
            return Opaque(dotted)
        if dotted.startswith("datetime") or dotted.startswith("os."):
            return Opaque(dotted)
        raise Unsupported("external name %s" % dotted)

    _BUILTINS = None

    def load_name(self, name, env):
        if name in env.vars:
            return env.vars[name]
        if name in ("True", "False", "None"):
            return {"True": True, "False": False, "None": None}[name]
        r = env.module.resolve_name(name)
        if r is not None:
            return self.module_global(env.module, name)
        b = self.builtins().get(name)
        if b is not None:
            return b
        if name == "__name__":
            return env.module.rel[:-3].replace("/", ".")
        raise Unsupported("unknown name %s" % name)

    def builtins(self):
        if self._BUILTINS is None:
            it = self

            def b_len(x):
                x = unwrap(x)
                if isinstance(x, Rat):
                    raise Unsupported("len() of scalar")
                return len(x)

            def b_isinstance(x, types):
                return it.isinstance(x, types)

            def b_float(x=0.0):
                x = unwrap(x)
                if isinstance(x, str):
                    return P._to_rat(float(x))
                return _num(x) if not is_arr(x) else x.flat[0]

            def b_int(x=0):
                x = unwrap(x)
                if isinstance(x, Rat):
                    c = x.const()
                    if c is None:
                        raise Unsupported("int() of abstract value")
                    return int(c)
                return int(x)

            def b_abs(x):
                x = _num(unwrap(x))
                if isinstance(x, Rat):
                    return P.absf(x)
                if is_arr(x):
                    return rat_map(P.absf, x)
                return abs(x)

            def b_any(x):
                return any(it.truth(v) for v in unwrap(x))

            def b_all(x):
                return all(it.truth(v) for v in unwrap(x))

            def b_sum(x, start=0):
                tot = start
                for v in unwrap(x):
                    tot = tot + v
                return tot

            def b_minmax(which):
                def f(*a, **kw):
                    if len(a) == 1:
                        a = list(unwrap(a[0]))
                    a = [_num(unwrap(v)) for v in a]
                    if all(isinstance(v, (int, Fraction)) for v in a):
                        return max(a) if which == "max" else min(a)
                    cur = P._to_rat(a[0])
                    for v in a[1:]:
                        cur = it.pick(which, cur, P._to_rat(v))
                    return cur
                return f

            def b_type(x):
                x = unwrap(x)
                return type(x)

            def b_hasattr(o, name):
                try:
                    it.getattr(o, name, None)
                    return True
                except (Unsupported, AttributeError):
                    return False

            def b_getattr(o, name, *default):
                try:
                    return it.getattr(o, name, None)
                except (Unsupported, AttributeError):
                    if default:
                        return default[0]
                    raise

            def b_round(x, n=0):
                x = unwrap(x)
                if isinstance(x, Rat) and x.const() is None:
                    raise Unsupported("round() of abstract value")
                return P._to_rat(round(float(x), n))

            self._BUILTINS = {
                "len": b_len, "range": range, "isinstance": b_isinstance, "float": b_float, "int": b_int,
                "abs": b_abs, "any": b_any, "all": b_all, "sum": b_sum, "min": b_minmax("min"), "max": b_minmax("max"),
                "list": lambda x=(): list(unwrap(x)), "tuple": lambda x=(): tuple(unwrap(x)), "zip": zip,
                "enumerate": lambda x, start=0: enumerate(unwrap(x), start), "print": lambda *a, **k: None,
                "type": b_type, "str": str, "bool": lambda x=False: it.truth(x), "hasattr": b_hasattr,
                "getattr": b_getattr, "dict": dict, "set": set, "sorted": sorted, "reversed": reversed,
                "round": b_round, "ValueError": "ValueError", "TypeError": "TypeError", "map": map,
                "super": "super", "object": object, "complex": complex, "NotImplemented": NotImplemented,
                "callable": callable, "repr": repr, "divmod": divmod, "slice": slice, "filter": filter, "bytes": bytes, "pow": lambda a, b: it.binop(ast.Pow(), a, b),
            }
            self._type_alias = {id(self._BUILTINS[n]): t for n, t in (("float", float), ("int", int), ("list", list), ("tuple", tuple), ("bool", bool))}
        return self._BUILTINS

    def isinstance(self, x, types):
        if not isinstance(types, tuple):
            types = (types,)
        alias = getattr(self, "_type_alias", {})
        types = tuple(alias.get(id(t), t) if callable(t) and not isinstance(t, type) else t for t in types)
        x0 = x
        x = unwrap(x)
        for t in types:
            if isinstance(t, ClassRef):
                if isinstance(x0, Obj) and t.cls in x0.cls.mro():
                    return True
                continue
            if t is np.ndarray:
                if is_arr(x):
                    return True
                continue
            if t in (float, int, complex):
                if isinstance(x, Rat):
                    # literal ints stay python ints; abstract scalars are "float"
                    if t is float:
                        return True
                    if t is int:
                        continue
                if isinstance(x, bool):
                    if t is int:
                        return True
                    continue
                if isinstance(x, int) and t is int:
                    return True
                continue
            if t is bool:
                if isinstance(x, bool):
                    return True
                continue
            if isinstance(t, type):
                if isinstance(x, t):
                    return True
                continue
            if isinstance(t, Opaque):
                continue
            raise Unsupported("isinstance against %r" % (t,))
        return False

    def ex_Attribute(self, node, env):
        # np.linalg.norm etc. and module attribute chains
        v = self.eval(node.value, env)
        return self.getattr(v, node.attr, env)

    _ARR_ATTRS = {"T", "shape", "ndim", "size", "flat"}
    _ARR_METHODS = {"trace", "flatten", "copy", "transpose", "reshape", "tolist", "ravel", "squeeze", "dot",
                    "sum", "swapaxes", "prod", "repeat", "take"}

    @_entry
    def getattr(self, v, name, env):
        if isinstance(v, Obj):
            if name in v.attrs:
                return v.attrs[name]
            f = v.cls.lookup(name)
            if f is not None:
                if f.is_property:
                    return self.call_func(f, [v], {})
                if f.is_classmethod:
                    return Bound(ClassRef(v.cls), f)
                if f.is_static:
                    return f
                return Bound(v, f)
            ca = v.cls.lookup_attr(name)
            if ca is not None:
                return self.eval(ca[1], Env(ca[0].module, None))
            if v.data is not None:
                return self.getattr(v.data, name, env)
            if name == "__dict__":
                return v.attrs
            raise Unsupported("attribute %s.%s not set on this path" % (v.cls.name, name))
        if isinstance(v, ClassRef):
            f = v.cls.lookup(name)
            if f is not None:
                if f.is_classmethod:
                    return Bound(v, f)
                return f
            ca = v.cls.lookup_attr(name)
            if ca is not None:
                return self.eval(ca[1], Env(ca[0].module, None))
            if name == "__name__":
                return v.cls.name
            raise Unsupported("class attribute %s.%s" % (v.cls.name, name))
        if isinstance(v, Module):
            return self.module_global(v, name)
        if isinstance(v, (NPShim, _Linalg, _MathShim)):
            return getattr(v, name)
        if isinstance(v, SuperRef):
            mro = v.obj.cls.mro() if isinstance(v.obj, Obj) else v.cls.mro()
            after = mro[mro.index(v.cls) + 1:] if v.cls in mro else []
            for c in after:
                if name in c.methods:
                    return Bound(v.obj, c.methods[name])
            if name in ("__new__", "__init__"):
                return ("super_builtin", name, v)
            raise Unsupported("super().%s" % name)
        if is_arr(v):
            if name in self._ARR_ATTRS:
                return getattr(v, name)
            if name == "real":
                return v
            if name in self._ARR_METHODS:
                return getattr(v, name)
            if name == "argmax":
                return lambda *a, **k: self.np.argmax(v)
            if name == "argmin":
                return lambda *a, **k: self.np.argmin(v)
            if name == "any":
                return lambda *a, **k: self.np.any(v)
            if name == "all":
                return lambda *a, **k: self.np.all(v)
            if name == "astype":
                return lambda *a, **k: v.copy()
            if name == "conj" or name == "conjugate":
                return lambda: v
            if name == "mean":
                return lambda axis=None: self.np.mean(v, axis=axis)
            if name in ("min", "max"):
                def red(axis=None, which=name):
                    arr = v if axis is None else np.moveaxis(v, axis, 0)
                    if axis is None:
                        items = list(arr.flat)
                        out = items[0]
                        for x in items[1:]:
                            out = self.pick(which, out, x)
                        return out
                    out = arr[0].copy() if is_arr(arr[0]) else arr[0]
                    for k in range(1, arr.shape[0]):
                        out = rat_map(lambda a_, b_: self.pick(which, a_, b_), out, arr[k])
                    return out
                return red
            if name == "fill":
                def _fill(value, v=v):
                    val = unwrap(value)
                    val = val if isinstance(val, Rat) else P._to_rat(val)
                    for idx in np.ndindex(v.shape):
                        v[idx] = val
                    return None
                return _fill
            if name == "flags":
                # x.flags.writeable = False and friends: no effect on values (a later write to a read-only array is the program's own error)
                import types as _types
                return _types.SimpleNamespace(writeable=True, c_contiguous=True, f_contiguous=False, owndata=True)
            if name == "view":
                # x.view(subtype): an instance of the subclass over the same values (view casting, the other way next to ndarray.__new__ to make the instance);
                # x.view(np.ndarray) / x.view(): the plain array
                def _view(*a, v=v, **k):
                    t = a[0] if a else k.get("type")
                    if isinstance(t, ClassRef):
                        return Obj(t.cls, to_obj(v))
                    return v
                return _view
            raise Unsupported("ndarray.%s" % name)
        if isinstance(v, Rat):
            if name == "real":
                return v
            if name == "copy":
                return lambda: v
            if name in ("ndim",):
                return 0
            if name == "shape":
                return ()
            if name == "size":
                return 1
            raise Unsupported("scalar.%s" % name)
        if isinstance(v, _SAFE_NATIVE) or isinstance(v, (float, Fraction)):
            if isinstance(v, (int, bool)) and name in ("ndim",):
                return 0
            return getattr(v, name)
        if isinstance(v, Opaque):
            return Opaque(v.what + "." + name)
        if getattr(v, "_avn_native", False):
            return getattr(v, name)
        if isinstance(v, Func):
            raise Unsupported("attribute of function")
        if isinstance(v, type):
            return getattr(v, name)
        raise Unsupported("attribute %s of %s" % (name, type(v).__name__))

    def setattr(self, obj, name, v, env):
        if isinstance(obj, Obj):
            s = obj.cls.lookup_setter(name)
            if s is not None:
                self.call_func(s, [obj, v], {})
                return
            obj.attrs[name] = v
            return
        import types as _types
        if isinstance(obj, _types.SimpleNamespace):
            return          # ndarray.flags.<x> = ...: no effect on values
        raise Unsupported("attribute store on %s" % type(obj).__name__)

    def eval_index(self, node, env):
        if isinstance(node, ast.Tuple):
            return tuple(self.eval_index(e, env) for e in node.elts)
        if isinstance(node, ast.Slice):
            def g(x):
                if x is None:
                    return None
                v = self.eval(x, env)
                return int(v) if isinstance(v, Rat) else v
            return slice(g(node.lower), g(node.upper), g(node.step))
        v = unwrap(self.eval(node, env))
        if isinstance(v, Rat):
            c = v.const()
            if c is None or c.denominator != 1:
                raise Unsupported("abstract value used as index")
            return int(c)
        if is_arr(v) and v.dtype == object:
            # boolean / integer masks from conditions
            try:
                return np.array([int(x) if not isinstance(x, bool) else x for x in v.flat]).reshape(v.shape)
            except (TypeError, Undecided):
                return np.array([bool(x) for x in v.flat]).reshape(v.shape)
        return v

    def ex_Subscript(self, node, env):
        base = unwrap(self.eval(node.value, env))
        if isinstance(base, _CClass):
            elts = node.slice.elts if isinstance(node.slice, ast.Tuple) else [node.slice]
            vals = [self.eval(e, env) for e in elts]
            if len(vals) == 1 and isinstance(unwrap(vals[0]), tuple):
                vals = list(unwrap(vals[0]))          # np.c_[f(...)] where f returns a tuple of columns: NumPy unpacks it the same way
            return base[tuple(vals)]
        idx = self.eval_index(node.slice, env)
        if isinstance(base, Opaque):
            return Opaque(base.what + "[]")
        if isinstance(base, Rat):
            raise Unsupported("subscript of a scalar in %s" % ast.unparse(node))
        try:
            return base[idx]
        except (IndexError, KeyError, TypeError) as e:
            raise Unsupported("subscript %s failed: %s" % (ast.unparse(node), e))

    def ex_Slice(self, node, env):
        return self.eval_index(node, env)

    def ex_Tuple(self, node, env):
        return tuple(self._elts(node.elts, env))

    def ex_List(self, node, env):
        return self._elts(node.elts, env)

    def ex_Set(self, node, env):
        return set(self._elts(node.elts, env))

    def _elts(self, elts, env):
        out = []
        for e in elts:
            if isinstance(e, ast.Starred):
                v = unwrap(self.eval(e.value, env))
                if isinstance(v, Rat):
                    raise Unsupported("splat of scalar")
                out.extend(list(v))
            else:
                out.append(self.eval(e, env))
        return out

    def ex_Dict(self, node, env):
        d = {}
        for k, v in zip(node.keys, node.values):
            if k is None:
                d.update(self.eval(v, env))
            else:
                d[self.eval(k, env)] = self.eval(v, env)
        return d

    def ex_IfExp(self, node, env):
        self.test_text.append(ast.unparse(node.test))
        try:
            c = self.truth(self.eval(node.test, env))
        finally:
            self.test_text.pop()
        return self.eval(node.body if c else node.orelse, env)

    def ex_BoolOp(self, node, env):
        if isinstance(node.op, ast.And):
            v = True
            for e in node.values:
                v = self.eval(e, env)
                if not self.truth(v):
                    return v
            return v
        v = False
        for e in node.values:
            v = self.eval(e, env)
            if self.truth(v):
                return v
        return v

    def ex_UnaryOp(self, node, env):
        v = unwrap(self.eval(node.operand, env))
        if isinstance(node.op, ast.Not):
            return not self.truth(v)
        if isinstance(node.op, ast.USub):
            return -_num(v)
        if isinstance(node.op, ast.UAdd):
            return v
        if isinstance(node.op, ast.Invert):
            if is_arr(v):
                out = np.empty(v.shape, dtype=object)
                for idx, x in np.ndenumerate(v):
                    out[idx] = (not x) if isinstance(x, (bool, np.bool_)) else ~x
                return out
            if isinstance(v, (bool, np.bool_)):
                return not v
            return ~v
        raise Unsupported("unary op")

    def binop(self, op, a, b):
        a, b = _num(unwrap(a)), _num(unwrap(b))
        f = _BINOPS.get(type(op))
        if f is None:
            raise Unsupported("binary op %s" % type(op).__name__)
        if isinstance(op, ast.Div) and isinstance(a, int) and isinstance(b, int) and not isinstance(a, bool):
            return P.const(Fraction(a, b))
        if isinstance(op, ast.Mod) and isinstance(a, Rat) and a.const() is None:
            # x % m is x up to whole turns only when m is one full turn *in the unit x is expressed in*:
            # for x = c * <inverse trigonometric value> the turn is 2*pi*c (c = 1: radians, c = 180/pi: degrees)
            turn = _full_turn(a)
            m = b if isinstance(b, Rat) else P.const(Fraction(b).limit_denominator(10 ** 12)) if isinstance(b, (int, float)) else None
            if turn is not None and m is not None and not (turn - m).is_zero() and not _close_const(turn, m):
                self.mod_mismatch = getattr(self, "mod_mismatch", []) + [(a, m, turn)]
                return P.fn("mod", a, m)
            self.assume("x % (one full turn) treated as x (only used as an argument of periodic functions)")
            return a
        if isinstance(op, ast.Pow) and is_arr(a) and a.ndim == 2 and a.shape[0] == a.shape[1] and a.shape[0] > 1 \
                and not is_arr(b):
            self.elementwise_matrix_power = True
        if isinstance(op, ast.Pow) and isinstance(a, int) and isinstance(b, int) and b < 0:
            return P.const(Fraction(a) ** b)
        if isinstance(a, list) and is_arr(b):
            a = to_obj(a)
        if isinstance(b, list) and is_arr(a) and not isinstance(op, ast.Add):
            b = to_obj(b)
        if isinstance(a, (list, tuple)) and isinstance(b, (Rat,)) or isinstance(b, (list, tuple)) and isinstance(a, (Rat,)):
            a, b = (to_obj(a) if isinstance(a, (list, tuple)) else a), (to_obj(b) if isinstance(b, (list, tuple)) else b)
        try:
            return f(a, b)
        except ZeroDivisionError:
            raise Unsupported("division by exact zero in analysed code")
        except TypeError as e:
            raise Unsupported("binary op %s on %s,%s: %s" % (type(op).__name__, type(a).__name__, type(b).__name__, e))

    def ex_BinOp(self, node, env):
        return self.binop(node.op, self.eval(node.left, env), self.eval(node.right, env))

    def ex_Compare(self, node, env):
        left = _num(unwrap(self.eval(node.left, env)))
        result = True
        for op, rn in zip(node.ops, node.comparators):
            right = _num(unwrap(self.eval(rn, env)))
            if isinstance(op, ast.Is):
                r = left is right
            elif isinstance(op, ast.IsNot):
                r = left is not right
            elif isinstance(op, ast.In):
                r = self._contains(right, left)
            elif isinstance(op, ast.NotIn):
                r = not self._contains(right, left)
            else:
                f = _CMPOPS[type(op)]
                if isinstance(left, (str, type(None))) or isinstance(right, (str, type(None))):
                    r = f(left, right) if not (isinstance(left, Rat) or isinstance(right, Rat)) else isinstance(op, ast.NotEq)
                else:
                    r = f(left, right)
            if len(node.ops) == 1:
                return r
            if not self.truth(r):
                return False
            left = right
        return result

    def _contains(self, container, item):
        container = unwrap(container)
        if isinstance(item, Rat):
            c = item.const()
            if c is None:
                raise Unsupported("membership test of abstract value")
            item = int(c) if c.denominator == 1 else float(c)
        if isinstance(container, dict):
            return item in container
        for x in container:
            if isinstance(x, Rat):
                xc = x.const()
                if xc is not None and xc == item:
                    return True
            elif x == item:
                return True
        return False

    def ex_Lambda(self, node, env):
        it = self

        def f(*args):
            e2 = Env(env.module, env.func)
            e2.vars = dict(env.vars)
            for p, a in zip(node.args.args, args):
                e2.vars[p.arg] = a
            return it.eval(node.body, e2)
        return f

    def _comp(self, node, env, elt_fn):
        out = []

        def rec(gens, e):
            if not gens:
                out.append(elt_fn(e))
                return
            g = gens[0]
            for item in unwrap(self.eval(g.iter, e)):
                e2 = Env(e.module, e.func)
                e2.vars = dict(e.vars)
                self.assign(g.target, item, e2)
                if all(self.truth(self.eval(c, e2)) for c in g.ifs):
                    rec(gens[1:], e2)
        rec(node.generators, env)
        return out

    def ex_ListComp(self, node, env):
        return self._comp(node, env, lambda e: self.eval(node.elt, e))

    def ex_DictComp(self, node, env):
        pairs = self._comp(node, env, lambda e: (self.eval(node.key, e), self.eval(node.value, e)))
        return dict(pairs)

    def ex_SetComp(self, node, env):
        return set(self._comp(node, env, lambda e: self.eval(node.elt, e)))

    def ex_GeneratorExp(self, node, env):
        return _Gen(self._comp(node, env, lambda e: self.eval(node.elt, e)))

    def ex_Starred(self, node, env):
        raise Unsupported("bare starred expression")

    def ex_Call(self, node, env):
        fnode = node.func
        # super(...).__new__ / super().__init__
        args = []
        for a in node.args:
            if isinstance(a, ast.Starred):
                args.extend(list(unwrap(self.eval(a.value, env))))
            else:
                args.append(self.eval(a, env))
        kwargs = {}
        for k in node.keywords:
            if k.arg is None:
                kwargs.update(self.eval(k.value, env))
            else:
                kwargs[k.arg] = self.eval(k.value, env)
        text = ast.unparse(fnode)
        if text in self.intercepts:
            return self.intercepts[text](self, args, kwargs)
        if text in self.skip_calls:
            return None
        if isinstance(fnode, ast.Name) and fnode.id == "super" and fnode.id not in env.vars:
            cls = env.func.cls if env.func else None
            if args:
                cls = args[0].cls if isinstance(args[0], ClassRef) else cls
                obj = args[1] if len(args) > 1 else None
            else:
                obj = env.vars.get(env.func.params[0]) if env.func and env.func.params else None
            return SuperRef(cls, obj)
        f = self.eval(fnode, env)
        return self.call_value(f, args, kwargs, node, env)

    @_entry
    def call_value(self, f, args, kwargs, node=None, env=None):
        if isinstance(f, Func):
            if self.is_skippable(f):
                return None
            return self.call_func(f, args, kwargs)
        if isinstance(f, Bound):
            if self.is_skippable(f.func):
                return None
            return self.call_func(f.func, [f.obj] + list(args), kwargs)
        if isinstance(f, ClassRef):
            return self.instantiate(f.cls, args, kwargs)
        if isinstance(f, tuple) and f and f[0] == "super_builtin":
            _, name, sref = f
            if name == "__new__":
                subtype = args[0]
                cls = subtype.cls if isinstance(subtype, ClassRef) else sref.cls
                data = None
                if len(args) >= 4:
                    data = to_obj(unwrap(args[3]))
                elif "buffer" in kwargs:
                    data = to_obj(unwrap(kwargs["buffer"]))
                return Obj(cls, data)
            return None
        if isinstance(f, Opaque):
            raise Unsupported("call of unmodelled external %s" % f.what)
        if f is None:
            raise Unsupported("call of None")
        if isinstance(f, str):
            raise Unsupported("call of exception type %s as value" % f)
        if callable(f):
            try:
                return f(*args, **kwargs)
            except (Unsupported, Undecided, Raised, Stop):
                raise
            except (TypeError, ValueError, IndexError, AttributeError) as e:
                raise Unsupported("native call %s failed: %s" % (getattr(f, "__name__", f), e))
        raise Unsupported("call of %s" % type(f).__name__)

    def is_skippable(self, f: Func):
        if f.ref in self.skip_calls or f.name in self.skip_calls:
            return True
        if self.config.get("skip_validators", True) and f.name.startswith("_assert") and is_validator(f):
            return True
        return False

    @_entry
    def instantiate(self, cls: Class, args, kwargs):
        key = cls.ref
        if key in self.intercepts:
            return self.intercepts[key](self, args, kwargs)
        new = cls.lookup("__new__")
        init = cls.lookup("__init__")
        if new is not None:
            obj = self.call_func(new, [ClassRef(cls)] + list(args), dict(kwargs))
            if isinstance(obj, Obj) and init is not None and cls in obj.cls.mro():
                self.call_func(init, [obj] + list(args), dict(kwargs))
            return obj
        obj = Obj(cls)
        if init is not None:
            self.call_func(init, [obj] + list(args), dict(kwargs))
        return obj

    # -- convenience for obligations
    def make_obj(self, cls_ref, data=None, **attrs):
        o = Obj(self.program.cls(cls_ref), data)
        o.attrs.update(attrs)
        return o


def _norm_like_sign(r):
    """+1/-1 if r is (rational constant) * product of sqrt/abs atoms divided by such a product, else 0"""
    def mono_sign(p):
        if len(p) != 1:
            return 0
        (m, c), = p.items()
        for a, e in m:
            at = P.atom(a)
            if not (at.kind == "fn" and at.name in ("sqrt", "abs")):
                return 0
        return 1 if c > 0 else -1
    a, b = mono_sign(r.num), mono_sign(r.den)
    if P.p_is_const(r.den):
        b = 1 if r.den[P.ONE_M] > 0 else -1
    if not a or not b or P.p_is_const(r.num):
        return 0
    return a * b


class _Gen(list):
    """materialised generator expression (remembered so np.sum(<generator>) can be flagged)"""


class _MathShim:
    def __init__(self, it):
        self.it = it
        self.pi = P.PI

    def factorial(self, n):
        import math
        return math.factorial(int(n))

    def sqrt(self, x):
        return P.sqrt(P._to_rat(x))

    def sin(self, x):
        return P.sin(P._to_rat(x))

    def cos(self, x):
        return P.cos(P._to_rat(x))

    def __getattr__(self, name):
        raise Unsupported("math.%s" % name)


def is_validator(f: Func) -> bool:
    """a function that can only raise or return None and stores nothing outside its locals"""
    for n in ast.walk(f.node):
        if isinstance(n, ast.Return) and n.value is not None and not (isinstance(n.value, ast.Constant) and n.value.value is None):
            return False
        if isinstance(n, (ast.Assign, ast.AugAssign, ast.AnnAssign)):
            targets = n.targets if isinstance(n, ast.Assign) else [n.target]
            for t in targets:
                for s in ast.walk(t):
                    if isinstance(s, (ast.Attribute, ast.Subscript)):
                        return False
        if isinstance(n, ast.Call) and isinstance(n.func, ast.Attribute) and n.func.attr in ("__setattr__", "setattr"):
            return False
    return True


# --------------------------------------------------------------------------- symbolic inputs

def sym_vec(prefix, n, names=None, sub=None):
    """vector of fresh symbols; ``sub`` maps symbol name -> constant (degenerate-arm exploration)"""
    names = names or [str(i) for i in range(n)]
    out = np.empty((n,), dtype=object)
    for i in range(n):
        nm = "%s%s" % (prefix, names[i])
        out[i] = P.const(sub[nm]) if sub and nm in sub else P.sym(nm)
    return out


def sym_mat(prefix, r, c):
    out = np.empty((r, c), dtype=object)
    for i in range(r):
        for j in range(c):
            out[i, j] = P.sym("%s%d%d" % (prefix, i, j))
    return out


def unit_syms(prefix):
    """a unit quaternion as four plain symbols with the declared relation w^2 = 1 - x^2 - y^2 - z^2 (cheap representation)"""
    a = sym_vec(prefix, 4, "wxyz")
    P.declare_unit(list(a))
    return a


def unit_vec(prefix, n=3):
    """a unit n-vector of plain symbols with the declared relation v0^2 = 1 - sum(v_i^2)"""
    a = sym_vec(prefix, n)
    P.declare_unit(list(a))
    return a


def unit_quat(prefix):
    """a unit quaternion as a normalised free 4-vector: needs only sqrt(s)^2 -> s"""
    a = sym_vec(prefix, 4, "wxyz")
    n = vec_norm(a)
    return a / n


def arr_same(a, b):
    a, b = to_obj(a), to_obj(b)
    if not is_arr(a) and not is_arr(b):
        return a.same(b)
    a, b = np.asarray(a, dtype=object), np.asarray(b, dtype=object)
    if a.shape != b.shape:
        return False
    return all(x.same(y) for x, y in zip(a.flat, b.flat))
