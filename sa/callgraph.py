"""Resolved call graph over the program model (self methods through the MRO, module functions, constructors,
methods/properties of locals typed by a constructor call, unbound Class.method calls)."""
from __future__ import annotations

import ast

from .model import Func, Class, Module, Program


def local_types(f: Func):
    types, bad = {}, set()
    for n in ast.walk(f.node):
        if isinstance(n, ast.Assign) and len(n.targets) == 1 and isinstance(n.targets[0], ast.Name) and isinstance(n.value, ast.Call):
            try:
                r = f.module.resolve_name(ast.unparse(n.value.func)) if isinstance(n.value.func, (ast.Name, ast.Attribute)) else None
            except Exception:
                r = None
            nm = n.targets[0].id
            if isinstance(r, Class):
                if nm in types and types[nm] is not r:
                    bad.add(nm)
                types[nm] = r
    for b in bad:
        types.pop(b, None)
    return types


def ctor_funcs(c: Class):
    return [m for m in (c.lookup("__new__"), c.lookup("__init__")) if m is not None]


def call_sites(f: Func):
    """yield (call node | attribute node, [callee Func], explicit_params:set|None) for every resolvable call/property read in f"""
    self_name = f.params[0] if f.cls is not None and not f.is_static and f.params else None
    types = local_types(f)
    called_funcs = set()
    for n in ast.walk(f.node):
        if isinstance(n, ast.Call):
            fn = n.func
            targets = []
            skip_first = False
            if isinstance(fn, ast.Attribute) and isinstance(fn.value, ast.Name) and fn.value.id == self_name and f.cls is not None:
                m = f.cls.lookup(fn.attr)
                if m is not None:
                    targets = [m]
                    skip_first = True
            elif isinstance(fn, ast.Attribute) and isinstance(fn.value, ast.Name) and fn.value.id in types:
                m = types[fn.value.id].lookup(fn.attr)
                if m is not None:
                    targets = [m]
                    skip_first = True
            elif isinstance(fn, (ast.Name, ast.Attribute)):
                try:
                    r = f.module.resolve_name(ast.unparse(fn))
                except Exception:
                    r = None
                if isinstance(r, Func):
                    targets = [r]
                elif isinstance(r, Class):
                    targets = ctor_funcs(r)
                    skip_first = True
            if targets:
                called_funcs.add(id(fn))
                for t in targets:
                    yield n, t, explicit_params(n, t, skip_first)
    # property reads
    for n in ast.walk(f.node):
        if isinstance(n, ast.Attribute) and id(n) not in called_funcs and isinstance(n.value, ast.Name):
            c = f.cls if n.value.id == self_name else types.get(n.value.id)
            if c is not None:
                m = c.lookup(n.attr)
                if m is not None and m.is_property:
                    yield n, m, set()


def explicit_params(call: ast.Call, callee: Func, skip_first):
    """names of callee parameters that receive an explicit argument at this call"""
    a = callee.node.args
    params = [p.arg for p in a.posonlyargs + a.args]
    if callee.cls is not None and not callee.is_static and (skip_first or callee.is_classmethod):
        params = params[1:]
    out = set()
    for p, arg in zip(params, call.args):
        if isinstance(arg, ast.Starred):
            break
        if not (isinstance(arg, ast.Constant) and arg.value is None):
            out.add(p)
    for k in call.keywords:
        if k.arg and not (isinstance(k.value, ast.Constant) and k.value.value is None):
            out.add(k.arg)
    return out


def conditional_call_ids(f: Func):
    """ids of Call nodes nested under an `if` whose test inspects an option (kwargs / isinstance of an argument)"""
    out = set()
    for n in ast.walk(f.node):
        if isinstance(n, ast.If):
            t = ast.unparse(n.test)
            if "kwargs" in t or "kw." in t or "isinstance(" in t:
                for b in n.body:
                    for c in ast.walk(b):
                        if isinstance(c, ast.Call):
                            out.add(id(c))
    return out


def reachable(f: Func, follow=lambda callee: True, limit=400, skip_edges=(), skip_conditional_to=()):
    """transitive callees of f (including f): dict ref -> (Func, path); skip_edges = {(caller qname, callee qname)}"""
    out = {f.ref: (f, [f.qname])}
    work = [f]
    while work and len(out) < limit:
        cur = work.pop()
        cond_ids = conditional_call_ids(cur) if skip_conditional_to else ()
        for node, callee, _ in call_sites(cur):
            if (cur.qname, callee.qname) in skip_edges:
                continue
            if callee.qname in skip_conditional_to and id(node) in cond_ids:
                continue
            if callee.ref not in out and follow(callee):
                out[callee.ref] = (callee, out[cur.ref][1] + [callee.qname])
                work.append(callee)
    return out
