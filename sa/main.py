"""CLI: ./check <Cxx> [--tier quick|thorough]"""
import importlib
import os
import sys
import traceback

HERE = os.path.dirname(os.path.abspath(__file__))
sys.path.insert(0, os.path.dirname(HERE))
sys.setrecursionlimit(10000)


def main(argv):
    if not argv:
        print("usage: check <Cxx> [--tier quick|thorough]")
        return 2
    pid = argv[0].upper()
    tier = os.environ.get("VERIF_TIER", "quick")
    if "--tier" in argv:
        tier = argv[argv.index("--tier") + 1]
    if tier not in ("quick", "thorough"):
        tier = "quick"
    # watchdog: an abstract interpretation that does not terminate in reasonable time is an analysis failure, never a verdict
    import signal

    def _timeout(signum, frame):
        print("ANALYSIS-ERROR property=%s analysis did not finish within the time limit" % pid)
        sys.stdout.flush()
        os._exit(2)
    signal.signal(signal.SIGALRM, _timeout)
    signal.alarm(int(os.environ.get("VERIF_TIMEOUT", "900" if tier == "quick" else "3600")))
    from sa.report import Check
    from sa.model import Program, AnalysisError
    chk = Check(pid, tier)
    try:
        prog = Program()
        chk.program = prog
        mod = importlib.import_module("props.%s" % pid.lower())
        from sa import lints
        try:
            explanation = mod.run(chk, prog, tier)
        except AnalysisError as e:
            # the property's own engine could not go on; the shape lints below are independent of it and still run
            chk.error("analysis aborted: %s" % e)
            explanation = None
        except Exception as e:
            # an obligation outside the decidable fragment escaped its guard: no verdict from the rest of the module, but what was already found stands
            traceback.print_exc()
            chk.error("analysis aborted by %s: %s" % (type(e).__name__, str(e)[:120]))
            explanation = None
        extra = list(getattr(mod, "LINT_EXTRA_FILES", ()))
        if tier == "thorough":
            # thorough: the shape lints also cover every module the property's obligations touched (callees outside the anchor files)
            extra += [m_ for m_ in sorted(chk.analysed.get("modules", ())) if m_.endswith(".py")]
        lints.run_for(chk, prog, pid, extra_files=extra)
        lints.gate_report(chk, pid)
        explanation = (explanation or mod.__doc__ or pid) + "\n\nShared lints run on this property's anchor files (sa/lints.py):\n" + lints.__doc__
        return chk.finish(explanation)
    except AnalysisError as e:
        print("ANALYSIS-ERROR property=%s %s" % (pid, e))
        try:
            chk.errors.append(str(e))
            chk.finish("analysis aborted: %s" % e)
        except Exception:
            pass
        return 2
    except Exception:
        traceback.print_exc()
        print("ANALYSIS-ERROR property=%s internal error in the analyser" % pid)
        return 2


if __name__ == "__main__":
    code = main(sys.argv[1:])
    sys.stdout.flush()
    os._exit(code)
