"""Verdict plumbing: obligations, findings, known findings, evidence, exit codes."""
from __future__ import annotations

import json
import os
import sys
import time
import traceback

from .model import AnalysisError, Program, stmt_text
from .poly import Undecided, TooBig

VERIF = os.path.dirname(os.path.dirname(os.path.abspath(__file__)))
KNOWN_FILE = os.path.join(VERIF, "known_findings.json")

HOLDS, VIOLATION, UNKNOWN = "HOLDS", "VIOLATION", "UNKNOWN"


class Finding:
    def __init__(self, prop, rule, module, function, construct, what, line=None, extra=None):
        self.prop, self.rule, self.module, self.function = prop, rule, module, function
        self.construct, self.what, self.line, self.extra = construct, what, line, extra or {}

    def key(self):
        return (self.prop, self.rule, self.module, self.function, self.construct)

    def as_dict(self):
        d = {"property": self.prop, "rule": self.rule, "module": self.module, "function": self.function,
             "construct": self.construct, "what": self.what}
        if self.line:
            d["line"] = self.line
        if self.extra:
            d["extra"] = self.extra
        return d

    def where(self):
        return "%s:%s %s" % (self.module, self.line or "?", self.function)


def load_known():
    if not os.path.exists(KNOWN_FILE):
        return []
    with open(KNOWN_FILE) as f:
        return json.load(f)["findings"]


class Check:
    def __init__(self, pid, tier="quick", program: Program | None = None, quiet=False):
        self.pid, self.tier, self.quiet = pid, tier, quiet
        self.t0 = time.time()
        self.program = program
        self.obligations = []     # dicts
        self.findings: list[Finding] = []
        self.errors: list[str] = []
        self.assumptions: list[str] = []
        self.notes: list[str] = []
        self.counts: dict[str, int] = {}
        self.canaries = []
        self.analysed = {"functions": set(), "modules": set()}

    # -- logging
    def say(self, *a):
        if not self.quiet:
            print(*a)
            sys.stdout.flush()

    def touch(self, func):
        """record that a function was analysed"""
        try:
            self.analysed["functions"].add(func.ref)
            self.analysed["modules"].add(func.module.rel)
        except AttributeError:
            self.analysed["functions"].add(str(func))

    def assume(self, text):
        if text not in self.assumptions:
            self.assumptions.append(text)

    def count(self, rule, n=1):
        self.counts[rule] = self.counts.get(rule, 0) + n

    def require_count(self, rule, minimum):
        got = self.counts.get(rule, 0)
        if got < minimum:
            self.error("rule %s matched %d instances, fewer than the %d confirmed by hand" % (rule, got, minimum))

    def error(self, msg):
        self.errors.append(msg)
        self.say("ANALYSIS-ERROR property=%s %s" % (self.pid, msg))

    # -- obligations
    def ob(self, rule, site, law, fn, module=None, function=None, construct=None, line=None):
        """Run one obligation.  fn() -> True | (False, detail) ; may raise AnalysisError/Undecided/TooBig (UNKNOWN)."""
        t = time.time()
        rec = {"rule": rule, "site": site, "law": law}
        try:
            r = fn()
            if r is True or r is None:
                rec["verdict"] = HOLDS
            elif isinstance(r, tuple) and r[0] is True:
                rec["verdict"] = HOLDS
                rec["detail"] = r[1]
            elif isinstance(r, tuple) and r[0] is None:
                rec["verdict"] = UNKNOWN
                rec["detail"] = r[1]
                self.error("%s @ %s: %s" % (rule, site, r[1]))
            else:
                detail = r[1] if isinstance(r, tuple) and len(r) > 1 else "refuted"
                rec["verdict"] = VIOLATION
                rec["detail"] = detail
                extra = r[2] if isinstance(r, tuple) and len(r) > 2 else None
                cons = construct or law
                if isinstance(extra, dict) and extra.get("key"):
                    cons = "%s :: %s" % (cons, extra["key"])
                self.finding(rule, module or site.split("::")[0], function or site.split("::")[-1],
                             cons, detail, line=line, extra=extra)
        except (AnalysisError, Undecided, TooBig) as e:
            rec["verdict"] = UNKNOWN
            rec["detail"] = "%s: %s" % (type(e).__name__, e)
            self.error("%s @ %s: %s" % (rule, site, rec["detail"]))
        except Exception as e:  # Raised paths, Stop, and analyser faults are UNKNOWN, never a verdict
            if type(e).__name__ not in ("Raised", "Stop", "RecursionError"):
                rec["trace"] = traceback.format_exc()[-600:]
            rec["verdict"] = UNKNOWN
            rec["detail"] = "%s: %s" % (type(e).__name__, e)
            self.error("%s @ %s: %s" % (rule, site, rec["detail"]))
        except RecursionError as e:
            rec["verdict"] = UNKNOWN
            rec["detail"] = "RecursionError"
            self.error("%s @ %s: recursion" % (rule, site))
        rec["ms"] = round((time.time() - t) * 1000, 1)
        self.obligations.append(rec)
        self.count(rule)
        return rec["verdict"]

    def finding(self, rule, module, function, construct, what, line=None, extra=None):
        f = Finding(self.pid, rule, module, function, construct, what, line, extra)
        if f.key() not in {g.key() for g in self.findings}:
            self.findings.append(f)
        return f

    def record(self, rule, site, law, verdict=HOLDS, detail=None):
        rec = {"rule": rule, "site": site, "law": law, "verdict": verdict}
        if detail:
            rec["detail"] = detail
        self.obligations.append(rec)
        self.count(rule)

    def canary(self, name, fired, detail=""):
        """fired: True / False, or None when the edit could not be applied to this tree (shape changed): recorded as
        skipped; only a canary that WAS applied and did not fire, or a check whose canaries were all skipped, is an error"""
        if fired is False and "transform did not apply" in (detail or ""):
            fired = None
        self.canaries.append({"name": name, "fired": fired if fired is None else bool(fired), "detail": detail})
        if fired is False:
            self.error("canary %s did not fire (%s): the rule would pass vacuously" % (name, detail))

    # -- finish
    def finish(self, explanation, level="other", samples_extra=None):
        known = [k for k in load_known() if k.get("property") == self.pid]
        known_keys = {(k["property"], k["rule"], k["module"], k["function"], k["construct"]): k for k in known
                      if k.get("status") == "known"}
        new, listed = [], []
        for f in self.findings:
            (listed if f.key() in known_keys else new).append(f)
        stale = [k for key, k in known_keys.items() if key not in {f.key() for f in self.findings}]
        for f in listed:
            self.say("KNOWN-FINDING: property=%s %s [%s] %s — %s" % (self.pid, f.where(), f.rule, f.construct, f.what))
        for k in stale:
            self.notes.append("known finding no longer reproduced (may have been repaired): %s %s %s" % (k["rule"], k["function"], k["construct"]))
        replay = None
        if new:
            os.makedirs(os.path.join(VERIF, "out", "replay"), exist_ok=True)
            replay = os.path.join(VERIF, "out", "replay", "%s.json" % self.pid)
            with open(replay, "w") as fh:
                json.dump({"property": self.pid, "tier": self.tier, "violations": [f.as_dict() for f in new]}, fh, indent=1)
            for f in new:
                self.say("FINDING property=%s %s [%s] %s — %s" % (self.pid, f.where(), f.rule, f.construct, f.what))
        if self.canaries and all(c["fired"] is None for c in self.canaries):
            self.error("no canary could be applied to this tree: the rules cannot be shown to fire")
        n_ob = len(self.obligations)
        n_ok = sum(1 for o in self.obligations if o["verdict"] == HOLDS)
        n_bad = sum(1 for o in self.obligations if o["verdict"] == VIOLATION)
        n_unk = sum(1 for o in self.obligations if o["verdict"] == UNKNOWN)
        wall = time.time() - self.t0
        samples = [o for o in self.obligations if o["verdict"] != HOLDS][:20]
        samples += [o for o in self.obligations if o["verdict"] == HOLDS][: max(3, 25 - len(samples))]
        if samples_extra:
            samples += samples_extra
        ev = {
            "property_id": self.pid,
            "tier": self.tier,
            "seed": int(os.environ.get("VERIF_SEED", "0") or 0),
            "level": level,
            "coverage": {
                "explanation": explanation,
                "obligations": n_ob,
                "discharged": n_ok,
                "refuted": n_bad,
                "unknown": n_unk,
                "rule_instances": dict(sorted(self.counts.items())),
                "functions_analysed": sorted(self.analysed["functions"]),
                "modules_analysed": sorted(self.analysed["modules"]),
                "program": self.program.stats() if self.program else None,
                "canaries": self.canaries,
                "findings_new": [f.as_dict() for f in new],
                "findings_known": [f.as_dict() for f in listed],
                "notes": self.notes,
                "analysis_errors": self.errors,
                "samples": samples,
                "checker_cmd": "./check %s --tier %s" % (self.pid, self.tier),
                "trusted_base": ["CPython ast parser", "sa/poly.py exact normal form", "sa/symeval.py transfer functions",
                                 "NumPy object-array indexing/broadcasting (container only)"],
            },
            "assumptions": self.assumptions,
            "wall_s": round(wall, 3),
            "violations": len(new),
        }
        os.makedirs(os.path.join(VERIF, "evidence"), exist_ok=True)
        with open(os.path.join(VERIF, "evidence", "%s.json" % self.pid), "w") as fh:
            json.dump(ev, fh, indent=1, default=str)
        self.say("%s tier=%s obligations=%d holds=%d refuted=%d unknown=%d known=%d new=%d canaries=%d/%d wall=%.2fs" % (
            self.pid, self.tier, n_ob, n_ok, n_bad, n_unk, len(listed), len(new),
            sum(1 for c in self.canaries if c["fired"]), sum(1 for c in self.canaries if c["fired"] is not None), wall))
        if new:
            # a refuted clause is a violation even if another clause could not be analysed
            print("VIOLATION property=%s replay=%s" % (self.pid, replay))
            return 1
        if self.errors:
            return 2
        return 0
