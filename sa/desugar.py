"""Normal form of per-sample loops.

The batch routines of the filters walk the sample arrays either by index

    for t in range(1, num_samples):
        Q[t] = self.update(Q[t-1], self.gyr[t], self.acc[t])

or by direct iteration

    for t, (gyr_t, acc_t) in enumerate(zip(self.gyr[1:], self.acc[1:]), start=1):
        Q[t] = self.update(Q[t-1], gyr_t, acc_t)

The two say the same thing; the rules about these loops (COUNT, PROTOCOL, ROWWISE, DROPOUT-EXIT) are written for the index form.  `desugared(f)` returns a
copy of the function in which every loop of the second kind is rewritten into the first:

    for <t> in range(k, len(A1) - s1 + k):          # k: enumerate's start, s1: literal lower bound of the first array's slice
        <body with  row_i  ->  A_i[<t> + (s_i - k)]>

Conditions (anything else is left untouched, so the rules see the loop as written and answer "not recognised" rather than guess):
  * the iterable is enumerate(<it>[, start]) and/or zip(<a1>, ...), directly or through a local assigned once and used once;
  * every iterated array is a name / attribute chain, optionally sliced `[s:]` with a literal s >= 0 (no upper bound, no step);
  * the loop targets are plain names, one per array, and neither they nor the index are assigned in the body;
  * a plain `for x in X` over one name / attribute chain is rewritten as well (fresh index), and so are one-generator comprehensions without filter.
zip() stops at the shortest array; the rewritten bound uses the first one (the constructors validate that the sample arrays have the same shape - that
validation is part of C13/C03's own rules, not of this normal form).
"""
from __future__ import annotations

import ast
import copy

from .model import Func


def _const_int(e):
    if isinstance(e, ast.Constant) and isinstance(e.value, int) and not isinstance(e.value, bool):
        return e.value
    return None


def _array(e):
    """(base expression, literal lower bound) of `B` / `B[s:]`, or None"""
    if isinstance(e, ast.Subscript) and isinstance(e.slice, ast.Slice):
        sl = e.slice
        if sl.upper is not None or sl.step is not None:
            return None
        s = 0 if sl.lower is None else _const_int(sl.lower)
        if s is None or s < 0:
            return None
        b = _array(e.value)
        if b is None or b[1] != 0:
            return None
        return (b[0], s)
    x = e
    while isinstance(x, ast.Attribute):
        x = x.value
    if isinstance(x, ast.Name) and isinstance(e, (ast.Name, ast.Attribute)):
        return (e, 0)
    return None


def _call_name(e):
    return e.func.id if isinstance(e, ast.Call) and isinstance(e.func, ast.Name) else None


class _Subst(ast.NodeTransformer):
    def __init__(self, table):
        self.table = table

    def visit_Name(self, n):
        if isinstance(n.ctx, ast.Load) and n.id in self.table:
            return ast.copy_location(copy.deepcopy(self.table[n.id]), n)
        return n


def _stored_names(stmts):
    out = set()
    for s in stmts:
        for n in ast.walk(s):
            if isinstance(n, ast.Name) and isinstance(n.ctx, (ast.Store, ast.Del)):
                out.add(n.id)
    return out


def _rewrite(loop, fnode, fresh):
    """loop: ast.For, or ast.comprehension paired with its element through _CompLoop"""
    it = loop.iter
    drop = None
    if isinstance(it, ast.Name):
        # a local bound once to the iterable and used only here
        defs = [s for s in ast.walk(fnode) if isinstance(s, ast.Assign) and len(s.targets) == 1 and isinstance(s.targets[0], ast.Name) and s.targets[0].id == it.id]
        uses = [n for n in ast.walk(fnode) if isinstance(n, ast.Name) and n.id == it.id and isinstance(n.ctx, ast.Load)]
        if len(defs) != 1 or len(uses) != 1 or _call_name(defs[0].value) not in ("zip", "enumerate"):
            return False
        drop, it = defs[0], defs[0].value
    index, k, inner_t, inner = None, 0, loop.target, it
    if _call_name(it) == "enumerate":
        if not it.args or len(it.args) > 2 or any(kw.arg != "start" for kw in it.keywords):
            return False
        start = it.args[1] if len(it.args) == 2 else (it.keywords[0].value if it.keywords else ast.Constant(0))
        k = _const_int(start)
        if k is None or not (isinstance(loop.target, ast.Tuple) and len(loop.target.elts) == 2 and isinstance(loop.target.elts[0], ast.Name)):
            return False
        index, inner_t, inner = loop.target.elts[0].id, loop.target.elts[1], it.args[0]
        if isinstance(inner, ast.Name):
            defs = [s for s in ast.walk(fnode) if isinstance(s, ast.Assign) and len(s.targets) == 1 and isinstance(s.targets[0], ast.Name) and s.targets[0].id == inner.id]
            uses = [n for n in ast.walk(fnode) if isinstance(n, ast.Name) and n.id == inner.id and isinstance(n.ctx, ast.Load)]
            if len(defs) == 1 and len(uses) == 1 and _call_name(defs[0].value) == "zip":
                drop, inner = defs[0], defs[0].value
    if _call_name(inner) == "zip":
        if inner.keywords or not inner.args or not (isinstance(inner_t, ast.Tuple) and len(inner_t.elts) == len(inner.args)):
            return False
        pairs = list(zip(inner_t.elts, inner.args))
    else:
        pairs = [(inner_t, inner)]       # enumerate(X) or plain iteration over one array
    table_src = []
    for tgt, arr in pairs:
        a = _array(arr)
        if not isinstance(tgt, ast.Name) or a is None:
            return False
        table_src.append((tgt.id, a[0], a[1]))
    names = {n for n, _, _ in table_src} | ({index} if index else set())
    if names & _stored_names(loop.body + loop.orelse) or len(names) != len(table_src) + (1 if index else 0):
        return False
    idx = index or fresh()
    table = {}
    for name, base, s in table_src:
        off = s - k
        sub = ast.Name(idx, ast.Load()) if off == 0 else ast.BinOp(ast.Name(idx, ast.Load()), ast.Add() if off > 0 else ast.Sub(), ast.Constant(abs(off)))
        table[name] = ast.Subscript(copy.deepcopy(base), sub, ast.Load())
    b0, s0 = table_src[0][1], table_src[0][2]
    stop = ast.Call(ast.Name("len", ast.Load()), [copy.deepcopy(b0)], [])
    off = k - s0
    if off:
        stop = ast.BinOp(stop, ast.Add() if off > 0 else ast.Sub(), ast.Constant(abs(off)))
    new_iter = ast.Call(ast.Name("range", ast.Load()), [ast.Constant(k), stop] if k else [stop], [])
    if all(s_ == s0 for _, _, s_ in table_src):
        # the other zipped arrays bound the loop just as well (zip stops with the shortest)
        alts = []
        for _, b_, _ in table_src[1:]:
            e_ = ast.Call(ast.Name("len", ast.Load()), [copy.deepcopy(b_)], [])
            alts.append(ast.fix_missing_locations(ast.copy_location(ast.BinOp(e_, ast.Add() if off > 0 else ast.Sub(), ast.Constant(abs(off))) if off else e_, loop.iter)))
        try:
            loop._alt_stops = alts
        except AttributeError:
            pass
    loop.target = ast.copy_location(ast.Name(idx, ast.Store()), loop.target)
    loop.iter = ast.copy_location(new_iter, loop.iter)
    sub = _Subst(table)
    loop.body = [sub.visit(s) for s in loop.body]
    loop.orelse = [sub.visit(s) for s in loop.orelse]
    if drop is not None:
        for parent in ast.walk(fnode):
            for field in ("body", "orelse", "finalbody"):
                body = getattr(parent, field, None)
                if isinstance(body, list) and drop in body:
                    body[body.index(drop)] = ast.copy_location(ast.Pass(), drop)
    return True


class _CompLoop:
    """adapter: a one-generator comprehension seen as a loop whose body is the element expression"""

    def __init__(self, comp):
        self.comp = comp
        g = comp.generators[0]
        self.target, self.iter, self.orelse = g.target, g.iter, []
        self.body = [comp.elt] if not isinstance(comp, ast.DictComp) else [comp.key, comp.value]

    def commit(self):
        g = self.comp.generators[0]
        g.target, g.iter = self.target, self.iter
        if isinstance(self.comp, ast.DictComp):
            self.comp.key, self.comp.value = self.body
        else:
            self.comp.elt = self.body[0]


def desugar_node(fnode):
    """rewrite in place; returns the number of loops rewritten"""
    counter = [0]

    def fresh():
        counter[0] += 1
        return "_row%d" % counter[0]
    n = 0
    for loop in [x for x in ast.walk(fnode) if isinstance(x, ast.For)]:
        if _rewrite(loop, fnode, fresh):
            n += 1
    # map(f, A, B) over sample arrays (possibly inside list(...)): the comprehension [f(A[i], B[i]) for i in range(len(A))]
    class _Map(ast.NodeTransformer):
        def visit_Call(self, node):
            self.generic_visit(node)
            inner = node
            if _call_name(node) == "list" and len(node.args) == 1 and not node.keywords and isinstance(node.args[0], ast.ListComp) and getattr(node.args[0], "_from_map", False):
                return node.args[0]           # list([...]) around the comprehension a map() was turned into
            if _call_name(inner) == "map" and len(inner.args) >= 2 and not inner.keywords and isinstance(inner.args[0], (ast.Name, ast.Attribute)):
                arrs = [_array(a) for a in inner.args[1:]]
                if all(a is not None for a in arrs):
                    idx = fresh()
                    args = []
                    for base, s_ in arrs:
                        sub = ast.Name(idx, ast.Load()) if s_ == 0 else ast.BinOp(ast.Name(idx, ast.Load()), ast.Add(), ast.Constant(s_))
                        args.append(ast.Subscript(copy.deepcopy(base), sub, ast.Load()))
                    b0, s0 = arrs[0]
                    stop = ast.Call(ast.Name("len", ast.Load()), [copy.deepcopy(b0)], [])
                    if s0:
                        stop = ast.BinOp(stop, ast.Sub(), ast.Constant(s0))
                    comp = ast.ListComp(elt=ast.Call(copy.deepcopy(inner.args[0]), args, []),
                                        generators=[ast.comprehension(target=ast.Name(idx, ast.Store()), iter=ast.Call(ast.Name("range", ast.Load()), [stop], []), ifs=[], is_async=0)])
                    counter[1] += 1
                    comp._from_map = True
                    return ast.copy_location(comp, node)
            return node
    counter.append(0)
    _Map().visit(fnode)
    n += counter[1]
    for comp in [x for x in ast.walk(fnode) if isinstance(x, (ast.ListComp, ast.GeneratorExp)) and len(x.generators) == 1 and not x.generators[0].ifs
                 and not x.generators[0].is_async]:
        cl = _CompLoop(comp)
        if _rewrite(cl, fnode, fresh):
            cl.commit()
            n += 1
    if n:
        ast.fix_missing_locations(fnode)
    return n


_CACHE = {}


def desugared(f: Func) -> Func:
    """the function with its enumerate/zip sample loops in index form (the same object if there is none)"""
    key = id(f.node)
    if key not in _CACHE:
        node = copy.deepcopy(f.node)
        _CACHE[key] = (f, Func(f.module, node, f.cls) if desugar_node(node) else f)
    return _CACHE[key][1]


SELF_TEST = '''
def batch(self):
    Q = np.zeros((len(self.gyr), 4))
    Q[0] = self.q0
    samples = zip(self.gyr[1:], self.acc[1:])
    for t, (g, a) in enumerate(samples, start=1):
        Q[t] = self.update(Q[t-1], g, a)
    for t, w in enumerate(self.gyr):
        Q[t] = self.update(Q[t-1], w)
    for label, m in zip(['R1', 'R2'], [R1, R2]):
        check(label, m)
    for x in self.gyr:
        use(x)
    for x in rows():
        use(x)
    R = np.array(list(map(self.estimate, self.acc, self.mag)))
    return np.array([self.estimate(a, m) for a, m in zip(self.acc, self.mag)])
'''


def self_test():
    node = ast.parse(SELF_TEST).body[0]
    n = desugar_node(node)
    txt = ast.unparse(node)
    want = ["for t in range(1, len(self.gyr)):", "Q[t] = self.update(Q[t - 1], self.gyr[t], self.acc[t])", "for t in range(len(self.gyr)):",
            "Q[t] = self.update(Q[t - 1], self.gyr[t])", "for label, m in zip(['R1', 'R2'], [R1, R2]):", "for _row1 in range(len(self.gyr)):", "use(self.gyr[_row1])",
            "for x in rows():", "[self.estimate(self.acc[_row3], self.mag[_row3]) for _row3 in range(len(self.acc))]",
            "R = np.array([self.estimate(self.acc[_row2], self.mag[_row2]) for _row2 in range(len(self.acc))])"]
    missing = [w for w in want if w not in txt]
    return n == 5 and not missing, "rewrote %d loops; missing %s" % (n, missing)
