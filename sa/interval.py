"""Interval abstract interpretation of one function: lower/upper bounds of every local, used to decide whether the
arguments of domain-restricted calls (np.sqrt: >= 0, np.arccos/np.arcsin: [-1, 1]) are *provably* inside the domain
in floating point -- i.e. whether rounding residue can push them out.

The domain is the classic one: [lo, hi] with +-inf; arrays are bounded elementwise.  Sources of bounds are the idioms
the repository uses: np.clip(x, lo, hi), abs/np.abs, even powers, products of a value with itself, np.linalg.norm,
np.sqrt, np.maximum/max with a constant, np.cos/np.sin, literals, and comparisons that dominate the use
(``if x > 0:`` refines x inside the branch).  Everything else is (-inf, +inf).
Structured control flow: both arms of an ``if`` are analysed and joined; loop bodies are analysed after forgetting
everything they assign (one widening step), which is sound.
"""
import ast
import math

INF = math.inf
TOP = (-INF, INF)


def _add(a, b):
    return (a[0] + b[0], a[1] + b[1])


def _neg(a):
    return (-a[1], -a[0])


def _mul(a, b):
    cands = []
    for x in a:
        for y in b:
            if (x == 0 and abs(y) == INF) or (y == 0 and abs(x) == INF):
                cands.append(0.0)
            else:
                cands.append(x * y)
    return (min(cands), max(cands))


def _join(a, b):
    return (min(a[0], b[0]), max(a[1], b[1]))


def _const(node):
    try:
        v = ast.literal_eval(node)
        if isinstance(v, (int, float)) and not isinstance(v, bool):
            return float(v)
    except Exception:
        pass
    if isinstance(node, ast.Attribute) and ast.unparse(node) in ("np.pi", "math.pi"):
        return math.pi
    return None


class Intervals:
    def __init__(self, func, on_call=None):
        self.func = func
        self.on_call = on_call    # callback(call node, env, self) for every call met, with the bounds valid at that point
        self.sites = []       # {"node", "kind", "arg", "interval", "ok"}

    # ---- expressions
    def ev(self, n, env):
        if isinstance(env.get("alias:x"), str):
            pass
        c = _const(n)
        if c is not None:
            return (c, c)
        if isinstance(n, ast.Name):
            return env.get(n.id, TOP)
        if isinstance(n, ast.Subscript):
            key = ast.unparse(n)
            if key in env:
                return env[key]
            return self.ev(n.value, env)        # an element of an array is within the array's elementwise bounds
        if isinstance(n, ast.Attribute):
            if n.attr in ("T", "real"):
                return self.ev(n.value, env)
            return env.get(ast.unparse(n), TOP)
        if isinstance(n, ast.UnaryOp):
            v = self.ev(n.operand, env)
            if isinstance(n.op, ast.USub):
                return _neg(v)
            if isinstance(n.op, ast.UAdd):
                return v
            return TOP
        if isinstance(n, ast.BinOp):
            if isinstance(n.op, ast.Pow):
                e = _const(n.right)
                b = self.ev(n.left, env)
                if e is not None and e == int(e) and int(e) % 2 == 0 and e > 0:
                    m = max(abs(b[0]), abs(b[1]))
                    lo = 0.0 if b[0] <= 0 <= b[1] else min(abs(b[0]), abs(b[1])) ** e
                    return (lo, m ** e if m != INF else INF)
                if e is not None and b[0] >= 0 and e > 0:
                    return (b[0] ** e, b[1] ** e if b[1] != INF else INF)
                return TOP
            l, r = self.ev(n.left, env), self.ev(n.right, env)
            if isinstance(n.op, ast.Add):
                return _add(l, r)
            if isinstance(n.op, ast.Sub):
                return _add(l, _neg(r))
            if isinstance(n.op, ast.Mult):
                if ast.dump(n.left) == ast.dump(n.right):
                    m = max(abs(l[0]), abs(l[1]))
                    return (0.0, m * m if m != INF else INF)
                return _mul(l, r)
            if isinstance(n.op, ast.Div):
                if r[0] > 0 or r[1] < 0:
                    inv = (1.0 / r[1] if abs(r[1]) != INF else 0.0, 1.0 / r[0] if abs(r[0]) != INF else 0.0)
                    return _mul(l, (min(inv), max(inv)))
                # divisor of one sign but possibly zero: the quotient keeps the sign pattern (or is inf/NaN, which no bound excludes anyway)
                if r[0] >= 0 or r[1] <= 0:
                    sgn = 1 if r[0] >= 0 else -1
                    if l[0] >= 0:
                        return (0.0, INF) if sgn > 0 else (-INF, 0.0)
                    if l[1] <= 0:
                        return (-INF, 0.0) if sgn > 0 else (0.0, INF)
                return TOP
            return TOP
        if isinstance(n, ast.IfExp):
            return _join(self.ev(n.body, env), self.ev(n.orelse, env))
        if isinstance(n, ast.Call):
            key = ast.unparse(n)
            if key in env:
                return env[key]       # a comparison refined this very expression (self.A.trace() >= 3.0 ...) or a local is an alias of it
            name = ast.unparse(n.func).split(".")[-1]
            args = n.args
            if name == "clip" and len(args) == 3:
                lo, hi = _const(args[1]), _const(args[2])
                inner = self.ev(args[0], env)
                return (max(inner[0], lo) if lo is not None else inner[0], min(inner[1], hi) if hi is not None else inner[1])
            if name == "clip" and isinstance(n.func, ast.Attribute) and len(args) == 2 and not ast.unparse(n.func).startswith(("np.", "numpy.")):
                lo, hi = _const(args[0]), _const(args[1])
                inner = self.ev(n.func.value, env)
                return (max(inner[0], lo) if lo is not None else inner[0], min(inner[1], hi) if hi is not None else inner[1])
            if name in ("abs", "absolute", "fabs", "norm", "sqrt", "hypot", "exp", "cosh"):
                if name == "sqrt" and args:
                    a = self.ev(args[0], env)
                    return (math.sqrt(a[0]) if a[0] > 0 else 0.0, math.sqrt(a[1]) if 0 <= a[1] != INF else INF)
                if name in ("abs", "absolute", "fabs") and args:
                    a = self.ev(args[0], env)
                    m = max(abs(a[0]), abs(a[1]))
                    return (0.0 if a[0] <= 0 <= a[1] else min(abs(a[0]), abs(a[1])), m)
                return (0.0, INF)
            if name in ("cos", "sin", "tanh"):
                return (-1.0, 1.0)
            if name in ("arccos",):
                return (0.0, math.pi)
            if name in ("arcsin", "arctan"):
                return (-math.pi / 2, math.pi / 2)
            if name == "arctan2":
                return (-math.pi, math.pi)
            if name in ("maximum", "max", "fmax") and len(args) == 2:
                a, b = self.ev(args[0], env), self.ev(args[1], env)
                return (max(a[0], b[0]), max(a[1], b[1]))
            if name in ("minimum", "min", "fmin") and len(args) == 2:
                a, b = self.ev(args[0], env), self.ev(args[1], env)
                return (min(a[0], b[0]), min(a[1], b[1]))
            if name in ("sum", "mean", "trace") and args:
                a = self.ev(args[0], env)
                return (0.0, INF) if a[0] >= 0 else ((-INF, 0.0) if a[1] <= 0 else TOP)
            if name in ("array", "asarray", "copy", "atleast_1d", "atleast_2d", "float", "squeeze", "ravel", "flatten", "transpose") and args:
                a0 = args[0]
                if isinstance(a0, (ast.List, ast.Tuple)) and a0.elts:
                    out = None
                    for e in a0.elts:
                        v = self.ev(e, env)
                        out = v if out is None else _join(out, v)
                    return out
                return self.ev(a0, env)
            if name in ("zeros", "zeros_like"):
                return (0.0, 0.0)
            # a private helper of the same module: its return bounds with the argument bounds (depth-limited)
            inl = self.inline_call(n, env)
            if inl is not None:
                return inl
            if name in ("ones", "ones_like"):
                return (1.0, 1.0)
            return TOP
        if isinstance(n, (ast.List, ast.Tuple)) and n.elts:
            out = None
            for e in n.elts:
                v = self.ev(e, env)
                out = v if out is None else _join(out, v)
            return out
        return TOP

    def inline_call(self, call, env, _depth=[0]):
        func = self.func
        mod = getattr(func, "module", None)
        if mod is None or _depth[0] >= 2:
            return None
        g = None
        if isinstance(call.func, ast.Name):
            r = mod.resolve_name(call.func.id)
            if r is not None and hasattr(r, "node") and isinstance(r.node, ast.FunctionDef) and getattr(r, "module", None) is mod:
                g = r
                params = [a.arg for a in g.node.args.args]
        elif isinstance(call.func, ast.Attribute) and isinstance(call.func.value, ast.Name) and call.func.value.id in ("self", "cls") and getattr(func, "cls", None) is not None:
            g = func.cls.methods.get(call.func.attr)
            params = [a.arg for a in g.node.args.args][(0 if (g and g.is_static) else 1):] if g else []
        if g is None or g is func:
            return None
        sub = Intervals(g)
        env2 = {}
        for p, a in zip(params, call.args):
            env2[p] = self.ev(a, env)
        for k in call.keywords:
            if k.arg in params:
                env2[k.arg] = self.ev(k.value, env)
        rets = []
        orig = sub.stmt

        def stmt(s, e):
            if isinstance(s, ast.Return) and s.value is not None:
                rets.append(sub.ev(s.value, e))
            return orig(s, e)
        sub.stmt = stmt
        _depth[0] += 1
        try:
            sub.block(g.node.body, env2)
        except Exception:
            rets = []
        finally:
            _depth[0] -= 1
        self.sites.extend(sub.sites)       # restricted calls inside the helper are judged with the bounds of this call
        if not rets:
            return None
        out = rets[0]
        for r_ in rets[1:]:
            out = _join(out, r_)
        return out

    # ---- domain sites
    def scan(self, n, env):
        for c in ast.walk(n):
            if isinstance(c, ast.Call) and self.on_call is not None:
                self.on_call(c, env, self)
            if isinstance(c, ast.Call) and c.args:
                name = ast.unparse(c.func)
                base = name.split(".")[-1]
                if base == "sqrt" and name.split(".")[0] in ("np", "numpy", "math"):
                    iv = self.ev(c.args[0], env)
                    self.sites.append({"node": c, "kind": "sqrt", "arg": ast.unparse(c.args[0]), "interval": iv, "ok": iv[0] >= 0})
                elif base in ("arccos", "arcsin") and name.split(".")[0] in ("np", "numpy", "math"):
                    iv = self.ev(c.args[0], env)
                    self.sites.append({"node": c, "kind": base, "arg": ast.unparse(c.args[0]), "interval": iv, "ok": iv[0] >= -1 and iv[1] <= 1})

    # ---- refinement by a dominating test
    def refine(self, test, env, truth):
        env = dict(env)
        if isinstance(test, ast.UnaryOp) and isinstance(test.op, ast.Not):
            return self.refine(test.operand, env, not truth)
        if isinstance(test, ast.BoolOp):
            if (isinstance(test.op, ast.And) and truth) or (isinstance(test.op, ast.Or) and not truth):
                for v in test.values:
                    env = self.refine(v, env, truth)
            return env
        if isinstance(test, ast.Compare) and len(test.ops) == 1:
            l, r, op = test.left, test.comparators[0], test.ops[0]
            c = _const(r)
            if c is None and _const(l) is not None:
                c = _const(l)
                l, r = r, l
                op = {ast.Lt: ast.Gt, ast.Gt: ast.Lt, ast.LtE: ast.GtE, ast.GtE: ast.LtE}.get(type(op), type(op))()
            if c is None:
                return env
            key = l.id if isinstance(l, ast.Name) else ast.unparse(l)
            alias = env.get("alias:" + key) if isinstance(l, ast.Name) else None
            cur = self.ev(l, env)
            if not truth:
                op = {ast.Lt: ast.GtE, ast.Gt: ast.LtE, ast.LtE: ast.Gt, ast.GtE: ast.Lt, ast.Eq: ast.NotEq, ast.NotEq: ast.Eq}.get(type(op), type(op))()
            if isinstance(op, (ast.Gt, ast.GtE)):
                env[key] = (max(cur[0], c), cur[1])
            elif isinstance(op, (ast.Lt, ast.LtE)):
                env[key] = (cur[0], min(cur[1], c))
            elif isinstance(op, ast.Eq):
                env[key] = (c, c)
            if alias is not None and key in env:
                env[alias] = env[key]
        return env

    # ---- statements
    def assigned(self, stmts):
        out = set()
        for s in stmts:
            for n in ast.walk(s):
                if isinstance(n, (ast.Name, ast.Subscript, ast.Attribute)) and isinstance(getattr(n, "ctx", None), ast.Store):
                    out.add(n.id if isinstance(n, ast.Name) else ast.unparse(n))
                    if isinstance(n, ast.Subscript):
                        out.add(ast.unparse(n.value))
        return out

    def forget(self, env, names):
        env = dict(env)
        for k in list(env):
            if k in names or any(k.startswith(nm + "[") or k.startswith(nm + ".") for nm in names):
                del env[k]
        return env

    def block(self, stmts, env):
        for s in stmts:
            env = self.stmt(s, env)
            if env is None:
                return None
        return env

    def stmt(self, s, env):
        if isinstance(s, (ast.Return, ast.Raise)):
            if getattr(s, "value", None) is not None:
                self.scan(s.value, env)
            return None
        if isinstance(s, ast.Assign):
            self.scan(s.value, env)
            v = self.ev(s.value, env)
            env = dict(env)
            for t in s.targets:
                self.bind(t, s.value, v, env)
            return env
        if isinstance(s, ast.AnnAssign) and s.value is not None:
            self.scan(s.value, env)
            env = dict(env)
            self.bind(s.target, s.value, self.ev(s.value, env), env)
            return env
        if isinstance(s, ast.AugAssign):
            self.scan(s.value, env)
            fake = ast.BinOp(left=_load(s.target), op=s.op, right=s.value)
            v = self.ev(fake, env)
            env = dict(env)
            self.bind(s.target, None, v, env)
            return env
        if isinstance(s, ast.If):
            self.scan(s.test, env)
            a = self.block(s.body, self.refine(s.test, env, True))
            b = self.block(s.orelse, self.refine(s.test, env, False))
            if a is None:
                return b
            if b is None:
                return a
            return {k: _join(a[k], b[k]) for k in a if k in b}
        if isinstance(s, (ast.For, ast.While)):
            names = self.assigned(s.body) | (self.assigned([s.target]) if isinstance(s, ast.For) else set())
            inner = self.forget(env, names)
            if isinstance(s, ast.While):
                self.scan(s.test, inner)
                inner = self.refine(s.test, inner, True)
            self.block(s.body, inner)
            return self.forget(env, names)
        if isinstance(s, (ast.With,)):
            return self.block(s.body, env)
        if isinstance(s, ast.Try):
            names = self.assigned(s.body)
            out = self.block(s.body, env)
            for h in s.handlers:
                self.block(h.body, self.forget(env, names))
            return self.forget(out if out is not None else env, names)
        if isinstance(s, ast.Expr):
            self.scan(s.value, env)
            return env
        return env

    def bind(self, t, value_node, v, env):
        if isinstance(t, ast.Name):
            for k in list(env):
                if k.startswith(t.id + "[") or k.startswith(t.id + "."):
                    del env[k]
            env[t.id] = v
            env.pop("alias:" + t.id, None)
            if isinstance(value_node, ast.Call) and not value_node.args and not value_node.keywords:
                env["alias:" + t.id] = ast.unparse(value_node)      # x = obj.method(): x and the call text denote one value until either changes
            # element-wise bounds of a literal vector  x = np.array([e0, e1, ...])
            lit = value_node
            if isinstance(lit, ast.Call) and ast.unparse(lit.func).split(".")[-1] in ("array", "asarray") and lit.args:
                lit = lit.args[0]
            if isinstance(lit, (ast.List, ast.Tuple)):
                for i, e in enumerate(lit.elts):
                    if not isinstance(e, ast.Starred):
                        env["%s[%d]" % (t.id, i)] = self.ev(e, env)
        elif isinstance(t, (ast.Tuple, ast.List)):
            elts = value_node.elts if isinstance(value_node, (ast.Tuple, ast.List)) and len(value_node.elts) == len(t.elts) else None
            for i, e in enumerate(t.elts):
                self.bind(e, elts[i] if elts else None, self.ev(elts[i], env) if elts else v, env)
        elif isinstance(t, ast.Subscript):
            base = ast.unparse(t.value)
            env[ast.unparse(t)] = v
            if base in env:
                env[base] = _join(env[base], v)     # the array now also contains v
        elif isinstance(t, ast.Attribute):
            env[ast.unparse(t)] = v

    def analyse(self):
        self.block(self.func.node.body, {})
        return self


def _load(t):
    import copy
    t2 = copy.deepcopy(t)
    for n in ast.walk(t2):
        if hasattr(n, "ctx"):
            n.ctx = ast.Load()
    return t2
