"""FACTS: forward must-analysis with value numbering (path-sensitive guards).

State keys
    'v:<name>'      value number (canonical string) of a local
    's:<attr>'      value number of self.<attr>
    'F'             frozenset of facts: ('NZ', vn) non-zero, ('UNIT', vn) unit quaternion,
                    ('REAL', vn) / ('CPLX', vn) dtype taint is carried in a separate may-set 'C'
Join: value numbers survive only if equal on both paths; facts are intersected (must);
the complex taint set 'C' is united (may).
Value numbers are value-preserving through np.copy/np.array/np.asarray/.to_array()/[:, None],
so a guard on ``n = np.linalg.norm(acc)`` also guards ``acc/np.linalg.norm(acc)`` as long as
``acc`` is not redefined in between.
"""
from __future__ import annotations

import ast

from .flow import Walker, const_str_list
from .model import Func, Class, stmt_text

VALUE_PRESERVING_NP = {"copy", "array", "asarray", "asanyarray", "ascontiguousarray", "atleast_1d", "atleast_2d", "squeeze", "ravel", "real", "float64", "asfarray"}
VALUE_PRESERVING_METHODS = {"copy", "to_array", "flatten", "ravel", "squeeze", "astype", "view"}
COMPLEX_SOURCES = {"eig", "eigvals", "roots"}
REAL_SANITISERS = {"real", "abs", "absolute", "isreal"}


def _strip_shape(vn):
    return vn


class Facts(Walker):
    def __init__(self, func: Func, prog, unit_params=(), callbacks=None, unit_summaries=None, assume=None, seed=None, seed_facts=None, inline_private=False, seed_cells=None, _depth=0):
        super().__init__(func)
        self.inline_private = inline_private      # analyse `self._helper(...)` calls as continuations (state flows in and out)
        self.seed_cells = dict(seed_cells or {})
        self._depth = _depth
        self._inlined = {}
        self._inlined_tuple = {}
        self.seed = dict(seed or {})          # parameter name -> caller's value number (interprocedural continuation)
        self.seed_facts = frozenset(seed_facts or ())
        self.assume = dict(assume or {})      # parameter name -> assumed truth value (configuration-driven arms)
        self.prog = prog
        self.mod = func.module
        self.unit_params = set(unit_params)
        self.self_name = func.params[0] if func.cls is not None and not func.is_static and func.params else None
        self.divisions = []     # (node, divisor_vn, guarded: bool, facts)
        self.ret_info = []      # (stmt, vn, facts, complex_taint, state)
        self.raises = []
        self.cb = callbacks or {}
        self.unit_summaries = unit_summaries if unit_summaries is not None else {}
        self.local_types = self._infer_types()
        self.counter = 0

    def _infer_types(self):
        types, bad = {}, set()
        for n in ast.walk(self.func.node):
            if isinstance(n, ast.Assign) and len(n.targets) == 1 and isinstance(n.targets[0], ast.Name) and isinstance(n.value, ast.Call):
                r = self._resolve(n.value.func)
                nm = n.targets[0].id
                if isinstance(r, Class):
                    if nm in types and types[nm] is not r:
                        bad.add(nm)
                    types[nm] = r
        for b in bad:
            types.pop(b, None)
        # parameters annotated with a repository class (helpers that receive a Quaternion)
        a = self.func.node.args
        for p in a.posonlyargs + a.args + a.kwonlyargs:
            if p.annotation is not None and p.arg not in types and p.arg not in bad:
                r = self._resolve(p.annotation)
                if isinstance(r, Class):
                    types[p.arg] = r
        return types

    def _resolve(self, node):
        try:
            if isinstance(node, ast.Name):
                return self.mod.resolve_name(node.id)
            if isinstance(node, ast.Attribute):
                return self.mod.resolve_name(ast.unparse(node))
        except Exception:
            return None
        return None

    # ---- lattice
    def join(self, s1, s2):
        if s1 is None:
            return s2
        if s2 is None:
            return s1
        out = {}
        for k in set(s1) & set(s2):
            a, b = s1[k], s2[k]
            if k == "F":
                out[k] = a & b
            elif k == "C":
                out[k] = a | b
            elif a == b:
                out[k] = a
            elif k.startswith("b:"):
                continue
            elif k.startswith(("v:", "s:")) and isinstance(a, str) and isinstance(b, str):
                out[k] = _phi(a, b)
        # shadow attribute of an ndarray-subclass local that is out of date on one side only: it may be stale after the join
        for k in (set(s1) | set(s2)):
            if k.startswith("stale:"):
                nm = "v:" + k[6:]
                a, b = s1.get(k, s1.get(nm)), s2.get(k, s2.get(nm))
                if isinstance(a, str) and isinstance(b, str):
                    out[k] = a if a == b else _phi(a, b)
        out["C"] = s1.get("C", frozenset()) | s2.get("C", frozenset())
        # a join of a complex-tainted value with anything is (may be) complex
        for k, v in list(out.items()):
            if k.startswith(("v:", "s:")) and isinstance(v, str) and v.startswith("phi:"):
                if s1.get(k) in s1.get("C", ()) or s2.get(k) in s2.get("C", ()):
                    out["C"] = out["C"] | {v}
        if "F" not in out:
            out["F"] = frozenset()
        return out

    def initial(self):
        st = {"F": self.seed_facts, "C": frozenset()}
        st.update(self.seed_cells)
        a = self.func.node.args
        for p in a.posonlyargs + a.args + a.kwonlyargs:
            if p.arg == self.self_name:
                continue
            st["v:" + p.arg] = self.seed.get(p.arg, "P:" + p.arg)
            if p.arg in self.unit_params:
                st["F"] = st["F"] | {("UNIT", "P:" + p.arg)}
        return st

    def analyse(self):
        self.run(self.initial())
        return self

    # ---- value numbers
    def fresh(self, hint, node=None):
        self.counter += 1
        return "?%s@%s#%d" % (hint, getattr(node, "lineno", 0), self.counter)

    def np_name(self, f):
        if isinstance(f, ast.Attribute):
            parts = []
            root = f
            while isinstance(root, ast.Attribute):
                parts.append(root.attr)
                root = root.value
            if isinstance(root, ast.Name):
                imp = self.mod.imports.get(root.id)
                if imp and imp[0] == "ext" and imp[1].split(".")[0] == "numpy":
                    return ".".join(reversed(parts))
        return None

    def vn(self, node, st):
        if node is None:
            return "c:None"
        if isinstance(node, ast.Constant):
            return "c:%r" % (node.value,)
        if isinstance(node, ast.Name):
            k = "v:" + node.id
            if k in st:
                return st[k]
            return "g:" + node.id
        if isinstance(node, ast.Attribute):
            if isinstance(node.value, ast.Name) and node.value.id == self.self_name and self.self_name:
                return st.get("s:" + node.attr, "S:" + node.attr)
            base = self.vn(node.value, st)
            if node.attr in ("real", "A", "array"):
                return base
            if node.attr == "T":
                return "T(%s)" % base
            return "%s.%s" % (base, node.attr)
        if isinstance(node, ast.Subscript) and isinstance(node.value, ast.Attribute) and node.value.attr in ("c_", "r_") and self.np_name(node.value):
            elts = node.slice.elts if isinstance(node.slice, ast.Tuple) else [node.slice]
            zeros = [e for e in elts if isinstance(e, ast.Call) and (self.np_name(e.func) or "").split(".")[-1] in ("zeros", "zeros_like")
                     or (isinstance(e, ast.Constant) and e.value == 0)]
            rest = [e for e in elts if e not in zeros]
            if zeros and len(rest) == 1:
                return "pad0(%s)" % self.vn(rest[0], st)
            return "np.%s[%s]" % (node.value.attr, ",".join(self.vn(e, st) for e in elts))
        if isinstance(node, ast.Subscript):
            base = self.vn(node.value, st)
            sl = node.slice
            # shape-only indexing keeps the value number: x[:, None], x[None], x[np.newaxis, :]
            if _shape_only(sl):
                return base
            return "%s[%s]" % (base, self.vn_index(sl, st))
        if isinstance(node, ast.UnaryOp):
            if isinstance(node.op, ast.USub):
                return "neg(%s)" % self.vn(node.operand, st)
            if isinstance(node.op, ast.Not):
                return "not(%s)" % self.vn(node.operand, st)
            return self.vn(node.operand, st)
        if isinstance(node, ast.BinOp):
            op = type(node.op).__name__
            l, r = self.vn(node.left, st), self.vn(node.right, st)
            if op in ("Add", "Mult") and r < l:
                l, r = r, l
            return "%s(%s,%s)" % (op, l, r)
        if isinstance(node, ast.Call):
            return self.vn_call(node, st)
        if isinstance(node, (ast.List, ast.Tuple)):
            return "[%s]" % ",".join(self.vn(e.value if isinstance(e, ast.Starred) else e, st) if not isinstance(e, ast.Starred) else "*" + self.vn(e.value, st) for e in node.elts)
        if isinstance(node, ast.IfExp):
            a, b = self.vn(node.body, st), self.vn(node.orelse, st)
            return a if a == b else "ite(%s,%s,%s)" % (self.vn(node.test, st), a, b)
        if isinstance(node, ast.Compare):
            return "cmp(%s;%s)" % (self.vn(node.left, st), ";".join("%s %s" % (type(o).__name__, self.vn(c, st)) for o, c in zip(node.ops, node.comparators)))
        return self.fresh("expr", node)

    def vn_index(self, sl, st):
        if isinstance(sl, ast.Tuple):
            return ",".join(self.vn_index(e, st) for e in sl.elts)
        if isinstance(sl, ast.Slice):
            return "%s:%s:%s" % tuple("" if x is None else self.vn(x, st) for x in (sl.lower, sl.upper, sl.step))
        return self.vn(sl, st)

    def vn_call(self, node, st):
        if self._inlined.get(id(node)):
            return self._inlined[id(node)]
        f = node.func
        args = node.args
        npn = self.np_name(f)
        if npn is not None:
            last = npn.split(".")[-1]
            if last == "norm" and args:
                # a norm taken along an axis (one value per row) is a different quantity from the norm of the whole array:
                # ``norm(X) > 0`` does not make any row norm non-zero
                axis = next((k.value for k in node.keywords if k.arg == "axis"), args[2] if len(args) > 2 else None)
                inner = self.vn(args[0], st)
                if axis is not None and not (isinstance(axis, ast.Constant) and axis.value is None):
                    return norm_of("rows:" + inner)
                return norm_of(inner)
            if last in VALUE_PRESERVING_NP and args:
                return self.vn(args[0], st)
            if last == "mod" and len(args) == 2:
                return "Mod(%s,%s)" % (self.vn(args[0], st), self.vn(args[1], st))      # np.mod(a, b) is a % b
            # zero padding spelled as a stacking call: np.column_stack((np.zeros(n), q)) / np.hstack / np.concatenate(..., axis=1)
            if last in ("column_stack", "hstack", "concatenate") and args and isinstance(args[0], (ast.Tuple, ast.List)):
                elts = args[0].elts
                zeros = [e for e in elts if (isinstance(e, ast.Call) and (self.np_name(e.func) or "").split(".")[-1] in ("zeros", "zeros_like")) or (isinstance(e, ast.Constant) and e.value == 0)]
                rest = [e for e in elts if e not in zeros]
                if zeros and len(rest) == 1:
                    return "pad0(%s)" % self.vn(rest[0], st)
            # indices of the true entries of a mask, one canonical number: np.where(m) == np.nonzero(m) == np.nonzero(np.where(m, 1, 0)); np.flatnonzero(m) == np.where(m)[0]
            if last in ("where", "nonzero", "flatnonzero") and len(args) == 1 and not node.keywords:
                m_ = args[0]
                while isinstance(m_, ast.Call) and (self.np_name(m_.func) or "").split(".")[-1] == "where" and len(m_.args) == 3 \
                        and isinstance(m_.args[1], ast.Constant) and m_.args[1].value in (1, True) and isinstance(m_.args[2], ast.Constant) and m_.args[2].value in (0, False):
                    m_ = m_.args[0]
                inner_ = self.vn(m_, st)
                while inner_.startswith("np.where(") and inner_.endswith(",c:1,c:0)"):        # the 0/1 image of a mask held in a local
                    inner_ = inner_[len("np.where("):-len(",c:1,c:0)")]
                return "np.where(%s)%s" % (inner_, "[c:0]" if last == "flatnonzero" else "")
            return "np.%s(%s)" % (npn, ",".join(self.vn(a, st) for a in args if not isinstance(a, ast.Starred)))
        if isinstance(f, ast.Attribute):
            base = self.vn(f.value, st)
            if f.attr in self.SHADOW_READERS and isinstance(f.value, ast.Name) and ("stale:" + f.value.id) in st:
                return st["stale:" + f.value.id]      # the accessor returns the out-of-date shadow, not the object's value
            if f.attr in VALUE_PRESERVING_METHODS:
                return base
            return "%s.%s(%s)" % (base, f.attr, ",".join(self.vn(a, st) for a in args if not isinstance(a, ast.Starred)))
        if isinstance(f, ast.Name):
            if f.id == "len" and len(args) == 1:
                inner = st.get("shape:" + args[0].id) if isinstance(args[0], ast.Name) and st.get("shape:" + args[0].id) else self.vn(args[0], st)
                for like in ("np.zeros_like(", "np.empty_like(", "np.ones_like(", "np.full_like("):
                    while inner.startswith(like) and inner.endswith(")") and "," not in inner[len(like):-1].split("(")[0]:
                        inner = inner[len(like):-1]
                # len(np.zeros(X.shape)) / np.empty / np.ones of another array's shape: that array's length
                for alloc in ("np.zeros(", "np.empty(", "np.ones("):
                    if inner.startswith(alloc) and inner.endswith(".shape)") and inner.count("(") == inner.count(")"):
                        inner = inner[len(alloc):-len(".shape)")]
                return "len(%s)" % inner
            if f.id in ("float", "abs") and args:
                return self.vn(args[0], st) if f.id == "float" else "abs(%s)" % self.vn(args[0], st)
            parts = [self.vn(a.value if isinstance(a, ast.Starred) else a, st) for a in args]
            parts += ["%s=%s" % (k.arg, self.vn(k.value, st)) for k in node.keywords if k.arg]
            return "%s(%s)" % (f.id, ",".join(parts))
        return self.fresh("call", node)

    # ---- facts helpers
    def has(self, st, kind, vn):
        return (kind, vn) in st["F"]

    def add(self, st, kind, vn):
        st["F"] = st["F"] | {(kind, vn)}

    # ---- conditions
    def split(self, test, st):
        if isinstance(test, ast.Name) and test.id in self.assume and st.get("v:" + test.id) == "P:" + test.id:
            return (dict(st), None) if self.assume[test.id] else (None, dict(st))
        t, f = dict(st), dict(st)
        self.refine(test, t, True)
        self.refine(test, f, False)
        return t, f

    # ---- sign classes of one quantity: which of {pos, zero, neg, nan} make an element-wise predicate true
    _ALL_CLASSES = frozenset(("pos", "zero", "neg", "nan"))

    def _pred_classes(self, e, st, depth=0):
        """(vn of the quantity, classes on which the element-wise predicate ``e`` is true) or None.  Handles  X op 0,  isnan(X), isfinite(X),  not / ~,  and / or / & / |
        over the SAME quantity, and boolean locals bound to such predicates."""
        if depth > 6:
            return None
        if isinstance(e, ast.Name):
            rec = st.get("b:" + e.id)
            if rec is not None and self.vn(rec[0], st) == rec[1]:
                return self._pred_classes(rec[0], st, depth + 1)
            return None
        if isinstance(e, ast.UnaryOp) and isinstance(e.op, (ast.Not, ast.Invert)):
            r = self._pred_classes(e.operand, st, depth + 1)
            return (r[0], self._ALL_CLASSES - r[1]) if r else None
        if isinstance(e, ast.BoolOp) or (isinstance(e, ast.BinOp) and isinstance(e.op, (ast.BitAnd, ast.BitOr))):
            parts = e.values if isinstance(e, ast.BoolOp) else [e.left, e.right]
            is_and = isinstance(e.op, (ast.And, ast.BitAnd))
            rs = [self._pred_classes(p, st, depth + 1) for p in parts]
            if any(r is None for r in rs) or len({r[0] for r in rs}) != 1:
                return None
            acc = rs[0][1]
            for r in rs[1:]:
                acc = (acc & r[1]) if is_and else (acc | r[1])
            return (rs[0][0], acc)
        if isinstance(e, ast.Compare) and len(e.ops) == 1:
            op, l, r = e.ops[0], e.left, e.comparators[0]
            if _is_zero(l) and not _is_zero(r):
                l, r = r, l
                op = {ast.Lt: ast.Gt, ast.Gt: ast.Lt, ast.LtE: ast.GtE, ast.GtE: ast.LtE}.get(type(op), type(op))()
            if not _is_zero(r):
                return None
            table = {ast.Gt: {"pos"}, ast.GtE: {"pos", "zero"}, ast.Lt: {"neg"}, ast.LtE: {"neg", "zero"}, ast.Eq: {"zero"}, ast.NotEq: {"pos", "neg", "nan"}}
            t = table.get(type(op))
            return (self.vn(l, st), frozenset(t)) if t is not None else None
        if isinstance(e, ast.Call) and e.args:
            last = (self.np_name(e.func) or "").split(".")[-1]
            if last == "isnan":
                return (self.vn(e.args[0], st), frozenset(("nan",)))
            if last == "isfinite":
                return (self.vn(e.args[0], st), frozenset(("pos", "zero", "neg")))
        return None

    def _quantified(self, test, st, truth, depth=0):
        """classes every element of the quantity is known to lie in, given that ``test`` evaluated to ``truth``; None if nothing follows.
        P: each element;  all(P) / P.all(): each when true;  any(P) / P.any() / sum(P) / count_nonzero(P): none of them when false."""
        if depth > 6:
            return None
        if isinstance(test, ast.UnaryOp) and isinstance(test.op, ast.Not):
            return self._quantified(test.operand, st, not truth, depth + 1)
        if isinstance(test, ast.Name):
            rec = st.get("b:" + test.id)
            if rec is not None and self.vn(rec[0], st) == rec[1] and not isinstance(rec[0], ast.Name):
                return self._quantified(rec[0], st, truth, depth + 1)
            return None
        inner, mode = None, None
        if isinstance(test, ast.Call):
            nm = (self.np_name(test.func) or "").split(".")[-1] or (test.func.id if isinstance(test.func, ast.Name) else "")
            if nm in ("all", "any", "sum", "count_nonzero") and len(test.args) >= 1 and not isinstance(test.func, ast.Attribute):
                inner, mode = test.args[0], ("all" if nm == "all" else "any")
            elif nm in ("all", "any", "sum", "count_nonzero") and (self.np_name(test.func) or "") and test.args:
                inner, mode = test.args[0], ("all" if nm == "all" else "any")
            elif isinstance(test.func, ast.Attribute) and test.func.attr in ("all", "any", "sum") and not test.args:
                inner, mode = test.func.value, ("all" if test.func.attr == "all" else "any")
        if inner is not None:
            r = self._pred_classes(inner, st)
            if r is None:
                return None
            if mode == "all" and truth:
                return r
            if mode == "any" and not truth:
                return (r[0], self._ALL_CLASSES - r[1])
            return None
        r = self._pred_classes(test, st)
        if r is None:
            return None
        return r if truth else (r[0], self._ALL_CLASSES - r[1])

    def refine(self, test, st, truth):
        """add the facts implied by ``test`` being ``truth``"""
        q_ = self._quantified(test, st, truth)
        if q_ is not None and q_[1]:
            if q_[1] <= {"pos", "neg"}:
                self.add(st, "NZ", q_[0])
                self.add(st, "NZS", q_[0])
            elif q_[1] <= {"pos", "neg", "nan"}:
                self.add(st, "NZ", q_[0])
        if isinstance(test, ast.Name):
            # a boolean local holding a comparison:  at_pole = cos_lat == 0.0 ... if at_pole:
            rec = st.get("b:" + test.id)
            if rec is not None and self.vn(rec[0], st) == rec[1]:
                return self.refine(rec[0], st, truth)
            return
        if isinstance(test, ast.UnaryOp) and isinstance(test.op, ast.Not):
            return self.refine(test.operand, st, not truth)
        if isinstance(test, ast.BoolOp):
            if isinstance(test.op, ast.And) and truth:
                for v in test.values:
                    self.refine(v, st, True)
            elif isinstance(test.op, ast.Or) and not truth:
                for v in test.values:
                    self.refine(v, st, False)
            return
        if isinstance(test, ast.Compare) and len(test.ops) == 1:
            op, left, right = test.ops[0], test.left, test.comparators[0]
            # normalise: quantity on the left, zero on the right
            if _is_zero(left) and not _is_zero(right):
                left, right = right, left
                op = {ast.Lt: ast.Gt, ast.Gt: ast.Lt, ast.LtE: ast.GtE, ast.GtE: ast.LtE}.get(type(op), type(op))()
            if _is_zero(right):
                # vectorised idiom: np.where(n == 0)[0].size > 0   (true: some zero; false: all non-zero)
                inner = _where_zero_size(left)
                if inner is not None and isinstance(op, (ast.Gt, ast.NotEq)):
                    if not truth:
                        self.add(st, "NZ", self.vn(inner, st))
                    return
                vn = self.vn(left, st)
                if isinstance(op, ast.Gt) and truth:
                    self.add(st, "NZ", vn)
                    self.add(st, "NZS", vn)       # NaN-safe: NaN > 0 is False
                elif isinstance(op, ast.Lt) and truth:
                    self.add(st, "NZ", vn)
                elif isinstance(op, ast.NotEq) and truth:
                    self.add(st, "NZ", vn)
                elif isinstance(op, ast.Eq) and not truth:
                    self.add(st, "NZ", vn)
                elif isinstance(op, ast.LtE) and not truth:
                    self.add(st, "NZ", vn)
                elif isinstance(op, ast.GtE) and not truth:
                    self.add(st, "NZ", vn)
            return
        # bare truthiness of a count:  if x.size: / if len(x): / if np.any(m): / if m.any():
        if isinstance(test, ast.Attribute) and test.attr == "size" and truth:
            self.add(st, "NZ", self.vn(test, st))
            return
        if isinstance(test, ast.Call) and isinstance(test.func, ast.Name) and test.func.id == "len" and len(test.args) == 1 and truth:
            self.add(st, "NZ", self.vn(test, st))
            return
        if isinstance(test, ast.Call) and truth:
            inner_ = None
            if (self.np_name(test.func) or "") == "any" and len(test.args) == 1 and not test.keywords:
                inner_ = test.args[0]
            elif isinstance(test.func, ast.Attribute) and test.func.attr == "any" and not test.args and not test.keywords:
                inner_ = test.func.value
            if inner_ is not None and not isinstance(inner_, (ast.Compare, ast.UnaryOp)):
                self.add(st, "ANY", self.vn(inner_, st))
        if isinstance(test, ast.Call):
            npn = self.np_name(test.func)
            if npn in ("isclose", "allclose") and len(test.args) >= 2:
                a, b = test.args[0], test.args[1]
                if _is_zero(b) and not truth:
                    self.add(st, "NZ", self.vn(a, st))
                if _is_one(b) and truth and isinstance(a, ast.Call) and (self.np_name(a.func) or "").endswith("norm") and a.args:
                    self.add(st, "UNIT", self.vn(a.args[0], st))
            # sum(~(n > 0)) / any(n == 0) style reductions
            red = test.func.id if isinstance(test.func, ast.Name) else (npn.split(".")[-1] if npn else None)
            if red is None and isinstance(test.func, ast.Attribute) and test.func.attr in ("any", "sum") and not test.args:
                # method form:  (n == 0).any()
                red, test = test.func.attr, ast.Call(func=ast.Name(id="any", ctx=ast.Load()), args=[test.func.value], keywords=[])
            if red in ("sum", "any", "count_nonzero") and test.args:
                inner = test.args[0]
                if isinstance(inner, ast.UnaryOp) and isinstance(inner.op, ast.Invert):
                    c = inner.operand
                    if isinstance(c, ast.Compare) and isinstance(c.ops[0], ast.Gt) and _is_zero(c.comparators[0]) and not truth:
                        self.add(st, "NZ", self.vn(c.left, st))
                        self.add(st, "NZS", self.vn(c.left, st))
                if isinstance(inner, ast.Compare) and isinstance(inner.ops[0], ast.Eq) and _is_zero(inner.comparators[0]) and not truth:
                    self.add(st, "NZ", self.vn(inner.left, st))
            return
        # bare truthiness `if x:` gives nothing

    # ---- statements
    def check_divisions(self, node, st):
        """divisions in an expression; conditional expressions refine the facts of their arms"""
        if isinstance(node, ast.IfExp):
            self.check_divisions(node.test, st)
            t, f = self.split(node.test, st)
            if t is not None:
                self.check_divisions(node.body, t)
            if f is not None:
                self.check_divisions(node.orelse, f)
            return
        if isinstance(node, ast.BinOp) and isinstance(node.op, ast.Div):
            self.note_division(node, node.right, st)
        for c in ast.iter_child_nodes(node):
            if isinstance(c, (ast.expr, ast.keyword, ast.comprehension)):
                self.check_divisions(c, st)

    def note_division(self, node, divisor, st):
        d = self.vn(divisor, st)
        self.divisions.append({"node": node, "vn": d, "guarded": self.has(st, "NZ", d), "stmt": None, "facts": st["F"]})

    def expr(self, node, st):
        self.check_divisions(node, st)
        for n in ast.walk(node):
            if isinstance(n, ast.Call):
                self.on_call(n, st)

    def on_call(self, node, st):
        # a helper that raises unless its argument is non-zero: callbacks may add facts
        cb = self.cb.get("call")
        if cb:
            cb(self, node, st)
        if self.inline_private and self._depth < 2:
            self.inline(node, st)

    def inline(self, node, st):
        """`self._helper(args)` of the same class: run the helper as a continuation of this state (parameters carry the caller's value numbers and the
        facts of the argument expressions, self-attribute cells flow in and out, divisions are collected); the call's value number becomes the
        helper's returned value number when it is the same on every returning path"""
        f = node.func
        if not (isinstance(f, ast.Attribute) and isinstance(f.value, ast.Name) and f.value.id == self.self_name and self.func.cls is not None):
            return
        g = self.func.cls.lookup(f.attr)
        if g is None or g is self.func or not g.name.startswith("_") or g.name.startswith("__") or id(node) in self._inlined:
            return
        params = g.params[1:] if not g.is_static else g.params
        seed, extra = {}, set()
        for p, a in list(zip(params, node.args)) + [(k.arg, k.value) for k in node.keywords if k.arg in params]:
            if isinstance(a, ast.Starred):
                continue
            seed[p] = self.vn(a, st)
            try:
                if self.is_unit(a, st):
                    extra.add(("UNIT", seed[p]))
            except Exception:
                pass
        cells = {k: v for k, v in st.items() if k.startswith("s:")}
        sub = type(self)(g, self.prog, callbacks=self.cb, unit_summaries=self.unit_summaries, seed=seed, seed_facts=st["F"] | frozenset(extra),
                         inline_private=True, seed_cells=cells, _depth=self._depth + 1) if type(self) is Facts else \
            Facts(g, self.prog, callbacks=self.cb, unit_summaries=self.unit_summaries, seed=seed, seed_facts=st["F"] | frozenset(extra),
                  inline_private=True, seed_cells=cells, _depth=self._depth + 1)
        try:
            sub.analyse()
        except Exception:
            return
        exits = [rst for _, rst in sub.returns if rst is not None]
        if not exits:
            return
        joined = exits[0]
        for e in exits[1:]:
            joined = self.join(joined, e)
        for k, v in joined.items():
            if k.startswith("s:"):
                st[k] = v
        st["F"] = joined.get("F", st["F"])
        self.divisions.extend(sub.divisions)
        vns = {r["vn"] for r in sub.ret_info if not r.get("none")}
        self._inlined[id(node)] = vns.pop() if len(vns) == 1 else None
        rets = [(stmt, rst) for stmt, rst in sub.returns if rst is not None and stmt is not None and getattr(stmt, "value", None) is not None]
        if len(rets) == 1 and isinstance(rets[0][0].value, ast.Tuple):
            stmt, rst = rets[0]
            elems = []
            for e in stmt.value.elts:
                try:
                    elems.append((sub.vn(e, rst), bool(sub.is_unit(e, rst)), sub.local_types.get(e.id) if isinstance(e, ast.Name) else None))
                except Exception:
                    elems.append((None, False, None))
            self._inlined_tuple[id(node)] = elems

    def s_Assign(self, s, st):
        self.expr(s.value, st)
        val = self.vn(s.value, st)
        for t in s.targets:
            self.bind(t, s.value, val, st, s)
        return st

    def s_AnnAssign(self, s, st):
        if s.value is not None:
            self.expr(s.value, st)
            self.bind(s.target, s.value, self.vn(s.value, st), st, s)
        return st

    def bind(self, t, value_node, val, st, stmt):
        if isinstance(t, ast.Name):
            st.pop("b:" + t.id, None)
            st.pop("shape:" + t.id, None)
            stale = self.stale_origin(value_node, st)
            st.pop("stale:" + t.id, None)
            if stale is not None:
                st["stale:" + t.id] = stale
            if isinstance(value_node, (ast.Compare, ast.BoolOp)) or (isinstance(value_node, ast.UnaryOp) and isinstance(value_node.op, (ast.Not, ast.Invert))) \
                    or (isinstance(value_node, ast.BinOp) and isinstance(value_node.op, (ast.BitAnd, ast.BitOr))) \
                    or (isinstance(value_node, ast.Call) and (self.np_name(value_node.func) or "") in ("isclose", "allclose", "isnan", "isfinite")):
                st["b:" + t.id] = (value_node, self.vn(value_node, st))
            # facts about the right-hand side are derived in the state *before* the name is rebound
            unit = value_node is not None and self.is_unit(value_node, st)
            cplx = value_node is not None and self.is_complex(value_node, st)
            st["v:" + t.id] = val
            if unit:
                self.add(st, "UNIT", val)
            if cplx:
                st["C"] = st["C"] | {val}
        elif isinstance(t, (ast.Tuple, ast.List)):
            if isinstance(value_node, (ast.Tuple, ast.List)) and len(value_node.elts) == len(t.elts):
                for e, v in zip(t.elts, value_node.elts):
                    self.bind(e, v, self.vn(v, st), st, stmt)
            elif isinstance(value_node, ast.Call) and id(value_node) in self._inlined_tuple and len(self._inlined_tuple[id(value_node)]) == len(t.elts):
                for e, (evn, eunit, etype) in zip(t.elts, self._inlined_tuple[id(value_node)]):
                    if isinstance(e, ast.Name) and evn is not None:
                        st.pop("b:" + e.id, None)
                        st.pop("stale:" + e.id, None)
                        st["v:" + e.id] = evn
                        if eunit:
                            self.add(st, "UNIT", evn)
                        if etype is not None and e.id not in self.local_types:
                            self.local_types[e.id] = etype
                    else:
                        self.bind(e, None, self.fresh("elt", stmt), st, stmt)
            else:
                eig = isinstance(value_node, ast.Call) and (self.np_name(value_node.func) or "").split(".")[-1] in ("eig", "eigh")
                for i, e in enumerate(t.elts):
                    if isinstance(e, ast.Starred):
                        e = e.value
                    ev = "%s[%d]" % (val, i)
                    self.bind(e, None, ev, st, stmt)
                    if eig:
                        if i == 1:
                            self.add(st, "EIGVEC", ev)
                        if (self.np_name(value_node.func) or "").endswith("eig"):
                            st["C"] = st["C"] | {ev}
        elif isinstance(t, ast.Attribute):
            if isinstance(t.value, ast.Name) and t.value.id == self.self_name and self.self_name:
                st["s:" + t.attr] = val
                w = self.cb.get("self_write")
                if w:
                    w(self, t.attr, stmt, st)
        elif isinstance(t, ast.Subscript):
            # store into an element/slice: the container's value changes
            base = t.value
            new = self.fresh("store", stmt)
            sc = self.cb.get("store")
            if sc:
                sc(self, t, stmt, st)
            if isinstance(base, ast.Name):
                if st.get("v:" + base.id) in st["C"]:
                    st["C"] = st["C"] | {new}       # storing into a complex array keeps it complex
                st.setdefault("shape:" + base.id, st.get("v:" + base.id))      # element stores change values, never the shape
                st["v:" + base.id] = new
            elif isinstance(base, ast.Attribute) and isinstance(base.value, ast.Name) and base.value.id == self.self_name:
                st["s:" + base.attr] = new
                w = self.cb.get("self_write")
                if w:
                    w(self, base.attr, stmt, st)

    SHADOW_READERS = {"to_array"}       # methods that return the shadow attribute itself

    def stale_origin(self, value_node, st):
        """``x <op> y`` on a local of an ndarray subclass whose class does not overload <op>: NumPy builds the result and
        __array_finalize__ copies the shadow attributes (e.g. Quaternion.A) from the *operand*, so they describe x, not the result"""
        if not (isinstance(value_node, ast.BinOp) and isinstance(value_node.left, ast.Name)):
            return None
        c = self.local_types.get(value_node.left.id)
        if c is None or not any(ast.unparse(b).split(".")[-1] == "ndarray" for b in c.node.bases):
            return None
        fin = c.lookup("__array_finalize__")
        if fin is None or not any(isinstance(x, ast.Call) and ast.unparse(x.func) == "getattr" for x in ast.walk(fin.node)):
            return None
        dunder = {"Div": "__truediv__", "Mult": "__mul__", "Add": "__add__", "Sub": "__sub__", "MatMult": "__matmul__", "Pow": "__pow__",
                  "FloorDiv": "__floordiv__", "Mod": "__mod__"}.get(type(value_node.op).__name__)
        if dunder is None or c.lookup(dunder) is not None:
            return None
        return st.get("stale:" + value_node.left.id, self.vn(value_node.left, st))

    def s_AugAssign(self, s, st):
        self.expr(s.value, st)
        t = s.target
        op = type(s.op).__name__
        if isinstance(s.op, ast.Div):
            self.note_division(s, s.value, st)
        rhs = self.vn(s.value, st)
        if isinstance(t, ast.Name):
            old = self.vn(t, st)
            l, r = old, rhs
            if op in ("Add", "Mult") and r < l:
                l, r = r, l
            new = "%s(%s,%s)" % (op, l, r)
            st["v:" + t.id] = new
            self.derive_binop(new, op, old, rhs, st, left_node=t, typed=self.local_types.get(t.id), inplace=True)
        elif isinstance(t, ast.Attribute) and isinstance(t.value, ast.Name) and t.value.id == self.self_name and self.self_name:
            old = self.vn(t, st)
            st["s:" + t.attr] = "%s(%s,%s)" % (op, old, rhs)
            w = self.cb.get("self_write")
            if w:
                w(self, t.attr, s, st)
        elif isinstance(t, ast.Subscript):
            self.bind(t, None, None, st, s)
        return st

    # ---- UNIT / complex derivations
    def derive(self, val, node, st):
        """facts about the value number ``val`` of expression ``node``"""
        if node is None:
            return
        if self.is_unit(node, st):
            self.add(st, "UNIT", val)
        if self.is_complex(node, st):
            st["C"] = st["C"] | {val}

    def derive_binop(self, new, op, l, r, st, left_node=None, typed=None, inplace=False):
        # x / norm(x)  (self-normalisation)
        if op == "Div" and r in (norm_of(l), norm_of("rows:" + l)):
            self.add(st, "UNIT", new)
        if l in st["C"] or r in st["C"]:
            st["C"] = st["C"] | {new}

    def is_unit(self, node, st, depth=0):
        """syntactic/semantic derivations of UNIT for an expression (must)"""
        if depth > 6:
            return False
        vn = self.vn(node, st)
        if self.has(st, "UNIT", vn):
            return True
        if isinstance(node, ast.BinOp) and isinstance(node.op, ast.Div):
            l, r = self.vn(node.left, st), self.vn(node.right, st)
            if r in (norm_of(l), norm_of("rows:" + l)):
                return True
            # x / norm(x, axis=1)[:, None] handled by value-preserving shape indexing
        if isinstance(node, ast.BinOp) and isinstance(node.op, (ast.Add, ast.Sub)):
            # Quaternion.__add__/__sub__ re-enter the constructor (normalising) -- only for typed Quaternion objects
            c = self.local_types.get(node.left.id) if isinstance(node.left, ast.Name) else None
            if c is not None and c.name == "Quaternion" and self._ctor_normalises(c):
                f = c.lookup("__add__" if isinstance(node.op, ast.Add) else "__sub__")
                if f is not None and _returns_ctor_of(f, c):
                    return True
        if isinstance(node, ast.UnaryOp) and isinstance(node.op, ast.USub):
            return self.is_unit(node.operand, st, depth + 1)
        if isinstance(node, ast.Attribute) and node.attr == "T":
            return self.is_unit(node.value, st, depth + 1)       # a transposed stack of unit quaternions is the same quaternions
        if isinstance(node, ast.Name) and depth < 4:
            # a module-level tuple / list of four numbers with unit norm (an identity-quaternion constant)
            try:
                r_ = self.func.module.resolve_name(node.id) if ("v:" + node.id) not in st else None
            except Exception:
                r_ = None
            if isinstance(r_, tuple) and r_[0] == "assign" and isinstance(r_[3], (ast.Tuple, ast.List)):
                return self.is_unit(r_[3], st, depth + 1)
        if isinstance(node, (ast.List, ast.Tuple)) or (isinstance(node, ast.Call) and (self.np_name(node.func) or "") == "array" and node.args and isinstance(node.args[0], (ast.List, ast.Tuple))):
            lit = node if isinstance(node, (ast.List, ast.Tuple)) else node.args[0]
            try:
                vals = [float(ast.literal_eval(e)) for e in lit.elts]
                if len(vals) == 4 and abs(sum(v * v for v in vals) - 1.0) < 1e-12:
                    return True
            except Exception:
                pass
        if isinstance(node, ast.Call):
            f = node.func
            npn = self.np_name(f)
            if npn is not None and npn.split(".")[-1] in (VALUE_PRESERVING_NP | {"roll", "flip", "array", "asarray", "ascontiguousarray", "transpose"}) and node.args:
                return self.is_unit(node.args[0], st, depth + 1)      # permutations / copies / transpositions keep the norm
            r = self._resolve(f)
            if isinstance(r, Class) and r.name == "Quaternion":
                # versor defaults to True; versor=False explicitly disables normalisation
                for k in node.keywords:
                    if k.arg == "versor" and not (isinstance(k.value, ast.Constant) and k.value.value is True):
                        return False
                if len(node.args) >= 2:
                    return False
                return self._ctor_normalises(r)
            if isinstance(r, Func):
                return self.callee_unit(r, node, st)
            if isinstance(f, ast.Attribute):
                recv = f.value
                c = self.local_types.get(recv.id) if isinstance(recv, ast.Name) else None
                if isinstance(recv, ast.Call):
                    rr = self._resolve(recv.func)
                    c = rr if isinstance(rr, Class) else c
                if f.attr in self.SHADOW_READERS and isinstance(recv, ast.Name) and ("stale:" + recv.id) in st:
                    return self.has(st, "UNIT", st["stale:" + recv.id])    # what the accessor returns is the out-of-date shadow
                if f.attr in VALUE_PRESERVING_METHODS:
                    return self.is_unit(recv, st, depth + 1)
                if isinstance(recv, ast.Name) and recv.id == self.self_name and self.func.cls is not None:
                    m = self.func.cls.lookup(f.attr)
                    if m is not None:
                        if m.name.startswith("_") and not m.name.startswith("__") and depth < 3:
                            return self.private_callee_unit(m, node, st, depth)
                        return self.callee_unit(m, node, st)
                if c is not None:
                    m = c.lookup(f.attr)
                    if m is not None:
                        if m.name == "product" and c.name == "Quaternion":
                            return self.is_unit(recv, st, depth + 1) and node.args and self.is_unit(node.args[0], st, depth + 1)
                        return self.callee_unit(m, node, st)
        if isinstance(node, ast.Attribute) and node.attr in ("conjugate", "conj", "A", "array", "real"):
            return self.is_unit(node.value, st, depth + 1)
        if isinstance(node, ast.Subscript):
            # eigenvector column  v[:, argmax(w)]  of np.linalg.eig/eigh
            base = node.value
            if isinstance(base, ast.Name) and ("EIGVEC", self.vn(base, st)) in st["F"]:
                sl = node.slice
                if isinstance(sl, ast.Tuple) and len(sl.elts) == 2 and isinstance(sl.elts[0], ast.Slice) and sl.elts[0].lower is None:
                    return True
        if isinstance(node, ast.IfExp):
            return self.is_unit(node.body, st, depth + 1) and self.is_unit(node.orelse, st, depth + 1)
        return False

    def _ctor_normalises(self, cls: Class):
        """Quaternion.__new__: every path to the object creation with versor true passes ``q /= norm``"""
        key = ("ctor_norm", cls.ref)
        if key in self.unit_summaries:
            return self.unit_summaries[key]
        new = cls.lookup("__new__")
        ok = False
        if new is not None:
            # structural: an `if versor: q /= q_norm` (or q = q / q_norm) with q_norm = norm(q), before obj creation
            for n in ast.walk(new.node):
                if isinstance(n, ast.If) and isinstance(n.test, ast.Name) and n.test.id.startswith("versor"):
                    for b in n.body:
                        if isinstance(b, ast.AugAssign) and isinstance(b.op, ast.Div):
                            ok = True
                        if isinstance(b, ast.Assign) and isinstance(b.value, ast.BinOp) and isinstance(b.value.op, ast.Div):
                            ok = True
        self.unit_summaries[key] = ok
        return ok

    def callee_unit(self, callee: Func, node, st):
        """does the callee return UNIT on every returning path (given UNIT parameters named q*)?"""
        key = ("unit", callee.ref)
        if key in self.unit_summaries:
            v = self.unit_summaries[key]
            return bool(v)
        self.unit_summaries[key] = False      # recursion guard (pessimistic)
        sub = Facts(callee, self.prog, unit_params=[p for p in callee.params if p in ("q", "q0", "q_1", "q_omega", "q_g")],
                    callbacks=self.cb, unit_summaries=self.unit_summaries)
        sub.analyse()
        ok = bool(sub.ret_info) and all(r["unit"] or r["none"] for r in sub.ret_info)
        self.unit_summaries[key] = ok
        self.unit_summaries[("unit_detail", callee.ref)] = sub.ret_info
        return ok

    def private_callee_unit(self, callee: Func, node, st, depth=0):
        """a private helper of the same class is analysed as a continuation of the caller: its parameters carry the caller's value numbers and the
        must-facts of the argument expressions (a unit quaternion passed in stays unit inside)"""
        params = callee.params[1:] if callee.cls is not None and not callee.is_static else callee.params
        seed, extra = {}, set()
        pairs = list(zip(params, node.args)) + [(k.arg, k.value) for k in node.keywords if k.arg in params]
        for p, a in pairs:
            if isinstance(a, ast.Starred):
                continue
            seed[p] = self.vn(a, st)
            if self.is_unit(a, st, depth + 1):
                extra.add(("UNIT", seed[p]))
        key = ("unit-private", callee.ref, tuple(sorted(seed.items())), frozenset(extra))
        if key in self.unit_summaries:
            return bool(self.unit_summaries[key])
        self.unit_summaries[key] = False
        sub = Facts(callee, self.prog, callbacks={}, unit_summaries=self.unit_summaries, seed=seed, seed_facts=st["F"] | frozenset(extra), inline_private=True,
                    _depth=self._depth + 1)
        for p, a in pairs:        # an argument that is a typed local (a Quaternion object) stays one inside
            if isinstance(a, ast.Name) and a.id in self.local_types and p not in sub.local_types:
                sub.local_types[p] = self.local_types[a.id]
        sub.analyse()
        ok = bool(sub.ret_info) and all(r["unit"] or r["none"] for r in sub.ret_info)
        self.unit_summaries[key] = ok
        return ok

    def is_complex(self, node, st):
        if isinstance(node, ast.Call):
            npn = self.np_name(node.func) or ""
            last = npn.split(".")[-1]
            if last in COMPLEX_SOURCES or npn.startswith("emath."):
                return True
            if last in REAL_SANITISERS:
                return False
            # a helper of the repository every return of which takes the real part (x.real / np.real(x)) hands back a real value whatever it was given
            try:
                callee = self._resolve(node.func)
            except Exception:
                callee = None
            if isinstance(callee, Func):
                rets = [r.value for r in ast.walk(callee.node) if isinstance(r, ast.Return) and r.value is not None]
                if rets and all((isinstance(v, ast.Attribute) and v.attr == "real") or
                                (isinstance(v, ast.Call) and ast.unparse(v.func).split(".")[-1] in REAL_SANITISERS) for v in rets):
                    return False
        if isinstance(node, ast.Attribute) and node.attr == "real":
            return False
        for n in ast.iter_child_nodes(node):
            if isinstance(n, ast.expr) and not (isinstance(node, ast.Call) and n is node.func):
                if self.vn(n, st) in st["C"] or self.is_complex(n, st):
                    if isinstance(node, ast.Attribute) and node.attr == "real":
                        return False
                    return True
        return False

    def s_Return(self, s, st):
        if s.value is not None:
            self.expr(s.value, st)
        info = {"stmt": s, "line": s.lineno, "none": s.value is None or (isinstance(s.value, ast.Constant) and s.value.value is None),
                "vn": self.vn(s.value, st) if s.value is not None else None, "text": stmt_text(s)}
        if s.value is not None and not info["none"]:
            vals = s.value.elts if isinstance(s.value, ast.Tuple) else [s.value]
            first = vals[0]
            info["unit"] = self.is_unit(first, st)
            info["complex"] = (self.vn(first, st) in st["C"]) or self.is_complex(first, st)
            # `return a if c else b`: the leaves of the conditional expression, each with its own facts
            leaves, todo = [], [first]
            while todo:
                e = todo.pop()
                if isinstance(e, ast.IfExp):
                    todo.extend([e.orelse, e.body])
                else:
                    leaves.append(e)
            if len(leaves) > 1:
                info["arms"] = [{"expr": e, "text": ast.unparse(e), "unit": self.is_unit(e, st),
                                 "complex": (self.vn(e, st) in st["C"]) or self.is_complex(e, st)} for e in leaves]
                info["unit"] = info["unit"] or all(a["unit"] for a in info["arms"])
                info["complex"] = info["complex"] or any(a["complex"] for a in info["arms"])
        else:
            info["unit"] = False
            info["complex"] = False
        self.ret_info.append(info)
        self.returns.append((s, st))
        return None

    def on_raise(self, stmt, st):
        self.raises.append(stmt)

    def s_For(self, s, st):
        fc = self.cb.get("for")
        if fc:
            fc(self, s, st)
        return super().s_For(s, st)

    def assign_loop_target(self, target, iter_node, st):
        """loop variables get a fresh value number on every pass (facts about one element must not carry over to the next); LOOP_DESC remembers
        what each one stands for -- element (component i of the element) of which iterable -- so that two copies of a loop can be compared"""
        try:
            it_vn = self.vn(iter_node, st)
        except Exception:
            it_vn = "?"
        if isinstance(target, ast.Name):
            v = self.fresh("iter", iter_node)
            LOOP_DESC[v] = "elt(%s)" % it_vn
            st["v:" + target.id] = v
            return
        elts = target.elts if isinstance(target, (ast.Tuple, ast.List)) else []
        for i, e in enumerate(elts):
            for n in ast.walk(e):
                if isinstance(n, ast.Name):
                    v = self.fresh("iter", iter_node)
                    LOOP_DESC[v] = "elt(%s)[c:%d]" % (it_vn, i)
                    st["v:" + n.id] = v

    def bind_const(self, name, value, st):
        st["v:" + name] = "c:%r" % value

    def unbind_const(self, name, st):
        st.pop("v:" + name, None)


PHI = {}      # phi name -> frozenset of member value numbers
LOOP_DESC = {}      # fresh value number of a loop variable -> canonical description elt(<iterable>)[i]


def _phi(a, b):
    import hashlib
    parts = set()
    for x in (a, b):
        # absorb: phi{x, ...} joined with x again is the same phi
        if x in PHI and (b if x is a else a) in PHI[x]:
            return x
        parts.add(x)
    members = frozenset(parts)
    name = "phi:" + hashlib.md5(" | ".join(sorted(members)).encode()).hexdigest()[:10]
    PHI[name] = members
    return name


def norm_of(vn):
    """canonical value number of the Euclidean norm of ``vn``: zero padding and join of norm-equal alternatives are transparent"""
    def core(x):
        pre = ""
        if x.startswith("rows:"):
            pre, x = "rows:", x[5:]
        while x.startswith("pad0(") and x.endswith(")"):
            x = x[5:-1]
        return pre + x
    vn = core(vn)
    pre, bare = ("rows:", vn[5:]) if vn.startswith("rows:") else ("", vn)
    if bare in PHI:
        cores = {core(pre + p) for p in PHI[bare]}
        if len(cores) == 1:
            return "norm(%s)" % cores.pop()
    return "norm(%s)" % vn


def _shape_only(sl):
    """index that only adds/removes unit axes or takes everything: [:, None], [None], [..., None], [:]"""
    def ok(e):
        if isinstance(e, ast.Slice):
            return e.lower is None and e.upper is None and e.step is None
        if isinstance(e, ast.Constant) and e.value in (None, Ellipsis):
            return True
        if isinstance(e, ast.Attribute) and e.attr == "newaxis":
            return True
        return False
    if isinstance(sl, ast.Tuple):
        return all(ok(e) for e in sl.elts)
    return ok(sl)


def _is_zero(n):
    return isinstance(n, ast.Constant) and isinstance(n.value, (int, float)) and not isinstance(n.value, bool) and n.value == 0


def _is_one(n):
    return isinstance(n, ast.Constant) and isinstance(n.value, (int, float)) and not isinstance(n.value, bool) and n.value == 1


def _where_zero_size(n):
    """np.where(X == 0)[0].size  -> X"""
    if isinstance(n, ast.Attribute) and n.attr == "size" and isinstance(n.value, ast.Subscript):
        c = n.value.value
        if isinstance(c, ast.Call) and ast.unparse(c.func).endswith("where") and c.args:
            t = c.args[0]
            if isinstance(t, ast.Compare) and isinstance(t.ops[0], ast.Eq) and _is_zero(t.comparators[0]):
                return t.left
    # np.count_nonzero(X == 0) / np.sum(X == 0) / (X == 0).sum(): the number of zeros
    if isinstance(n, ast.Call):
        nm = ast.unparse(n.func).split(".")[-1]
        t = None
        if nm in ("count_nonzero", "sum") and n.args and ast.unparse(n.func).startswith(("np.", "numpy.")):
            t = n.args[0]
        elif nm in ("sum",) and isinstance(n.func, ast.Attribute) and not n.args:
            t = n.func.value
        if isinstance(t, ast.Compare) and len(t.ops) == 1 and isinstance(t.ops[0], ast.Eq) and _is_zero(t.comparators[0]):
            return t.left
    return None


def _returns_ctor_of(f: Func, cls: Class):
    for n in ast.walk(f.node):
        if isinstance(n, ast.Return) and n.value is not None:
            if not (isinstance(n.value, ast.Call) and isinstance(n.value.func, ast.Name) and n.value.func.id == cls.name):
                return False
    return True
