"""C01 — quaternions and rotation matrices are one rotation group.

Decided (AVN, exact over the reals): every extracted copy of the quaternion->matrix
formula is orthogonal with det +1, agrees with Quaternion.to_DCM (and with the
textbook Euler-Rodrigues matrix), is even in q and sends the conjugate to the
transpose; the matrix of the extracted Hamilton product is the product of the
matrices; rotate()/q v q*/q_rot agree with the matrix.  Unit quaternions are modelled
as normalised free 4-vectors, so the only algebraic relation used is sqrt(s)^2 = s.
Not decided: floating-point rounding.
Added after the seeding rounds (DESIGN.md 6.6-6.8):
 IDENT.storage  the matrix of an object stored scalar-last equals that of the same quaternion stored scalar-first (both classes).
Added after refactoring round 3 (DESIGN.md 6.9):
 IDENT.rotate(3xN)  rotate(A) == E(q) A for 3-by-2, 3-by-3 and 3-by-4 arrays of column vectors (N == 3 is the corner where a row/column mix-up keeps the shape).
"""
import ast
import numpy as np
from sa import poly as P
from sa.lib import *
from sa.symeval import Interp, unit_quat, sym_vec, arr_same, det, to_obj, ClassRef, Obj


def matrix_sites(prog):
    """(label, callable(it, q_components_array) -> 3x3 matrix) for every copy of the formula"""
    sites = []

    def s_quat(it, q):
        return E_of(it, q)
    sites.append(("Quaternion.to_DCM", QUAT + "::Quaternion.to_DCM", s_quat))

    def s_qarr(it, q):
        q2 = np.vstack([q, unit_quat("other")])
        # second row is an unrelated generic row; is_versor guard is decided by the generic oracle
        R = it.run(prog.func(QUAT + "::QuaternionArray.to_DCM"), [], self_obj=quat_obj(it, q2, cls="QuaternionArray"))
        return R[0]
    sites.append(("QuaternionArray.to_DCM[row]", QUAT + "::QuaternionArray.to_DCM", s_qarr))

    def s_dcm_single(it, q):
        return it.run(prog.func(DCM + "::DCM.from_quaternion"), [ClassRef(prog.cls(DCM + "::DCM")), q.copy()])
    sites.append(("DCM.from_quaternion(4,)", DCM + "::DCM.from_quaternion", s_dcm_single))

    def s_dcm_batch(it, q):
        q2 = np.vstack([q, unit_quat("other")])
        return it.run(prog.func(DCM + "::DCM.from_quaternion"), [ClassRef(prog.cls(DCM + "::DCM")), q2])[0]
    sites.append(("DCM.from_quaternion(N,4)[row]", DCM + "::DCM.from_quaternion", s_dcm_batch))

    for v in (1, 2):
        def s_q2r(it, q, v=v):
            return it.run(prog.func(ORI + "::q2R"), [q.copy()], {"version": v})
        sites.append(("q2R(version=%d)(4,)" % v, ORI + "::q2R", s_q2r))

        def s_q2rb(it, q, v=v):
            q2 = np.vstack([q, unit_quat("other")])
            return it.run(prog.func(ORI + "::q2R"), [q2], {"version": v})[0]
        sites.append(("q2R(version=%d)(N,4)[row]" % v, ORI + "::q2R", s_q2rb))
    return sites


def versor_oracle(cond, it):
    # is_versor()/isclose(norm,1) guards: the input is a unit quaternion
    if cond.op in ("isclose", "allclose"):
        return True if "versor" in (it.func_stack[-1].name if it.func_stack else "") else None
    return None


def check_matrix_sites(chk, prog):
    q = unit_quat("q")
    qf = free_quat("q")
    Eref = E_ref(qf)          # homogeneous reference in the free components
    for label, ref, site in matrix_sites(prog):
        f = prog.func(ref)
        chk.touch(f)

        def mk(arg):
            it = Interp(prog, oracle=versor_oracle)
            M = site(it, arg)
            for a in it.assumptions:
                chk.assume(a)
            return to_obj(M)

        holder = {}

        def get():
            if "M" not in holder:
                holder["M"] = mk(q)
            return holder["M"]
        site_id = "%s::%s" % (f.module.rel, label)
        kw = dict(module=f.module.rel, function=f.qname)
        chk.ob("IDENT.orthogonal", site_id, "M(q)^T M(q) == I", lambda: eq(get().T @ get(), I(3), "M^T M"), construct="M^T M == I", **kw)
        chk.ob("IDENT.det", site_id, "det M(q) == 1", lambda: eq(det(get()), P.ONE, "det"), construct="det M == 1", **kw)
        chk.ob("IDENT.reference", site_id, "M(q) == Euler-Rodrigues matrix", lambda: eq(get(), Eref, "M"), construct="M == E_ref", **kw)
        chk.ob("IDENT.even", site_id, "M(-q) == M(q)", lambda: eq(mk(-q), get(), "M(-q)"), construct="M(-q) == M(q)", **kw)

        def conj_law():
            it = Interp(prog)
            qc = conj_of(it, q)
            return eq(mk(qc), get().T, "M(q*)")
        chk.ob("IDENT.conjugate", site_id, "M(q*) == M(q)^T", conj_law, construct="M(q*) == M(q)^T", **kw)


def check_product(chk, prog):
    p, q = unit_quat("p"), unit_quat("q")
    pf, qf = free_quat("p"), free_quat("q")
    it = Interp(prog)
    fprod = prog.func(QUAT + "::Quaternion.product")
    chk.touch(fprod)
    kw = dict(module=QUAT, function="Quaternion.product")
    chk.ob("IDENT.hamilton", QUAT + "::Quaternion.product", "product == Hamilton product",
           lambda: eq(prod_of(it, pf, qf), hamilton_ref(pf, qf), "p*q"), construct="product == Hamilton", **kw)
    chk.ob("IDENT.homomorphism", QUAT + "::Quaternion.product", "E(p*q) == E(p) E(q)",
           lambda: eq(E_of(it, prod_of(it, p, q)), E_of(it, p) @ E_of(it, q), "E(pq)"), construct="E(p*q) == E(p)E(q)", **kw)
    fq = prog.func(ORI + "::q_prod")
    chk.touch(fq)
    chk.ob("TWIN.q_prod", ORI + "::q_prod", "q_prod(p,q) == Quaternion.product",
           lambda: eq(it.run(fq, [pf, qf]), prod_of(it, pf, qf), "q_prod"), module=ORI, function="q_prod", construct="q_prod == product")
    # operators route to product
    for op in ("__mul__", "__matmul__"):
        f = prog.func(QUAT + "::Quaternion." + op)
        chk.touch(f)
        chk.ob("CALL.operator", QUAT + "::Quaternion." + op, "%s returns self.product(q)" % op,
               lambda f=f: eq(it.run(f, [qf], self_obj=quat_obj(it, pf)), prod_of(it, pf, qf), op),
               module=QUAT, function="Quaternion." + op, construct="%s == product" % op)


def check_rotation(chk, prog):
    q = unit_quat("q")
    v = sym_vec("v", 3)
    it = Interp(prog)
    E = E_of(it, q)
    f = prog.func(QUAT + "::Quaternion.rotate")
    chk.touch(f)
    chk.ob("IDENT.rotate", QUAT + "::Quaternion.rotate", "rotate(v) == E(q) v",
           lambda: eq(it.run(f, [v], self_obj=quat_obj(it, q)), E @ v, "rotate"), module=QUAT, function="Quaternion.rotate", construct="rotate == E v")

    # the documented array form: 3-by-N, one vector per column (N == 3 is the corner where a row/column mix-up cannot be seen from the shape)
    for ncols in (2, 3, 4):
        A = sym_mat("A", 3, ncols)
        chk.ob("IDENT.rotate", QUAT + "::Quaternion.rotate::3x%d" % ncols, "rotate(A) == E(q) A for a 3-by-%d array of column vectors" % ncols,
               lambda A=A: eq(it.run(f, [A.copy()], self_obj=quat_obj(it, q)), E @ A, "rotate(3xN)"), module=QUAT, function="Quaternion.rotate",
               construct="rotate == E A (3x%d)" % ncols)

    def sandwich():
        v4 = np.concatenate([[P.ZERO], v])
        r = prod_of(it, prod_of(it, q, v4), conj_of(it, q))
        return all_of(eq(r[1:], E @ v, "vec(q v q*)"), eq(r[0], P.ZERO, "scalar(q v q*)"))
    chk.ob("IDENT.sandwich", QUAT + "::Quaternion.product", "vec(q (0,v) q*) == E(q) v", sandwich, module=QUAT, function="Quaternion.product", construct="q v q* == E v")
    fr = prog.func(ORI + "::q_rot")
    chk.touch(fr)
    chk.ob("IDENT.q_rot", ORI + "::q_rot", "q_rot(q, v) == E(q)^T v (documented inverse rotation)",
           lambda: eq(it.run(fr, [q, v]), E.T @ v, "q_rot"), module=ORI, function="q_rot", construct="q_rot == E^T v")


def check_dcm_route(chk, prog):
    """DCM(q=...) reaches from_quaternion with the caller's q (call path __new__ -> from_q -> from_quaternion)."""
    q = unit_quat("q")

    def route():
        it = Interp(prog, oracle=lambda c, i: True if c.op in ("isclose", "allclose") else None)
        obj = it.instantiate(prog.cls(DCM + "::DCM"), [], {"q": q.copy()})
        chk.touch(prog.func(DCM + "::DCM.__new__"))
        M = to_obj(obj)
        return eq(M, E_of(Interp(prog), q), "DCM(q=q)")
    chk.ob("ROUTE.DCM(q=)", DCM + "::DCM.__new__", "DCM(q=q) == E(q)", route, module=DCM, function="DCM.__new__", construct="DCM(q=q) == E(q)")


# ---------------------------------------------------------------- canaries (in-memory AST edits)

class _FlipNthSub(ast.NodeTransformer):
    def __init__(self, funcname, nth, cls=None):
        self.funcname, self.nth, self.seen, self.done, self.cls = funcname, nth, 0, False, cls
        self.inside = False

    def visit_ClassDef(self, node):
        if self.cls is None or node.name == self.cls:
            self.generic_visit(node)
        return node

    def visit_FunctionDef(self, node):
        if node.name == self.funcname and not self.done:
            self.inside = True
            self.generic_visit(node)
            self.inside = False
        return node

    def visit_BinOp(self, node):
        self.generic_visit(node)
        if self.inside and not self.done and isinstance(node.op, (ast.Sub, ast.Add)):
            if self.seen == self.nth:
                node.op = ast.Add() if isinstance(node.op, ast.Sub) else ast.Sub()
                self.done = True
            self.seen += 1
        return node


def flip(prog, rel, funcname, nth, cls=None):
    def tr(tree):
        t = _FlipNthSub(funcname, nth, cls)
        t.visit(tree)
        return t.done
    return prog.mutated(rel, tr)


def canaries(chk, prog):
    from sa.report import Check
    specs = [("flip a sign in Quaternion.to_DCM", QUAT, "to_DCM", 3, "Quaternion"),
             ("flip a sign in QuaternionArray.to_DCM", QUAT, "to_DCM", 5, "QuaternionArray"),
             ("flip a sign in q2R", ORI, "q2R", 20, None),
             ("flip a sign in DCM.from_quaternion", DCM, "from_quaternion", 7, "DCM"),
             ("flip a sign in Quaternion.product", QUAT, "product", 6, "Quaternion"),
             ("flip a sign in q_rot", ORI, "q_rot", 4, None)]
    for name, rel, fn, nth, cls in specs:
        try:
            p2 = flip(prog, rel, fn, nth, cls)
            sub = Check("C01", chk.tier, p2, quiet=True)
            check_matrix_sites(sub, p2)
            check_product(sub, p2)
            check_rotation(sub, p2)
            fired = [f for f in sub.findings if fn in f.function or fn in f.what]
            chk.canary(name, bool(sub.findings), "findings on edited tree: %d (%s)" % (len(sub.findings), ", ".join(sorted({f.function for f in sub.findings}))[:120]))
        except Exception as e:
            chk.canary(name, False, "canary crashed: %s: %s" % (type(e).__name__, e))


def scalar_last_routes(chk, prog):
    """IDENT.storage: the matrix of an object stored scalar-last (order='S') is the matrix of the same quaternion stored scalar-first, for the single
    and for the array class (the second copy of the formula unpacks its components separately)"""
    from sa.symeval import unit_syms
    qa, qb = unit_syms("sa"), unit_syms("sb")
    for cname, build, pick in (("Quaternion", lambda it: quat_obj(it, np.roll(qa, -1), scalar_vector=False), lambda out: [(out, qa)]),
                               ("QuaternionArray", lambda it: quat_obj(it, np.vstack([np.roll(qa, -1), np.roll(qb, -1)]), scalar_vector=False, cls="QuaternionArray"),
                                lambda out: [(out[0], qa), (out[1], qb)])):
        f = prog.func(QUAT + "::%s.to_DCM" % cname)
        chk.touch(f)

        def law(f=f, build=build, pick=pick):
            it = Interp(prog)
            out = to_obj(it.run(f, [], self_obj=build(it)))
            return all_of(*[eq(m_, E_ref(q_), "to_DCM of scalar-last storage") for m_, q_ in pick(out)])
        chk.ob("IDENT.storage", f.ref + " [scalar-last]", "%s.to_DCM() of (x, y, z, w) storage == E(w, x, y, z)" % cname, law, module=QUAT, function="%s.to_DCM" % cname,
               construct="to_DCM of scalar-last storage", line=f.node.lineno)


def run(chk, prog, tier):
    check_matrix_sites(chk, prog)
    check_product(chk, prog)
    check_rotation(chk, prog)
    check_dcm_route(chk, prog)
    scalar_last_routes(chk, prog)
    chk.require_count("IDENT.orthogonal", 8)
    chk.require_count("IDENT.reference", 8)
    canaries(chk, prog)
    return __doc__
