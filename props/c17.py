"""C17 — coordinate-frame transformations are mutually inverse rigid maps.

Decided (AVN, exact, unless noted):
 ROT        llf2ecef == ecef2llf^T and both are orthogonal;
 ENU        enu2uvw(ecef2enuv(p, p0)) == p - p0; enu2ecef(ecef2enu(p)) == p and ecef2enu(enu2ecef(e)) == e for the
            extracted formulas (both sides use the same geodetic2ecef origin); the offset->ENU map is linear with an
            orthogonal matrix (isometry) and maps the origin to zero; geodetic2enu composes the same pieces;
 AER / DCA  aer2enu(enu2aer(e)) == e, dca2enu(enu2dca(e)) == e;
 LTP        ned2enu / enu2ned are the swap map and mutually inverse;
 HEIGHT     the statements of ecef2geodetic after the latitude iteration return, on every inequality arm, the height h
            when p and z are the forward model (N+h) cos(lat), (N(1-e^2)+h) sin(lat) at the converged latitude;
 RD         no local of ahrs/common/frames.py is used on a path on which it may be undefined;
 PURE       no memoising decorator / cached array is shared between calls (the origin array must be fresh).
Not decided: convergence/accuracy of the latitude fixed-point iteration, behaviour exactly at the poles.
Added after the seeding rounds (DESIGN.md 6.6-6.8):
 GEODETIC.forward / GEODETIC.angles / FIXPOINT / ITER-TEST  geodetic2ecef is the textbook forward model; at the converged state of its iteration ecef2geodetic
            returns that latitude, longitude and height; the loop continues while |old - new| > delta.
Added after refactoring round 3 (DESIGN.md 6.9):
 ORIGIN-DIV  the local-level conversions never divide by a coordinate-derived quantity without a non-zero test (the local origin is a valid input).
"""
import ast
import numpy as np
from sa import poly as P
from sa.rd import Defined
from sa.model import stmt_text
from sa.symeval import Interp, Env, sym_vec, to_obj, det, _RET
from sa.lib import eq, all_of, I

FR = "ahrs/common/frames.py"


def rng_oracle(c, it):
    # range validation of latitude/longitude: inputs are inside the documented ranges
    if c.op in (">", "<", ">=", "<="):
        return False
    return None


def run_identities(chk, prog):
    it = Interp(prog, oracle=rng_oracle)
    F = lambda n: prog.func(FR + "::" + n)
    for n in ("llf2ecef", "ecef2llf", "ecef2enuv", "enu2uvw", "ecef2enu", "enu2ecef", "geodetic2ecef", "geodetic2enu", "aer2enu", "enu2aer", "enu2dca", "dca2enu", "ned2enu", "enu2ned"):
        chk.touch(F(n))
    lat, lon, h = P.sym("lat"), P.sym("lon"), P.sym("h")
    x, y, z = P.sym("x"), P.sym("y"), P.sym("z")
    x0, y0, z0 = P.sym("x0"), P.sym("y0"), P.sym("z0")
    kw = lambda fn: dict(module=FR, function=fn, line=F(fn).node.lineno)
    A = lambda: to_obj(it.run(F("llf2ecef"), [lat, lon]))
    B = lambda: to_obj(it.run(F("ecef2llf"), [lat, lon]))
    chk.ob("ROT.transpose", FR + "::llf2ecef", "llf2ecef == ecef2llf^T", lambda: eq(A(), B().T, "llf2ecef"), construct="llf2ecef == ecef2llf^T", **kw("llf2ecef"))
    chk.ob("ROT.orthogonal", FR + "::llf2ecef", "llf2ecef^T llf2ecef == I", lambda: eq(A().T @ A(), I(3), "A^T A"), construct="llf2ecef orthogonal", **kw("llf2ecef"))
    chk.ob("ROT.orthogonal", FR + "::ecef2llf", "ecef2llf^T ecef2llf == I", lambda: eq(B().T @ B(), I(3), "B^T B"), construct="ecef2llf orthogonal", **kw("ecef2llf"))

    def enuv(px, py, pz):
        return to_obj(it.run(F("ecef2enuv"), [px, py, pz, x0, y0, z0, lat, lon]))

    def offsets_roundtrip():
        e = enuv(x, y, z)
        uvw = it.run(F("enu2uvw"), [e[0], e[1], e[2], lat, lon, "deg"])
        return eq(uvw, np.array([x - x0, y - y0, z - z0], dtype=object), "enu2uvw(ecef2enuv)")
    chk.ob("ENU.offsets", FR + "::enu2uvw", "enu2uvw(ecef2enuv(p, p0)) == p - p0", offsets_roundtrip, construct="enu2uvw o ecef2enuv == id", **kw("enu2uvw"))

    def linear_orthogonal():
        cols = []
        for d in ((1, 0, 0), (0, 1, 0), (0, 0, 1)):
            cols.append(enuv(x0 + d[0], y0 + d[1], z0 + d[2]))
        M = np.stack(cols, axis=1)
        gen = enuv(x, y, z)
        lin = M @ np.array([x - x0, y - y0, z - z0], dtype=object)
        return all_of(eq(gen, lin, "ecef2enuv linear"), eq(M.T @ M, I(3), "M^T M"), eq(enuv(x0, y0, z0), np.array([P.ZERO] * 3, dtype=object), "origin -> 0"))
    chk.ob("ENU.isometry", FR + "::ecef2enuv", "offset -> ENU is linear with an orthogonal matrix and maps the origin to 0", linear_orthogonal,
           construct="ecef2enuv isometry", **kw("ecef2enuv"))

    def ecef_roundtrip():
        e = to_obj(it.run(F("ecef2enu"), [x, y, z, lat, lon, h]))
        back = it.run(F("enu2ecef"), [e[0], e[1], e[2], lat, lon, h])
        return eq(back, np.array([x, y, z], dtype=object), "enu2ecef(ecef2enu)")
    chk.ob("ENU.roundtrip", FR + "::enu2ecef", "enu2ecef(ecef2enu(p)) == p", ecef_roundtrip, construct="enu2ecef o ecef2enu == id", **kw("enu2ecef"))

    def enu_roundtrip():
        e, n, u = P.sym("e"), P.sym("n"), P.sym("u")
        p = to_obj(it.run(F("enu2ecef"), [e, n, u, lat, lon, h]))
        back = it.run(F("ecef2enu"), [p[0], p[1], p[2], lat, lon, h])
        return eq(back, np.array([e, n, u], dtype=object), "ecef2enu(enu2ecef)")
    chk.ob("ENU.roundtrip", FR + "::ecef2enu", "ecef2enu(enu2ecef(e)) == e", enu_roundtrip, construct="ecef2enu o enu2ecef == id", **kw("ecef2enu"))

    def geodetic2enu_twin():
        lat0, lon0, h0 = P.sym("lat0"), P.sym("lon0"), P.sym("h0")
        got = it.run(F("geodetic2enu"), [lat, lon, h, lat0, lon0, h0])
        p = to_obj(it.run(F("geodetic2ecef"), [lat, lon, h]))
        want = it.run(F("ecef2enu"), [p[0], p[1], p[2], lat0, lon0, h0])
        return eq(got, want, "geodetic2enu")
    chk.ob("ENU.compose", FR + "::geodetic2enu", "geodetic2enu(p, p0) == ecef2enu(geodetic2ecef(p), p0)", geodetic2enu_twin, construct="geodetic2enu composition", **kw("geodetic2enu"))

    def aer():
        e, n, u = P.sym("e"), P.sym("n"), P.sym("u")
        outs = []
        for deg in (True, False):
            a = to_obj(it.run(F("enu2aer"), [e, n, u], {"deg": deg}))
            outs.append(eq(it.run(F("aer2enu"), [a[0], a[1], a[2]], {"deg": deg}), np.array([e, n, u], dtype=object), "aer2enu(enu2aer)[deg=%s]" % deg))
        return all_of(*outs)
    chk.ob("AER.roundtrip", FR + "::aer2enu", "aer2enu(enu2aer(e)) == e (degrees and radians)", aer, construct="aer2enu o enu2aer == id", **kw("aer2enu"))

    def dca():
        e, n, u, ang = P.sym("e"), P.sym("n"), P.sym("u"), P.sym("ang")
        outs = []
        for deg in (True, False):
            d = to_obj(it.run(F("enu2dca"), [e, n, u, ang], {"deg": deg}))
            outs.append(eq(it.run(F("dca2enu"), [d[0], d[1], d[2], ang], {"deg": deg}), np.array([e, n, u], dtype=object), "dca2enu(enu2dca)[deg=%s]" % deg))
        return all_of(*outs)
    chk.ob("DCA.roundtrip", FR + "::dca2enu", "dca2enu(enu2dca(e)) == e", dca, construct="dca2enu o enu2dca == id", **kw("dca2enu"))

    def ltp():
        v = sym_vec("v", 3)
        w = it.run(F("ned2enu"), [v])
        return all_of(eq(w, np.array([v[1], v[0], -v[2]], dtype=object), "ned2enu"), eq(it.run(F("enu2ned"), [w]), v, "enu2ned(ned2enu)"))
    chk.ob("LTP.roundtrip", FR + "::ned2enu", "ned2enu swaps N/E, negates D; enu2ned inverts it", ltp, construct="ned2enu / enu2ned", **kw("ned2enu"))


def height_rule(chk, prog):
    """post-iteration statements of ecef2geodetic return h for the forward model at the converged latitude"""
    f = prog.func(FR + "::ecef2geodetic")
    chk.touch(f)
    body = f.body()
    last_loop = max((i for i, s in enumerate(body) if isinstance(s, ast.While)), default=None)
    if last_loop is None:
        chk.error("HEIGHT: ecef2geodetic has no latitude iteration loop (anchor changed)")
        return
    tail = body[last_loop + 1:]
    phi, h, N, a, b, lam = P.sym("phi"), P.sym("h"), P.sym("N"), P.sym("a"), P.sym("b"), P.sym("lam")
    e2 = (a * a - b * b) / (a * a)
    c, s = P.cos(phi), P.sin(phi)
    P.declare_positive(c)
    P.declare_positive(N + h)
    p = (N + h) * c
    z = (N * (1 - e2) + h) * s
    arms = [("<,> False", False), ("<,> True", True)]
    n_arms = 0
    for label, val in arms:
        decisions = []

        def oracle(cnd, it, val=val):
            if cnd.op in ("<", ">", "<=", ">="):
                decisions.append(cnd)
                return val
            return None

        def law():
            it = Interp(prog, oracle=oracle)
            env = Env(f.module, f)
            env.vars.update({"x": p * P.cos(lam), "y": p * P.sin(lam), "z": z, "a": a, "b": b, "e2": e2, "p": p, "lat": phi, "lat_old": phi,
                             "N": N, "lon": lam, "sin_lat": s, "delta": P.const(0)})
            r = it.exec_block(tail, env)
            if r is None or r[0] is not _RET:
                return (None, "post-loop block does not return")
            out = to_obj(r[1])
            return eq(out[2], h, "height")
        if val and n_arms and not decisions_seen:
            continue
        v = chk.ob("HEIGHT", FR + "::ecef2geodetic::post-loop[%s]" % label, "returned height == h for p=(N+h)cos(lat), z=(N(1-e^2)+h)sin(lat)", law,
                   module=FR, function="ecef2geodetic", construct="height formula [%s]" % label, line=tail[0].lineno if tail else f.node.lineno)
        n_arms += 1
        decisions_seen = bool(decisions)
        if not decisions_seen:
            break     # no inequality branch in the block: one arm covers it


def fixpoint_rule(chk, prog):
    """FIXPOINT: at the state the latitude iteration of ecef2geodetic converges to (every loop-carried variable a fixed point of the
    loop body, whatever the initial guess was), the latitude satisfies the exact equation tan(lat) = (z + e^2 N(lat) sin(lat))/p and the
    post-loop statements return the true height.  A quantity computed once before the loop from the initial guess (stale N) fails both."""
    f = prog.func(FR + "::ecef2geodetic")
    chk.touch(f)
    body = f.body()
    li = max((i for i, s_ in enumerate(body) if isinstance(s_, ast.While)), default=None)
    if li is None:
        chk.error("FIXPOINT: ecef2geodetic has no latitude iteration loop (anchor changed)")
        return
    loop, prefix, tail = body[li], body[:li], body[li + 1:]
    # the loop variable: the name compared in the loop test that the body assigns from an arctan2
    carried = [t.id for s_ in loop.body if isinstance(s_, ast.Assign) for t in s_.targets if isinstance(t, ast.Name)
               and any(isinstance(c_, ast.Call) and ast.unparse(c_.func).endswith("arctan2") for c_ in ast.walk(s_.value))]
    if len(carried) != 1:
        chk.error("FIXPOINT: cannot identify the iterated latitude in the loop of ecef2geodetic (%s)" % carried)
        return
    latn = carried[0]
    phi, h, N, E, lam = P.sym("fphi"), P.sym("fh"), P.sym("fN"), P.sym("fE"), P.sym("flam")
    c, s_phi = P.cos(phi), P.sin(phi)
    for pos in (c, N, N + h, 1 - E, 1 - E * s_phi * s_phi):
        P.declare_positive(pos)
    Rr = P.sqrt(1 - E * s_phi * s_phi)
    a = N * Rr                               # so that a / sqrt(1 - e2 sin^2 phi) == N exactly
    b = a * P.sqrt(1 - E)                    # so that (a^2 - b^2)/a^2 == E exactly
    p = (N + h) * c
    z = (N * (1 - E) + h) * s_phi
    kw_ = dict(module=FR, function="ecef2geodetic", line=loop.lineno)

    def converged_state():
        it = Interp(prog, oracle=lambda cnd, it_: False if cnd.op in ("<", ">", "<=", ">=") else None)
        env = Env(f.module, f)
        env.vars.update({"x": p * P.cos(lam), "y": p * P.sin(lam), "z": z, "a": a, "b": b})
        # the initial guess is arbitrary for this obligation: keep it opaque (one symbol per arctan2 of the prefix)
        guess = []
        it.intercepts["np.arctan2"] = lambda it_, args_, kw__: (guess.append(1) or P.sym("fguess%d" % len(guess)))
        r = it.exec_block(prefix, env)
        del it.intercepts["np.arctan2"]
        if r is not None and r[0] is _RET:
            raise AssertionError("prefix returns")
        out = None
        for _ in range(3):
            env.vars[latn] = phi
            it.exec_block(loop.body, env)
            out = env.vars[latn]
        return it, env, out

    def lat_law():
        it, env, out = converged_state()
        at = tan_args(out)
        if at is None:
            return (None, "the updated latitude is not an arctan2(., .) of closed forms: %s" % str(out)[:80])
        Y, X = at
        return eq(Y * c, X * s_phi, "tan(lat) at the fixed point")
    chk.ob("FIXPOINT", FR + "::ecef2geodetic::latitude", "a state every loop-carried variable of which is a fixed point of the loop body has the exact geodetic latitude",
           lat_law, construct="latitude fixed point", **kw_)

    def h_law():
        it, env, out = converged_state()
        env.vars[latn] = phi
        r = it.exec_block(tail, env)
        if r is None or r[0] is not _RET:
            return (None, "post-loop block does not return")
        return eq(to_obj(r[1])[2], h, "height at the converged state")
    chk.ob("FIXPOINT", FR + "::ecef2geodetic::height", "the post-loop statements, run on the converged state of the loop, return the true height", h_law,
           construct="height at the fixed point", **kw_)


def tan_args(r):
    """(y, x) if r is c * arctan2(y, x) with c == 1"""
    if not (len(r.den) == 1 and r.den.get(P.ONE_M) == 1):
        return None
    if len(r.num) != 1:
        return None
    (m, co), = r.num.items()
    if len(m) != 1 or m[0][1] != 1 or co != 1:
        return None
    at = P.atom(m[0][0])
    if at.kind != "fn" or at.name != "arctan2":
        return None
    return at.args


def iteration_shape(chk, prog):
    """ITER-TEST: the latitude iteration continues while the last change is large -- `while |old - new| > delta` with a small positive literal delta, the body
    saving the current value into `old` before computing the new one.  (Termination/accuracy of the iteration is numerical and not decided; this is the shape
    without which the loop exits at once or never.)"""
    f = prog.func(FR + "::ecef2geodetic")
    loop = next((n for n in ast.walk(f.node) if isinstance(n, ast.While)), None)
    if loop is None:
        return
    site = FR + "::ecef2geodetic::while " + ast.unparse(loop.test)[:50]
    t = loop.test
    problems = []
    if not (isinstance(t, ast.Compare) and len(t.ops) == 1 and isinstance(t.ops[0], (ast.Gt, ast.GtE))):
        problems.append("the loop test is not `<change> > <tolerance>`: the iteration does not continue while the estimate is still moving")
    else:
        lhs, rhs = t.left, t.comparators[0]
        inner = lhs.args[0] if isinstance(lhs, ast.Call) and ast.unparse(lhs.func) in ("abs", "np.abs", "np.fabs", "np.absolute") and lhs.args else None
        if not (isinstance(inner, ast.BinOp) and isinstance(inner.op, ast.Sub) and isinstance(inner.left, ast.Name) and isinstance(inner.right, ast.Name)):
            problems.append("the tested change is not |old - new| of two locals")
        else:
            a_, b_ = inner.left.id, inner.right.id
            tol = None
            if isinstance(rhs, ast.Constant):
                tol = rhs.value
            elif isinstance(rhs, ast.Name):
                for s_ in ast.walk(f.node):
                    if isinstance(s_, ast.Assign) and isinstance(s_.targets[0], ast.Name) and s_.targets[0].id == rhs.id and isinstance(s_.value, ast.Constant):
                        tol = s_.value.value
                if tol is None:          # a module-level constant
                    for s_ in f.module.tree.body:
                        if isinstance(s_, ast.Assign) and isinstance(s_.targets[0], ast.Name) and s_.targets[0].id == rhs.id and isinstance(s_.value, ast.Constant):
                            tol = s_.value.value
            if not (isinstance(tol, (int, float)) and 0 < tol <= 1e-6):
                problems.append("the tolerance of the loop test is not a positive literal <= 1e-6 rad (got %r)" % (tol,))
            # body: one of the two names is saved from the other before the other is recomputed
            saves = [(i, s_) for i, s_ in enumerate(loop.body) if isinstance(s_, ast.Assign) and isinstance(s_.targets[0], ast.Name) and isinstance(s_.value, ast.Name)
                     and {s_.targets[0].id, s_.value.id} == {a_, b_}]
            if not saves:
                problems.append("the loop body never saves the current latitude into the `old` local: the test compares unrelated values")
            else:
                i_save, sv = saves[0]
                cur = sv.value.id
                upd = [i for i, s_ in enumerate(loop.body) if isinstance(s_, ast.Assign) and isinstance(s_.targets[0], ast.Name) and s_.targets[0].id == cur]
                if not upd or min(upd) < i_save:
                    problems.append("the current latitude is recomputed before it is saved: old and new are always equal")
    if problems:
        chk.record("ITER-TEST", site, "loop continues while |old - new| > small tolerance, saving old before the update", verdict="VIOLATION", detail="; ".join(problems))
        chk.finding("ITER-TEST", FR, "ecef2geodetic", "shape of the latitude iteration", "; ".join(problems), line=loop.lineno)
    else:
        chk.record("ITER-TEST", site, "loop continues while |old - new| > small tolerance, saving old before the update")


def geodetic_pair(chk, prog):
    """GEODETIC: (i) geodetic2ecef is the textbook forward model ((N+h) cos lat cos lon, (N+h) cos lat sin lon, (N(1-e^2)+h) sin lat) with N = a/sqrt(1 - e^2 sin^2 lat)
    and e^2 = (a^2-b^2)/a^2, angles given in degrees; (ii) at the converged state of its iteration ecef2geodetic returns that latitude and longitude
    converted to degrees (the height is FIXPOINT's obligation).  Together with FIXPOINT the pair is a round trip."""
    from sa.lib import DEG2RAD_of
    fwd = prog.func(FR + "::geodetic2ecef")
    inv = prog.func(FR + "::ecef2geodetic")
    chk.touch(fwd)
    chk.touch(inv)
    it0 = Interp(prog)
    D = DEG2RAD_of(it0, prog.module(FR))

    def forward():
        lat, lon, h, a, b = P.sym("glat"), P.sym("glon"), P.sym("gh"), P.sym("ga"), P.sym("gb")
        it = Interp(prog, oracle=lambda c, i: False if c.op in (">", ">=", "<", "<=") else None)      # range validation not taken
        out = to_obj(it.run(fwd, [lat, lon, h, a, b]))
        e2 = (a * a - b * b) / (a * a)
        phi, lam = lat * D, lon * D
        N = a / P.sqrt(1 - e2 * P.sin(phi) ** 2)
        want = np.array([(N + h) * P.cos(phi) * P.cos(lam), (N + h) * P.cos(phi) * P.sin(lam), (N * (1 - e2) + h) * P.sin(phi)], dtype=object)
        return eq(out, want, "geodetic2ecef")
    chk.ob("GEODETIC.forward", fwd.ref, "geodetic2ecef(lat, lon, h) is the textbook forward model (degrees in)", forward, module=FR, function="geodetic2ecef",
           construct="forward model", line=fwd.node.lineno)

    body = inv.body()
    li = max((i for i, s_ in enumerate(body) if isinstance(s_, ast.While)), default=None)
    if li is None:
        return
    loop, prefix, tail = body[li], body[:li], body[li + 1:]
    carried = [t.id for s_ in loop.body if isinstance(s_, ast.Assign) for t in s_.targets if isinstance(t, ast.Name)
               and any(isinstance(c_, ast.Call) and ast.unparse(c_.func).endswith("arctan2") for c_ in ast.walk(s_.value))]
    if len(carried) != 1:
        return
    latn = carried[0]

    def angles():
        phi, lam, p, z, a, b = P.sym("iphi"), P.sym("ilam"), P.sym("ip"), P.sym("iz"), P.sym("ia"), P.sym("ib")
        P.declare_positive(p)
        it = Interp(prog, oracle=lambda c, i: False if c.op in ("<", ">", "<=", ">=") else None)
        env = Env(inv.module, inv)
        env.vars.update({"x": p * P.cos(lam), "y": p * P.sin(lam), "z": z, "a": a, "b": b})
        it.exec_block(prefix, env)
        lon_val = None
        # the longitude local: the arctan2 of the prefix whose arguments are (y, x)
        for k, v in env.vars.items():
            at = tan_args(v) if isinstance(v, P.Rat) else None
            if at is not None and k != latn:
                lon_val = (k, at)
        env.vars[latn] = phi
        r = it.exec_block(tail, env)
        if r is None or r[0] is not _RET:
            return (None, "post-loop block does not return")
        out = to_obj(r[1])
        res = [eq(out[0] * D, phi, "returned latitude (degrees) * DEG2RAD")]
        lo = out[1] * D
        at = tan_args(lo)
        if at is None:
            res.append((None, "returned longitude is not RAD2DEG * arctan2(., .)"))
        else:
            res.append(eq(at[0] * P.cos(lam), at[1] * P.sin(lam), "tan(longitude) == y/x"))
        return all_of(*res)
    chk.ob("GEODETIC.angles", inv.ref, "ecef2geodetic returns the converged latitude and arctan2(y, x), both in degrees", angles, module=FR, function="ecef2geodetic",
           construct="returned angles", line=inv.node.lineno)


def rd_rule(chk, prog):
    mod = prog.module(FR)
    n = 0
    for f in mod.funcs.values():
        chk.touch(f)
        d = Defined(f).analyse()
        n += 1
        seen = set()
        for name, node in d.uses:
            if name in seen:
                continue
            seen.add(name)
            chk.finding("RD", FR, f.qname, "`%s` may be undefined" % name,
                        "local `%s` is used at line %d on a path that carries no definition of it (e.g. a loop that runs zero times): UnboundLocalError" % (name, node.lineno), line=node.lineno)
        chk.record("RD", f.ref, "no possibly-undefined local", verdict="HOLDS" if not seen else "VIOLATION")
    if n < 15:
        chk.error("RD: only %d functions in frames.py" % n)


def pure_rule(chk, prog):
    mod = prog.module(FR)
    for f in mod.funcs.values():
        for d in f.node.decorator_list:
            if "cache" in ast.unparse(d):
                chk.finding("PURE.cache", FR, f.qname, "@" + ast.unparse(d).split("(")[0],
                            "memoised function returns one shared array object: a caller that updates it in place corrupts the origin of every later transformation", line=f.node.lineno)
        chk.count("PURE.cache")


ORIGIN_SAFE = ["enu2aer", "aer2enu", "enu2dca", "dca2enu", "ned2enu", "enu2ned", "_ltp_transformation", "ecef2enu", "enu2ecef", "enu2uvw", "ecef2enuv"]
COORDS = {"east", "north", "up", "x", "y", "z", "down", "cross", "above", "slant_range", "u", "v", "w"}


def origin_rule(chk, prog):
    """ORIGIN-DIV: the local-level conversions are rotations and polar changes of variable; the zero offset (the local origin itself) is a valid input that
    must map to zero / come back unchanged.  None of them may divide by a quantity computed from the point's coordinates unless the division is
    dominated by a test that the divisor is non-zero (must-fact NZ on the divisor's value number)."""
    from sa.facts import Facts
    mod_funcs = prog.module(FR).funcs
    names = [n_ for n_ in ORIGIN_SAFE if not n_.startswith("_")]
    # private helpers are covered through their callers, whatever they are called today
    for n_ in list(names):
        g_ = mod_funcs.get(n_)
        if g_ is not None:
            for c_ in ast.walk(g_.node):
                if isinstance(c_, ast.Call) and isinstance(c_.func, ast.Name) and c_.func.id.startswith("_") and c_.func.id in mod_funcs and c_.func.id not in names:
                    names.append(c_.func.id)
    for name in names:
        f = mod_funcs.get(name)
        if f is None:
            chk.error("ORIGIN-DIV: %s vanished from %s" % (name, FR))
            continue
        chk.touch(f)
        fa = Facts(f, prog).analyse()
        coords = {"P:" + p for p in f.params if p in COORDS}
        bad = [d for d in fa.divisions if not d["guarded"] and any(t in d["vn"] for t in coords)]
        for d in bad:
            why = ("`%s` divides by a quantity computed from the point's coordinates with no non-zero test on it: at the local origin (zero offset) the divisor is 0 and "
                   "the conversion returns NaN instead of the origin" % ast.unparse(d["node"])[:80])
            chk.finding("ORIGIN-DIV", FR, f.qname, "unguarded division by a coordinate-derived quantity: %s" % ast.unparse(d["node"])[:60], why, line=d["node"].lineno)
        chk.record("ORIGIN-DIV", f.ref, "no unguarded division by a coordinate-derived quantity (%d divisions seen)" % len(fa.divisions), verdict="VIOLATION" if bad else "HOLDS")


def canaries(chk, prog):
    from sa.report import Check

    def sin_for_cos(tree):
        for n in ast.walk(tree):
            if isinstance(n, ast.FunctionDef) and n.name == "llf2ecef":
                for c in ast.walk(n):
                    if isinstance(c, ast.Attribute) and c.attr == "cos":
                        c.attr = "sin"
                        return True
        return False

    def undefined(tree):
        for n in ast.walk(tree):
            if isinstance(n, ast.FunctionDef) and n.name == "enu2aer":
                n.body.insert(0, ast.parse("if deg:\n    scale = 1.0").body[0])
                n.body.insert(1, ast.parse("slant_extra = scale").body[0])
                return True
        return False
    def arcsin_elev(tree):
        for n in ast.walk(tree):
            if isinstance(n, ast.FunctionDef) and n.name == "enu2aer":
                for s in ast.walk(n):
                    if isinstance(s, ast.Assign) and isinstance(s.value, ast.Call) and ast.unparse(s.value.func).endswith("arctan2") and "up" in ast.unparse(s.value.args[0]):
                        s.value = ast.parse("np.arcsin(up / np.linalg.norm([east, north, up]))").body[0].value
                        return True
        return False
    for name, tr, fn in (("sin for cos in llf2ecef only", sin_for_cos, run_identities), ("use of a conditionally defined local", undefined, rd_rule),
                         ("elevation as arcsin(up / slant range) in enu2aer", arcsin_elev, origin_rule)):
        try:
            p2 = prog.mutated(FR, tr)
            sub = Check("C17", chk.tier, p2, quiet=True)
            fn(sub, p2)
            chk.canary(name, bool(sub.findings), "%d findings" % len(sub.findings))
        except Exception as e:
            chk.canary(name, False, "crashed: %s: %s" % (type(e).__name__, e))


def run(chk, prog, tier):
    run_identities(chk, prog)
    height_rule(chk, prog)
    fixpoint_rule(chk, prog)
    geodetic_pair(chk, prog)
    iteration_shape(chk, prog)
    rd_rule(chk, prog)
    pure_rule(chk, prog)
    origin_rule(chk, prog)
    chk.require_count("ORIGIN-DIV", len([n_ for n_ in ORIGIN_SAFE if not n_.startswith("_")]))
    chk.require_count("ENU.roundtrip", 2)
    chk.require_count("ROT.orthogonal", 2)
    canaries(chk, prog)
    return __doc__
