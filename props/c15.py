"""C15 — WMM answers depend only on (date, place, frame), not on call path or history.

Decided:
 TYPESTATE     the coefficient tables self.c/self.cd have two states, RAW (as loaded) and SCALED (after
               denormalize_coefficients multiplied them in place by the Schmidt factors).  On every path through
               magnetic_field the scaling is reached in state RAW, i.e. dominated by a reload on that path;
 RELOAD        reset_coefficients performs, on every path, date selection, header (epoch) read and coefficient load,
               the last two from the file name the first one chose (no path keeps a stale epoch);
 TRUTHINESS    a numeric parameter whose valid range contains 0 (latitude, longitude, height) is never used as a bare
               truth value (``all([lat, lon])``), so the equator / prime meridian are computed like anywhere else;
 CTOR-ROUTE    the constructor reaches magnetic_field with its own latitude, longitude, height and date;
 ELEMENTS      H, F, I, D value-number to norm(X,Y), norm(H,Z), atan2(Z,H), atan2(Y,X) of the stored X, Y, Z;
 POLE-GUARD    every division by the cosine of the latitude in magnetic_field is guarded by a zero test;
 LTP           ned2enu is the swap-north/east, negate-down map and an involution (AVN).
Not decided: finiteness at the poles beyond the guard, +/-180 degree equality (periodicity of sin/cos), calendar rounding.
Added after the seeding rounds (DESIGN.md 6.6-6.8):
 KEEP-DATE  with date=None the stored decimal year is re-submitted unchanged.
"""
import ast
import numpy as np
from sa.facts import Facts
from sa.model import stmt_text
from sa.symeval import Interp, sym_vec, to_obj
from sa.lib import eq, all_of
from sa import poly as P

WMM = "ahrs/utils/wmm.py"
FRAMES = "ahrs/common/frames.py"
ZERO_IN_RANGE = {"latitude", "longitude", "height", "lat", "lon", "h"}


def typestate(chk, prog):
    f = prog.func(WMM + "::WMM.magnetic_field")
    chk.touch(f)
    hits = []

    def on_call(fa, node, st):
        fn = node.func
        if isinstance(fn, ast.Attribute) and isinstance(fn.value, ast.Name) and fn.value.id == "self":
            if fn.attr in ("reset_coefficients", "load_coefficients"):
                fa.add(st, "RAW", "c")
            if fn.attr == "denormalize_coefficients":
                hits.append((node, ("RAW", "c") in st["F"]))
                st["F"] = frozenset(x for x in st["F"] if x != ("RAW", "c"))
    Facts(f, prog, callbacks={"call": on_call}).analyse()
    if not hits:
        chk.error("TYPESTATE: magnetic_field no longer calls denormalize_coefficients (anchor changed)")
    for node, ok in hits:
        site = WMM + "::WMM.magnetic_field::" + stmt_text(node)
        if ok:
            chk.record("TYPESTATE", site, "coefficients are RAW (reloaded on this path) when they are scaled")
        else:
            chk.record("TYPESTATE", site, "coefficients are RAW when they are scaled", verdict="VIOLATION")
            chk.finding("TYPESTATE", WMM, "WMM.magnetic_field", "denormalize_coefficients reached without reload",
                        "some path (e.g. date=None) reaches the in-place Schmidt scaling of self.c/self.cd without reloading them: the already scaled coefficients are scaled again and every later answer on this object is wrong",
                        line=node.lineno)
    # the scaling really is in place on self.c / self.cd (otherwise the typestate is moot) and the loader rebinds them
    den = prog.func(WMM + "::WMM.denormalize_coefficients")
    load = prog.func(WMM + "::WMM.load_coefficients")
    chk.touch(den)
    chk.touch(load)
    inplace = [n for n in ast.walk(den.node) if isinstance(n, ast.AugAssign) and isinstance(n.target, ast.Subscript) and ast.unparse(n.target.value) in ("self.c", "self.cd")]
    rebinds = [n for n in ast.walk(load.node) if isinstance(n, ast.Assign) and any(ast.unparse(t) in ("self.c", "self.cd") for t in n.targets)]
    chk.record("TYPESTATE.model", WMM + "::WMM.denormalize_coefficients", "%d in-place scalings of self.c/self.cd; loader rebinds %d tables" % (len(inplace), len(rebinds)))
    if len(rebinds) < 2:
        chk.error("TYPESTATE: load_coefficients no longer rebinds self.c and self.cd")


def reload_rule(chk, prog):
    f = prog.func(WMM + "::WMM.reset_coefficients")
    chk.touch(f)
    order = []

    def on_call(fa, node, st):
        t = ast.unparse(node.func)
        if t == "self.reset_date":
            fa.add(st, "DATE", "set")
        if t == "self.get_properties" and node.args and ast.unparse(node.args[0]) == "self.wmm_filename" and ("DATE", "set") in st["F"]:
            pass
        if t == "self.get_properties" and node.args and ast.unparse(node.args[0]) == "self.wmm_filename" and ("DATE", "set") in st["F"]:
            fa.add(st, "EPOCH", "fresh")
        if t == "self.load_coefficients" and node.args and ast.unparse(node.args[0]) == "self.wmm_filename" and ("DATE", "set") in st["F"]:
            fa.add(st, "COEF", "fresh")
    fa = Facts(f, prog, callbacks={"call": on_call}).analyse()
    n = 0
    for stmt, st in fa.returns:
        if st is None:
            continue
        n += 1
        missing = [k for k in ("DATE", "EPOCH", "COEF") if not any(x[0] == k for x in st["F"])]
        site = WMM + "::WMM.reset_coefficients::exit@%s" % (stmt.lineno if stmt is not None else "end")
        if missing:
            chk.record("RELOAD", site, "date, epoch and coefficients refreshed on this path", verdict="VIOLATION")
            chk.finding("RELOAD", WMM, "WMM.reset_coefficients", "path skips %s" % "/".join(missing),
                        "a path through reset_coefficients does not refresh %s from the file chosen for the new date: a reused object keeps stale model data" % ", ".join(missing),
                        line=(stmt.lineno if stmt is not None else f.node.lineno))
        else:
            chk.record("RELOAD", site, "date, epoch and coefficients refreshed on this path")
    if n == 0:
        chk.error("RELOAD: reset_coefficients has no normal exit")


def keep_date(chk, prog):
    """KEEP-DATE: when magnetic_field is called without a date the reload must be the identity on the object's date state.  reset_date stores a float
    argument unchanged in date_dec but recomputes date_dec from a calendar date (year + day/365 of the *rounded* day), so only re-submitting
    self.date_dec keeps the decimal year the previous answer was computed for."""
    from sa.facts import PHI
    f = prog.func(WMM + "::WMM.magnetic_field")
    seen = []

    def on_call(fa, node, st):
        if ast.unparse(node.func) == "self.reset_coefficients" and node.args:
            seen.append((node, fa.vn(node.args[0], st)))
    Facts(f, prog, callbacks={"call": on_call}).analyse()
    if not seen:
        chk.error("KEEP-DATE: magnetic_field no longer reloads through self.reset_coefficients(<date>) (anchor changed)")
        return
    for node, vn in seen:
        head = "ite(cmp(P:date;Is c:None),"
        if vn.startswith(head):
            depth, kept = 0, ""
            for ch in vn[len(head):]:
                if ch in "([":
                    depth += 1
                elif ch in ")]":
                    depth -= 1
                elif ch == "," and depth == 0:
                    break
                kept += ch
            cands = {kept}
        elif vn in PHI:
            cands = set(PHI[vn]) - {"P:date"}
        else:
            cands = {vn} - {"P:date"}
        site = WMM + "::WMM.magnetic_field::" + stmt_text(node)
        if cands == {"S:date_dec"}:
            chk.record("KEEP-DATE", site, "with date=None the stored decimal year is re-submitted unchanged")
        elif any(c.startswith("S:") or "S:date" in c for c in cands):
            why = "with date=None the reload is fed `%s` instead of self.date_dec: reset_date recomputes the decimal year from it (year + day/365 of the rounded day), so a call " \
                  "that should keep the current date silently moves it (and, across a rounding or epoch boundary, changes dt or the model file)" % ", ".join(sorted(cands))
            chk.record("KEEP-DATE", site, "date=None keeps the date state", verdict="VIOLATION", detail=why)
            chk.finding("KEEP-DATE", WMM, "WMM.magnetic_field", "date=None reload argument", why, line=node.lineno)
        else:
            chk.error("KEEP-DATE: cannot tell what magnetic_field re-submits when date is None (%s)" % vn[:80])


def truthiness(chk, prog):
    mod = prog.module(WMM)
    cls = mod.classes["WMM"]
    n = 0
    for f in cls.methods.values():
        chk.touch(f)
        for node in ast.walk(f.node):
            tests = []
            if isinstance(node, (ast.If, ast.IfExp, ast.While)):
                tests.append(node.test)
            for t in tests:
                n += 1
                for bad in _bare_numeric(t):
                    chk.finding("TRUTHINESS", WMM, f.qname, "bare truth value of %s: %s" % (bad, ast.unparse(t)),
                                "%s may legitimately be 0 (equator / prime meridian / sea level) but is used as a truth value: the branch is skipped for that place" % bad,
                                line=t.lineno)
    chk.record("TRUTHINESS", WMM + "::WMM", "%d conditions scanned" % n)


def _bare_numeric(test):
    out = []

    def name_of(e):
        if isinstance(e, ast.Attribute) and isinstance(e.value, ast.Name) and e.value.id == "self" and e.attr in ZERO_IN_RANGE:
            return "self." + e.attr
        if isinstance(e, ast.Name) and e.id in ZERO_IN_RANGE:
            return e.id
        return None

    def visit(e, truthy):
        if truthy:
            nm = name_of(e)
            if nm:
                out.append(nm)
        if isinstance(e, ast.BoolOp):
            for v in e.values:
                visit(v, True)
        elif isinstance(e, ast.UnaryOp) and isinstance(e.op, ast.Not):
            visit(e.operand, True)
        elif isinstance(e, ast.Call) and isinstance(e.func, ast.Name) and e.func.id in ("all", "any") and e.args and isinstance(e.args[0], (ast.List, ast.Tuple)):
            for v in e.args[0].elts:
                visit(v, True)
    visit(test, True)
    return out


def ctor_route(chk, prog):
    f = prog.func(WMM + "::WMM.__init__")
    chk.touch(f)
    calls = [n for n in ast.walk(f.node) if isinstance(n, ast.Call) and ast.unparse(n.func) == "self.magnetic_field"]
    if not calls:
        chk.record("CTOR-ROUTE", f.ref, "constructor computes the field", verdict="VIOLATION")
        chk.finding("CTOR-ROUTE", WMM, "WMM.__init__", "no call of self.magnetic_field", "the constructor no longer computes the elements it advertises", line=f.node.lineno)
        return
    for c in calls:
        callee = prog.func(WMM + "::WMM.magnetic_field")
        params = callee.params[1:]
        bound = dict(zip(params, c.args))
        bound.update({k.arg: k.value for k in c.keywords if k.arg})
        want = {"latitude": "self.latitude", "longitude": "self.longitude", "height": "self.height"}
        bad = [p for p, w in want.items() if p not in bound or ast.unparse(bound[p]) != w]
        date_ok = "date" in bound and ast.unparse(bound["date"]) in ("self.date", "date", "self.date_dec")
        if bad or not date_ok:
            chk.record("CTOR-ROUTE", f.ref, "constructor forwards its own place and date", verdict="VIOLATION")
            chk.finding("CTOR-ROUTE", WMM, "WMM.__init__", stmt_text(c), "constructor does not forward %s to magnetic_field" % (bad + ([] if date_ok else ["date"])), line=c.lineno)
        else:
            chk.record("CTOR-ROUTE", f.ref, "constructor forwards its own latitude, longitude, height and date")
    # the call must not be conditional on data-dependent tests other than None-ness
    for n in ast.walk(f.node):
        if isinstance(n, ast.If) and any(c in ast.walk(n) for c in calls):
            if _bare_numeric(n.test):
                pass     # reported by TRUTHINESS


def elements(chk, prog):
    f = prog.func(WMM + "::WMM.magnetic_field")
    fa = Facts(f, prog, inline_private=True).analyse()
    for stmt, st in fa.returns:
        if st is None:
            continue
        g = lambda a: st.get("s:" + a)
        X, Y, Z, H, Fv, I, D = (g(a) for a in "XYZHFID")
        want = {
            "H": (H, "norm([%s,%s])" % (X, Y)), "F": (Fv, "norm([%s,%s])" % (H, Z)),
            "I": (I, ["np.arctan2(%s,%s)" % (Z, H)]), "D": (D, ["np.arctan2(%s,%s)" % (Y, X)]),
        }
        for k, (got, exp) in want.items():
            site = WMM + "::WMM.magnetic_field::self.%s" % k
            ok = got is not None and (got == exp if isinstance(exp, str) else any(e in got for e in exp) and "RAD2DEG" in got)
            if ok:
                chk.record("ELEMENTS", site, "self.%s is the stated function of the stored X, Y, Z" % k)
            else:
                chk.record("ELEMENTS", site, "self.%s is the stated function of the stored X, Y, Z" % k, verdict="VIOLATION", detail="got %s" % got)
                chk.finding("ELEMENTS", WMM, "WMM.magnetic_field", "self.%s does not follow from the stored X, Y, Z" % k,
                            "self.%s value-numbers to %s, expected %s of the final stored components" % (k, got, exp), line=f.node.lineno)
    # pole guard
    n = 0
    for d in fa.divisions:
        lat_derived = "geodetic2spherical" in d["vn"] or "P:latitude" in d["vn"]
        if lat_derived and ("np.cos(" in d["vn"] or "np.sqrt(" in d["vn"]) and "Div(" not in d["vn"][:4]:
            n += 1
            site = WMM + "::WMM.magnetic_field::/" + ast.unparse(d["node"].right if isinstance(d["node"], ast.BinOp) else d["node"].value)
            if d["guarded"]:
                chk.record("POLE-GUARD", site, "division by cos(latitude) only where it is known non-zero")
            else:
                chk.record("POLE-GUARD", site, "division by cos(latitude) only where it is known non-zero", verdict="VIOLATION")
                chk.finding("POLE-GUARD", WMM, "WMM.magnetic_field", "unguarded division: %s" % ast.unparse(d["node"]),
                            "division by the cosine of the latitude without a zero test: at a pole the east component becomes inf/NaN", line=d["node"].lineno)
    if n < 1:
        chk.error("POLE-GUARD: no division by cos(latitude) found in magnetic_field (anchor changed)")


def ltp(chk, prog):
    it = Interp(prog)
    v = sym_vec("v", 3)
    f = prog.func(FRAMES + "::ned2enu")
    g = prog.func(FRAMES + "::enu2ned")
    chk.touch(f)
    chk.touch(g)
    want = np.array([v[1], v[0], -v[2]], dtype=object)
    chk.ob("LTP.swap", FRAMES + "::ned2enu", "ned2enu(v) == (v1, v0, -v2)", lambda: eq(it.run(f, [v]), want, "ned2enu"), module=FRAMES, function="ned2enu")
    chk.ob("LTP.involution", FRAMES + "::ned2enu", "enu2ned(ned2enu(v)) == v", lambda: all_of(eq(it.run(g, [it.run(f, [v])]), v, "enu2ned(ned2enu)"),
           eq(it.run(f, [it.run(f, [v])]), v, "ned2enu^2")), module=FRAMES, function="ned2enu")


def canaries(chk, prog):
    from sa.report import Check

    def drop_reload(tree):
        for n in ast.walk(tree):
            if isinstance(n, ast.FunctionDef) and n.name == "magnetic_field":
                for i, s in enumerate(n.body):
                    if "reset_coefficients" in ast.unparse(s):
                        n.body[i] = ast.Pass()
                        return True
        return False
    try:
        p2 = prog.mutated(WMM, drop_reload)
        sub = Check("C15", chk.tier, p2, quiet=True)
        typestate(sub, p2)
        chk.canary("remove the reload from magnetic_field", any(f.rule == "TYPESTATE" for f in sub.findings), "%d findings" % len(sub.findings))
    except Exception as e:
        chk.canary("remove the reload from magnetic_field", False, "crashed: %s" % e)

    def truthy(tree):
        for n in ast.walk(tree):
            if isinstance(n, ast.FunctionDef) and n.name == "_guard_clauses":
                n.body.insert(0, ast.parse("if not self.height:\n    return").body[0])
                return True
        return False
    try:
        p2 = prog.mutated(WMM, truthy)
        sub = Check("C15", chk.tier, p2, quiet=True)
        truthiness(sub, p2)
        chk.canary("add `if not self.height` to WMM._guard_clauses", any(f.rule == "TRUTHINESS" and "height" in f.construct for f in sub.findings), "%d findings" % len(sub.findings))
    except Exception as e:
        chk.canary("add `if not self.height`", False, "crashed: %s" % e)


def run(chk, prog, tier):
    typestate(chk, prog)
    reload_rule(chk, prog)
    keep_date(chk, prog)
    truthiness(chk, prog)
    ctor_route(chk, prog)
    elements(chk, prog)
    ltp(chk, prog)
    chk.require_count("ELEMENTS", 4)
    canaries(chk, prog)
    return __doc__
