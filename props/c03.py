"""C03 — every estimator returns valid attitudes, one per input sample.

Decided:
 UNIT-RET   every value-returning path of every estimator entry point returns a value carrying the must-fact
            UNIT (divided by its own norm, built by the normalising Quaternion constructor, Hamilton product of
            UNIT values, UNIT parameter, literal, eigenvector column, callee that is UNIT on all paths), or - for
            the Euler->quaternion blocks of Tilt - a value whose squared norm AVN proves to be identically 1;
 REAL-RET   no value tainted by a complex source (np.linalg.eig, np.roots, np.emath.*) reaches such a return
            without .real / np.real / abs;
 COUNT      every batch routine allocates its output with the input's length, initialises row 0 on every path,
            loops over range(1, n) (or range(n)) with the same n and stores row t each iteration;
 API        no np.sum(<generator>) (TypeError on NumPy 2) anywhere in the package.
Not decided: finiteness in general (divisions by computed quantities), accuracy.
Added after the seeding rounds (DESIGN.md 6.6-6.8):
 DOMAIN-GUARD / COUNT.len / FEEDBACK.guard  interval bounds of sqrt/arccos arguments in the fully guarded estimators; one row per sample in the
            integration mode (length analysis); the Madgwick gradient is formed only where norm(f) != 0 is a must-fact.
Added after refactoring round 3 (DESIGN.md 6.9):
 loop normal form  enumerate()/zip() sample loops are analysed in their index form (sa/desugar.py); the representation context follows hoisted and negated tests.
Added after seeding rounds 5 and 6 and refactoring round 4 (DESIGN.md 6.10-6.12):
 VALUE-RAISE / MASK-BLEND / SIGN-CANON.rows  no rejection by the values of integrated angles; mask arithmetic over divisions; rows scaled by a sign.
"""
import ast
LINT_EXTRA_FILES = ("ahrs/common/orientation.py", "ahrs/utils/core.py")      # acc2q / am2q / ecompass helpers the filters start from; the shared input validators
import numpy as np
from sa import poly as P
from sa.facts import Facts
from sa.model import stmt_text
from sa.symeval import Interp, sym_vec, to_obj
from sa.lib import eq
from sa.desugar import desugared

F = "ahrs/filters/"
# entry point -> (unit parameters, {return text: exemption reason})
ENTRY = {
    "madgwick.py::Madgwick.updateIMU": (["q"], {}), "madgwick.py::Madgwick.updateMARG": (["q"], {}),
    "mahony.py::Mahony.updateIMU": (["q"], {}), "mahony.py::Mahony.updateMARG": (["q"], {}),
    "ekf.py::EKF.update": (["q"], {}), "ukf.py::UKF.update": (["q"], {}),
    "aqua.py::AQUA.estimate": ([], {}), "aqua.py::AQUA.updateIMU": (["q"], {}), "aqua.py::AQUA.updateMARG": (["q"], {}),
    "fourati.py::Fourati.update": (["q"], {}),
    "roleq.py::ROLEQ.update": (["q"], {}), "roleq.py::ROLEQ.oleq": (["q_omega"], {}), "roleq.py::ROLEQ.attitude_propagation": (["q"], {}),
    "fkf.py::FKF.kalman_update": (["q_1", "q_am"], {}),
    "angular.py::AngularRate.update": (["q"], {}),
    "tilt.py::Tilt.estimate": ([], {"return np.array([ex, ey, ez])": "angles representation", "return q": "AVN", "return q.to_DCM()": "rotmat of the constructor-normalised q"}),
    "saam.py::SAAM.estimate": ([], {}), "famc.py::FAMC.estimate": ([], {}), "oleq.py::OLEQ.estimate": ([], {}),
    "fqa.py::FQA.estimate": ([], {}), "quest.py::QUEST.estimate": ([], {}), "davenport.py::Davenport.estimate": ([], {}),
    "flae.py::FLAE.estimate": ([], {}),
    "triad.py::TRIAD.estimate": ([], {"return A": "rotation-matrix representation (orthogonality is C04's TRIAD clause)"}),
    "complementary.py::Complementary.Q": ([], {}),
}


def return_context(f):
    """{id(Return node): 'quaternion' | 'angles' | 'rotmat' | 'other' | None} from the enclosing tests of the representation option
    (`representation == '...'`, `!=`, `in (...)`, also through a local holding `representation.lower()`).
    Returns after an `if representation == 'quaternion': return ...` fall through to the remaining (non-quaternion) representations."""
    ctx = {}
    holders = {"representation"}
    for n in ast.walk(f.node):
        if isinstance(n, ast.Assign) and len(n.targets) == 1 and isinstance(n.targets[0], ast.Name) and "representation" in ast.unparse(n.value) \
                and not any(isinstance(x, (ast.Compare, ast.BoolOp, ast.IfExp)) for x in ast.walk(n.value)):
            holders.add(n.targets[0].id)
    KINDS = ("quaternion", "angles", "rotmat")

    def rep_of(test):
        """(context of the body, context of the else branch / of what follows a returning body); None = no information"""
        if isinstance(test, ast.UnaryOp) and isinstance(test.op, ast.Not):
            r = rep_of(test.operand)
            return (r[1], r[0]) if r else None
        if not (isinstance(test, ast.Compare) and len(test.ops) == 1):
            return None
        if not any((isinstance(x, ast.Name) and x.id in holders) or (isinstance(x, ast.Attribute) and x.attr in holders) for x in ast.walk(test.left)):
            return None
        op, right = test.ops[0], test.comparators[0]
        if isinstance(op, (ast.Eq, ast.NotEq)) and isinstance(right, ast.Constant) and right.value in KINDS:
            k = right.value
            pos, neg = (k, "other" if k == "quaternion" else None)
            return (pos, neg) if isinstance(op, ast.Eq) else (neg, pos)
        if isinstance(op, (ast.In, ast.NotIn)) and isinstance(right, (ast.Tuple, ast.List, ast.Set)) and all(isinstance(e, ast.Constant) for e in right.elts):
            vals = {e.value for e in right.elts}
            if not vals <= set(KINDS):
                return None
            if vals == {"quaternion"}:
                pos, neg = "quaternion", "other"
            elif "quaternion" not in vals:
                pos, neg = "other", None
            else:
                return None
            return (pos, neg) if isinstance(op, ast.In) else (neg, pos)
        return None

    def exits(stmts):
        return bool(stmts) and isinstance(stmts[-1], (ast.Return, ast.Raise))

    def walk(stmts, cur):
        for s in stmts:
            if isinstance(s, ast.Return):
                ctx[id(s)] = cur
            elif isinstance(s, ast.If):
                r = rep_of(s.test)
                walk(s.body, (r[0] if r and r[0] else cur))
                walk(s.orelse, (r[1] if r and r[1] else cur))
                if r and exits(s.body) and r[1] and not s.orelse:
                    cur = r[1]          # the body left: what follows runs under the negation
            elif isinstance(s, (ast.For, ast.While, ast.With, ast.Try)):
                walk(getattr(s, "body", []), cur)
                walk(getattr(s, "orelse", []), cur)
    walk(f.body(), None)
    ctx["__rep_of__"] = rep_of
    return ctx


def classify(f, r, ctx):
    """'quat' | exemption reason"""
    node = r["stmt"]
    c = r["arm_ctx"] if "arm_value" in r else ctx.get(id(node))
    v = r.get("arm_value", node.value)
    if c in ("angles", "rotmat", "other"):
        return "%s representation (not a quaternion)" % c
    if isinstance(v, ast.Call) and isinstance(v.func, ast.Attribute) and v.func.attr in ("to_DCM", "to_angles"):
        return "%s() of a quaternion object" % v.func.attr
    return "quat"


AVN_FUNCS = {"tilt.py::Tilt.estimate"}      # quaternion returns proved unit by AVN (Euler -> quaternion block)


def unit_ret(chk, prog, only=None):
    summ = {}
    n_paths = 0
    for key, (unit_params, exempt) in ENTRY.items():
        if only and key not in only:
            continue
        f = prog.func(F + key)
        chk.touch(f)
        fa = Facts(f, prog, unit_params=unit_params, unit_summaries=summ, inline_private=True).analyse()
        seen = 0
        ctx = return_context(f)
        expanded = []
        for r0 in fa.ret_info:
            if r0["none"] or not r0.get("arms"):
                expanded.append(r0)
                continue
            # `return a if <test> else b`: each leaf is a return of its own, under the representation context its tests give it
            leaf_ctx = {}

            def leaves(e, cur):
                if isinstance(e, ast.IfExp):
                    rr = ctx["__rep_of__"](e.test)
                    leaves(e.body, (rr[0] if rr and rr[0] else cur))
                    leaves(e.orelse, (rr[1] if rr and rr[1] else cur))
                else:
                    leaf_ctx[id(e)] = cur
            leaves(r0["stmt"].value, ctx.get(id(r0["stmt"])))
            for a_ in r0["arms"]:
                expanded.append(dict(r0, unit=a_["unit"], complex=a_["complex"], text="%s [arm %s]" % (r0["text"], a_["text"][:40]), arm_value=a_["expr"], arm_ctx=leaf_ctx.get(id(a_["expr"]))))
        for r in expanded:
            if r["none"]:
                continue
            seen += 1
            n_paths += 1
            site = "%s%s::L:%s" % (F, key, r["text"])
            kind = classify(f, r, ctx)
            why = None if kind == "quat" else kind
            if kind == "quat" and key in AVN_FUNCS:
                why = "AVN"
            if why == "AVN":
                chk.ob("UNIT-RET.avn", site, "sum of squares of the returned quaternion == 1", lambda: tilt_unit(prog),
                       module=f.module.rel, function=f.qname, construct="non-unit return: " + r["text"], line=r["line"])
            elif why:
                chk.record("UNIT-RET.exempt", site, "not a quaternion: " + why)
            elif r["unit"]:
                chk.record("UNIT-RET", site, "returned value carries UNIT on this path")
            elif _via_private_helper(f, r):
                # the value comes out of a private helper whose own returns could not be proved unit from the facts passed in: no verdict, not an alarm
                chk.error("UNIT-RET: %s returns the result of a private helper (%s); its unit norm could not be established through the call (cannot decide)" % (key, r["text"][:60]))
            else:
                chk.record("UNIT-RET", site, "returned value carries UNIT on this path", verdict="VIOLATION")
                chk.finding("UNIT-RET", f.module.rel, f.qname, "non-unit return: " + r["text"],
                            "no normalisation/unit derivation reaches `%s`: the estimator can return a non-unit quaternion" % r["text"], line=r["line"])
            if r["complex"] and not why:
                chk.record("REAL-RET", site, "returned value is real", verdict="VIOLATION")
                chk.finding("REAL-RET", f.module.rel, f.qname, "complex return: " + r["text"],
                            "value derived from np.linalg.eig / np.roots / np.emath reaches the return without .real (complex dtype on every call with NumPy 2)", line=r["line"])
            elif not why:
                chk.record("REAL-RET", site, "returned value is real")
        if seen == 0:
            chk.error("UNIT-RET: %s has no value-returning path" % key)
    return n_paths


def _via_private_helper(f, r):
    """the returned expression is (or is a local bound to) a call of a private method/function: self._x(...), Cls._x(...), _x(...)"""
    import re as _re
    pat = _re.compile(r"(?:\bself\.|\b[A-Z]\w*\.|(?<![\w.]))_[a-z]\w*\(")
    text = r["text"]
    if pat.search(text):
        return True
    m = _re.match(r"return (\w+)$", text.strip())
    if m:
        for s_ in ast.walk(f.node):
            if isinstance(s_, ast.Assign) and any(isinstance(t, ast.Name) and t.id == m.group(1) for t in s_.targets) and pat.search(ast.unparse(s_.value)):
                return True
    return False


def tilt_unit(prog):
    """AVN: the Euler->quaternion block of Tilt.estimate returns sum q^2 == 1 identically"""
    it = Interp(prog)
    f = prog.func(F + "tilt.py::Tilt.estimate")
    obj = it.make_obj(F + "tilt.py::Tilt")
    acc, mag = sym_vec("a", 3), sym_vec("m", 3)
    q = it.run(f, [acc, mag, "quaternion"], self_obj=obj)
    tot = P.ZERO
    for x in to_obj(q):
        tot = tot + x * x
    return eq(tot, P.ONE, "sum q^2")


# ------------------------------------------------------------------------------------------ COUNT
# minimum number of sample loops per batch routine (a pin against vacuous passes).  Routines whose two sensor arms run the SAME per-sample code (EKF.update with
# or without mag, the complementary blend on two or three columns) may serve both from one loop, so their pin is 1.
BATCH = [
    ("madgwick.py::Madgwick._compute_all", 2), ("mahony.py::Mahony._compute_all", 2), ("ekf.py::EKF._compute_all", 1),
    ("ukf.py::UKF._compute_all", 1), ("aqua.py::AQUA._compute_all", 4), ("fourati.py::Fourati._compute_all", 1),
    ("roleq.py::ROLEQ._compute_all", 1), ("fkf.py::FKF._compute_all", 1), ("complementary.py::Complementary._compute_all", 1),
    ("angular.py::AngularRate._compute_all", 1), ("triad.py::TRIAD._compute_all", 1),
    ("famc.py::FAMC._compute_all", 1), ("fqa.py::FQA._compute_all", 2), ("quest.py::QUEST._compute_all", 1),
    ("davenport.py::Davenport._compute_all", 1), ("flae.py::FLAE._compute_all", 1), ("oleq.py::OLEQ._compute_all", 1),
]


def count_rule(chk, prog, only=None):
    for key, min_loops in BATCH:
        if only and key not in only:
            continue
        f = desugared(prog.func(F + key))       # enumerate / zip sample loops in index form
        chk.touch(f)
        allocs = {}          # name -> vn of leading length
        loops = []

        def on_for(fa, node, st):
            loops.append((node, dict(st)))

        def on_store(fa, target, stmt, st):
            if isinstance(target.value, ast.Name):
                idx = target.slice.elts[0] if isinstance(target.slice, ast.Tuple) else target.slice
                if isinstance(idx, ast.Constant) and idx.value == 0:
                    fa.add(st, "ROW0", target.value.id)
        fa = Facts(f, prog, callbacks={"for": on_for, "store": on_store})
        # allocations: walk assignments once the analysis ran so value numbers are available per statement
        alloc_nodes = []

        class AllocFacts(Facts):
            def s_Assign(self2, s, st):
                out = super().s_Assign(s, st)
                if len(s.targets) == 1 and isinstance(s.targets[0], ast.Name) and isinstance(s.value, (ast.Call, ast.IfExp)):
                    calls = [s.value] if isinstance(s.value, ast.Call) else [s.value.body, s.value.orelse]
                    lens = set()
                    for c in calls:
                        if isinstance(c, ast.Call):
                            npn = (self2.np_name(c.func) or "")
                            if npn in ("zeros", "empty", "ones") and c.args:
                                shp = c.args[0]
                                first = shp.elts[0] if isinstance(shp, (ast.Tuple, ast.List)) else shp
                                if isinstance(first, ast.Attribute) and first.attr == "shape":
                                    lens.add("len(%s)" % self2.vn(first.value, st))       # np.zeros(X.shape): as long as X
                                elif isinstance(first, ast.Call) and ast.unparse(first.func) in ("np.shape", "numpy.shape") and first.args:
                                    lens.add("len(%s)" % self2.vn(first.args[0], st))
                                else:
                                    lens.add(self2.vn(first, st))
                            elif npn in ("zeros_like", "empty_like") and c.args:
                                lens.add("len(%s)" % self2.vn(c.args[0], st))
                    if len(lens) == 1:
                        allocs[s.targets[0].id] = lens.pop()
                return out
        fa = AllocFacts(f, prog, callbacks={"for": on_for, "store": on_store}).analyse()
        n_loops = 0
        for node, st in loops:
            # which allocated array does the body store into at the loop index?
            if not isinstance(node.target, ast.Name):
                continue
            var = node.target.id
            stores = []
            for n in ast.walk(node):
                if isinstance(n, (ast.Assign, ast.AugAssign)):
                    for t in (n.targets if isinstance(n, ast.Assign) else [n.target]):
                        if isinstance(t, ast.Subscript) and isinstance(t.value, ast.Name) and t.value.id in allocs:
                            idx = t.slice.elts[0] if isinstance(t.slice, ast.Tuple) else t.slice
                            stores.append((t.value.id, idx, n))
            if not stores:
                continue
            n_loops += 1
            # the output store is the one indexed by the loop variable (scratch arrays filled with literal indices inside the body are not outputs)
            arr, idx, stmt = next((s_ for s_ in stores if isinstance(s_[1], ast.Name) and s_[1].id == var), stores[0])
            site = "%s%s::for %s in %s" % (F, key, var, ast.unparse(node.iter))
            ok, why = loop_ok(fa, node, st, var, arr, idx, allocs)
            if ok:
                chk.record("COUNT.loop", site, "loop covers rows 1..n-1 (or 0..n-1) of the n-row output and row 0 is initialised")
            else:
                chk.record("COUNT.loop", site, "loop covers every output row", verdict="VIOLATION", detail=why)
                chk.finding("COUNT.loop", f.module.rel, f.qname, "for %s in %s" % (var, ast.unparse(node.iter)), why, line=node.lineno)
        # comprehension form: np.array([self.estimate(X[t], ...) for t in range(N)])
        for n in ast.walk(f.node):
            if isinstance(n, ast.ListComp) and len(n.generators) == 1:
                g = n.generators[0]
                has_est = any(isinstance(c, ast.Call) and "estimate" in ast.unparse(c.func) for c in ast.walk(n.elt))
                direct = g.iter.args if (isinstance(g.iter, ast.Call) and isinstance(g.iter.func, ast.Name) and g.iter.func.id == "zip") else [g.iter]
                if has_est and not g.ifs and direct and all(isinstance(a, (ast.Name, ast.Attribute)) for a in direct):
                    # direct iteration over whole arrays: one element per row by construction (no index arithmetic to get wrong)
                    n_loops += 1
                    site = "%s%s::[... for %s in %s]" % (F, key, ast.unparse(g.target), ast.unparse(g.iter))
                    tnames = {x.id for x in ast.walk(g.target) if isinstance(x, ast.Name)}
                    unames = {x.id for x in ast.walk(n.elt) if isinstance(x, ast.Name)}
                    if tnames <= unames:
                        chk.record("COUNT.comp", site, "one estimate per input row (direct iteration over the whole arrays)")
                    else:
                        why = "row variable(s) %s of the iteration never reach estimate(): every row gets the same estimate" % sorted(tnames - unames)
                        chk.record("COUNT.comp", site, "one estimate per input row", verdict="VIOLATION", detail=why)
                        chk.finding("COUNT.comp", f.module.rel, f.qname, "[... for %s in %s]" % (ast.unparse(g.target), ast.unparse(g.iter)), why, line=n.lineno)
                    continue
                if isinstance(g.iter, ast.Call) and isinstance(g.iter.func, ast.Name) and g.iter.func.id == "range" and isinstance(g.target, ast.Name):
                    if not any(isinstance(c, ast.Call) and "estimate" in ast.unparse(c.func) for c in ast.walk(n.elt)):
                        continue
                    n_loops += 1
                    site = "%s%s::[... for %s in %s]" % (F, key, g.target.id, ast.unparse(g.iter))
                    ok, why = comp_ok(f, n, g)
                    if ok:
                        chk.record("COUNT.comp", site, "one estimate per input row")
                    else:
                        chk.record("COUNT.comp", site, "one estimate per input row", verdict="VIOLATION", detail=why)
                        chk.finding("COUNT.comp", f.module.rel, f.qname, "[... for %s in %s]" % (g.target.id, ast.unparse(g.iter)), why, line=n.lineno)
        # pin against vacuous passes: at least one sample loop, and no loop that stores a row at its own index escaped the analysis above.  (The per-routine
        # numbers of the table are today's loop counts; a refactoring may merge the IMU and MARG loops into one whose body selects the streaming call, RA6_1/RA6_3.)
        cand = 0
        for lp in ast.walk(f.node):
            if isinstance(lp, ast.For) and isinstance(lp.target, ast.Name) and any(
                    isinstance(x, ast.Subscript) and isinstance(x.ctx, ast.Store) and isinstance(x.value, ast.Name)
                    and isinstance((x.slice.elts[0] if isinstance(x.slice, ast.Tuple) else x.slice), ast.Name)
                    and (x.slice.elts[0] if isinstance(x.slice, ast.Tuple) else x.slice).id == lp.target.id for x in ast.walk(lp)):
                cand += 1
        comps = sum(1 for n_ in ast.walk(f.node) if isinstance(n_, ast.ListComp) and any(isinstance(c, ast.Call) and "estimate" in ast.unparse(c.func) for c in ast.walk(n_.elt)))
        if n_loops < 1 or n_loops < min(min_loops, cand + comps):
            chk.error("COUNT: %s has %d analysed sample loops of %d row-storing loops / comprehensions (%d on the tree the table was made from)" % (key, n_loops, cand + comps, min_loops))


def loop_ok(fa, node, st, var, arr, idx, allocs):
    it = node.iter
    if not (isinstance(it, ast.Call) and isinstance(it.func, ast.Name) and it.func.id == "range"):
        return False, "sample loop is not a range() loop"
    args = it.args
    n_vn = allocs[arr]
    if len(args) == 1:
        start, stop = 0, args[0]
    elif len(args) == 2:
        if not (isinstance(args[0], ast.Constant) and args[0].value in (0, 1)):
            return False, "loop starts at %s: rows before it are never computed" % ast.unparse(args[0])
        start, stop = args[0].value, args[1]
    else:
        return False, "range() with a step skips rows"
    stop_vn = fa.vn(stop, st)
    # len(Q) of the allocated array itself is the allocation length
    if isinstance(stop, ast.Call) and isinstance(stop.func, ast.Name) and stop.func.id == "len" and isinstance(stop.args[0], ast.Name) and stop.args[0].id == arr:
        stop_vn = n_vn
    def canon(v_):       # len(X) and X.shape[0] are the same number
        return v_[4:-1] + ".shape[c:0]" if isinstance(v_, str) and v_.startswith("len(") and v_.endswith(")") else v_
    # a zip() loop stops with its shortest array: any of the zipped arrays (validated to have one shape) gives the bound
    alts = {canon(fa.vn(a_, st)) for a_ in getattr(node, "_alt_stops", [])}
    if canon(stop_vn) != canon(n_vn) and canon(n_vn) not in alts:
        return False, "loop bound `%s` (%s) differs from the output length (%s): the last rows keep their initial zeros or the loop overruns" % (ast.unparse(stop), stop_vn, n_vn)
    if not (isinstance(idx, ast.Name) and idx.id == var):
        return False, "row stored at `%s`, not at the loop index `%s`" % (ast.unparse(idx), var)
    if start == 1 and ("ROW0", arr) not in st["F"]:
        return False, "loop starts at 1 but row 0 of `%s` is not assigned on every path before it" % arr
    return True, ""


def comp_ok(f, comp, g):
    args = g.iter.args
    if len(args) != 1:
        return False, "comprehension range does not start at 0 with unit step"
    stop = args[0]
    # stop must be a name bound to len(X)/X.shape[0] and the element must index X[t]
    src = None
    if isinstance(stop, ast.Name):
        for n in ast.walk(f.node):
            if isinstance(n, ast.Assign) and any(isinstance(t, ast.Name) and t.id == stop.id for t in n.targets):
                src = n.value
    else:
        src = stop
    if src is None:
        return False, "cannot find the definition of the bound `%s`" % ast.unparse(stop)
    s = ast.unparse(src)
    ok_forms = ("len(", ".shape[0]")
    if not (s.startswith("len(") or s.endswith(".shape[0]")):
        return False, "bound `%s = %s` is not the length of an input array" % (ast.unparse(stop), s)
    inner = s[4:-1] if s.startswith("len(") else s[:-len(".shape[0]")]
    inner = inner.replace("np.atleast_2d(", "").rstrip(")") if "atleast_2d" in inner else inner
    used = [ast.unparse(n.value) for n in ast.walk(comp.elt) if isinstance(n, ast.Subscript) and isinstance(n.slice, ast.Name) and n.slice.id == g.target.id]
    if inner not in used:
        return False, "bound is the length of `%s` but the rows indexed are %s" % (inner, used)
    return True, ""


def length_of(e, env, depth=0):
    """(base, offset): the leading length of an array expression as <length of base> + offset, or None.  Slices with literal bounds shift the offset,
    element-wise arithmetic of equal lengths keeps it, cumulative / element-wise NumPy functions keep it, np.r_/vstack add their parts."""
    if depth > 8:
        return None
    if isinstance(e, ast.Name):
        if e.id in env:
            return env[e.id]
        return (e.id, 0)
    if isinstance(e, ast.Attribute) and isinstance(e.value, ast.Name) and e.value.id == "self":
        return ("self." + e.attr, 0)
    if isinstance(e, ast.Subscript):
        inner = length_of(e.value, env, depth + 1)
        sl = e.slice.elts[0] if isinstance(e.slice, ast.Tuple) else e.slice
        if inner is None:
            return None
        if isinstance(sl, ast.Slice) and sl.step is None:
            lo = ast.literal_eval(sl.lower) if sl.lower is not None and isinstance(sl.lower, (ast.Constant, ast.UnaryOp)) else (0 if sl.lower is None else None)
            hi = ast.literal_eval(sl.upper) if sl.upper is not None and isinstance(sl.upper, (ast.Constant, ast.UnaryOp)) else (0 if sl.upper is None else None)
            if lo is None or hi is None or not isinstance(lo, int) or not isinstance(hi, int) or lo < 0 or hi > 0:
                return None
            return (inner[0], inner[1] - lo + hi)
        return None
    if isinstance(e, ast.BinOp):
        l, r = length_of(e.left, env, depth + 1), length_of(e.right, env, depth + 1)
        scal = lambda x: isinstance(x, (ast.Constant,)) or (isinstance(x, ast.Name) and x.id in ("dt", "Dt")) or (isinstance(x, ast.Attribute) and x.attr in ("Dt", "dt"))
        if scal(e.left):
            return r
        if scal(e.right):
            return l
        if l is not None and r is not None and l == r:
            return l
        return None
    if isinstance(e, ast.Call):
        nm = ast.unparse(e.func).split(".")[-1]
        if nm in ("cumsum", "cumprod", "asarray", "array", "copy", "cos", "sin", "abs", "unwrap", "atleast_2d", "asfarray") and e.args:
            return length_of(e.args[0], env, depth + 1)
        if nm in ("QuaternionArray",) and (e.args or e.keywords):        # one quaternion per row of whatever it is built from
            return length_of(e.args[0] if e.args else e.keywords[0].value, env, depth + 1)
        if nm in ("to_array", "to_DCM", "to_angles") and isinstance(e.func, ast.Attribute) and not e.args:
            return length_of(e.func.value, env, depth + 1)
        if nm in ("vstack", "concatenate", "row_stack") and e.args and isinstance(e.args[0], (ast.Tuple, ast.List)):
            parts = [length_of(p, env, depth + 1) for p in e.args[0].elts]
            if all(p is not None for p in parts) and len({p[0] for p in parts if p[0] != "#"}) <= 1:
                base = next((p[0] for p in parts if p[0] != "#"), "#")
                return (base, sum(p[1] for p in parts))
            return None
        if nm in ("zeros", "ones", "empty") and e.args:
            shp = e.args[0]
            first = shp.elts[0] if isinstance(shp, (ast.Tuple, ast.List)) else shp
            if isinstance(first, ast.Constant) and isinstance(first.value, int):
                return ("#", first.value)
        return None
    return None


def integration_length(chk, prog):
    """COUNT.len: AngularRate's 'integration' mode returns what integrate_angular_positions returns; its leading length must be that of the gyroscope array
    it is given (one attitude per sample), decided by a small length analysis (slices shift, element-wise and cumulative operations keep the length)"""
    f = prog.func(F + "angular.py::AngularRate.integrate_angular_positions")
    chk.touch(f)
    rets = []

    def unwrap(v):
        # representation conversions keep one row per row: look through Quaternion-array constructors / method calls on the integrated angles
        inner = v
        while isinstance(inner, ast.Call) and (not isinstance(inner.func, ast.Attribute) or not (ast.unparse(inner.func).startswith(("np.", "numpy.")))):
            if isinstance(inner.func, ast.Attribute) and not inner.args and not inner.keywords:
                inner = inner.func.value
            elif isinstance(inner.func, ast.Name) and inner.func.id[:1].isupper() and (inner.args or inner.keywords):
                inner = inner.args[0] if inner.args else inner.keywords[0].value
            else:
                break
        return inner

    def walk(stmts, env):
        for s_ in stmts:
            if isinstance(s_, ast.Assign) and len(s_.targets) == 1 and isinstance(s_.targets[0], ast.Name):
                v = length_of(s_.value, env)
                if v is None:
                    v = length_of(unwrap(s_.value), env)
                if v is not None:
                    env[s_.targets[0].id] = v
                else:
                    env.pop(s_.targets[0].id, None)
            elif isinstance(s_, ast.Return) and s_.value is not None:
                rets.append((s_, dict(env)))
            elif isinstance(s_, ast.If):
                e1, e2 = dict(env), dict(env)
                walk(s_.body, e1)
                walk(s_.orelse, e2)
                for k_ in list(env):
                    if e1.get(k_) != e2.get(k_):
                        env.pop(k_)
                for k_ in e1:
                    if k_ not in env and e1.get(k_) == e2.get(k_):
                        env[k_] = e1[k_]
            elif isinstance(s_, (ast.For, ast.While, ast.With, ast.Try)):
                for fld in ("body", "orelse", "finalbody"):
                    walk(getattr(s_, fld, []) or [], env)
                for h_ in getattr(s_, "handlers", []):
                    walk(h_.body, env)
    walk(f.body(), {})
    n = 0
    for r, e_ in rets:
        inner = unwrap(r.value)
        ln = length_of(inner, e_)
        site = "%s::%s" % (f.ref, stmt_text(r)[:60])
        if ln is None:
            continue
        n += 1
        if ln == ("gyr", 0):
            chk.record("COUNT.len", site, "returned array has one row per gyroscope sample")
        else:
            why = "the returned array has len(%s)%+d rows for len(gyr) input rows: the 'integration' mode no longer returns one attitude per sample" % (ln[0], ln[1])
            chk.record("COUNT.len", site, "one row per gyroscope sample", verdict="VIOLATION", detail=why)
            chk.finding("COUNT.len", f.module.rel, f.qname, "length of the integrated angular positions", why, line=r.lineno)
    if n == 0:
        chk.error("COUNT.len: no return of integrate_angular_positions has a decidable length")


TOTAL_CONVERTERS = ["ahrs/common/quaternion.py::QuaternionArray.from_rpy"]


def total_converters(chk, prog):
    """VALUE-RAISE: the array converter the integration mode of AngularRate and Complementary.Q hand their integrated angles to accepts every real angle: an
    integrated angle grows without bound, so a `raise` guarded by the VALUES of the data (as opposed to their shape, rank or type) turns a long enough history into
    an exception instead of one attitude per sample."""
    for ref in TOTAL_CONVERTERS:
        f = prog.func(ref)
        chk.touch(f)
        params = set(f.params[1:] if f.cls is not None else f.params)
        # locals that are copies / conversions of the data parameters
        data = set(params)
        for _ in range(3):
            for s in ast.walk(f.node):
                if isinstance(s, ast.Assign) and len(s.targets) == 1 and isinstance(s.targets[0], ast.Name) and any(isinstance(x, ast.Name) and x.id in data for x in ast.walk(s.value)):
                    data.add(s.targets[0].id)

        def value_use(test):
            """a data name used otherwise than through .shape / .ndim / .dtype / .size / len() / isinstance()"""
            shape_only = set()
            for x in ast.walk(test):
                if isinstance(x, ast.Attribute) and x.attr in ("shape", "ndim", "dtype", "size") and isinstance(x.value, ast.Name):
                    shape_only.add(id(x.value))
                if isinstance(x, ast.Call) and isinstance(x.func, ast.Name) and x.func.id in ("len", "isinstance", "type") and x.args and isinstance(x.args[0], ast.Name):
                    shape_only.add(id(x.args[0]))
            return next((x for x in ast.walk(test) if isinstance(x, ast.Name) and x.id in data and id(x) not in shape_only), None)
        n = 0
        for s in ast.walk(f.node):
            if isinstance(s, ast.If) and any(isinstance(b, ast.Raise) for b in s.body):
                n += 1
                u = value_use(s.test)
                site = "%s::if %s" % (ref, ast.unparse(s.test)[:50])
                if u is None:
                    chk.record("VALUE-RAISE", site, "the rejection depends on the shape / rank / type of the input only")
                else:
                    why = ("`%s` raises when `%s`: the test looks at the VALUES of the angles; integrated angular positions exceed any fixed bound after a long enough history, and the "
                           "integration mode then raises instead of returning one attitude per sample" % (f.qname, ast.unparse(s.test)[:60]))
                    chk.record("VALUE-RAISE", site, "no rejection by the values of the data", verdict="VIOLATION", detail=why)
                    chk.finding("VALUE-RAISE", f.module.rel, f.qname, "raise under `%s`" % ast.unparse(s.test)[:60], why, line=s.lineno)
        if n == 0:
            chk.record("VALUE-RAISE", ref, "no raise in the converter")


def api_rule(chk, prog):
    n = 0
    for f in prog.all_funcs():
        for c in ast.walk(f.node):
            if isinstance(c, ast.Call) and ast.unparse(c.func) in ("np.sum", "np.prod", "np.mean") and c.args and isinstance(c.args[0], ast.GeneratorExp):
                chk.finding("API.sum-generator", f.module.rel, f.qname, stmt_text(c),
                            "%s(<generator>) raises TypeError under the installed NumPy 2 (every call of this function fails)" % ast.unparse(c.func), line=c.lineno)
        n += 1
    chk.counts["API.functions_scanned"] = n


def canaries(chk, prog):
    from sa.report import Check

    def drop_norm(cls, meth):
        def tr(tree):
            for c in ast.walk(tree):
                if isinstance(c, ast.ClassDef) and c.name == cls:
                    for fn in c.body:
                        if isinstance(fn, ast.FunctionDef) and fn.name == meth:
                            # the last normalisation on the way to the final return, whichever idiom it uses
                            for i, s in reversed(list(enumerate(fn.body))):
                                if isinstance(s, ast.AugAssign) and isinstance(s.op, ast.Div) and "norm" in ast.unparse(s.value):
                                    fn.body[i] = ast.Pass()
                                    return True
                                if isinstance(s, ast.Return) and isinstance(s.value, ast.BinOp) and isinstance(s.value.op, ast.Div):
                                    s.value = s.value.left
                                    return True
                                if isinstance(s, ast.Assign) and isinstance(s.value, ast.BinOp) and isinstance(s.value.op, ast.Div) and "norm" in ast.unparse(s.value.right) \
                                        and ast.unparse(s.targets[0]) == ast.unparse(s.value.left):
                                    fn.body[i] = ast.Pass()
                                    return True
            return False
        return tr

    def short_loop(cls):
        def tr(tree):
            for c in ast.walk(tree):
                if isinstance(c, ast.ClassDef) and c.name == cls:
                    for n in ast.walk(c):
                        if isinstance(n, ast.For) and isinstance(n.iter, ast.Call) and ast.unparse(n.iter.func) == "range" and len(n.iter.args) == 2:
                            n.iter.args[1] = ast.BinOp(n.iter.args[1], ast.Sub(), ast.Constant(1))
                            return True
            return False
        return tr
    for name, rel, tr, fn in (
            ("delete the final normalisation of Mahony.updateMARG", F + "mahony.py", drop_norm("Mahony", "updateMARG"), lambda sub, p2: unit_ret(sub, p2, only={"mahony.py::Mahony.updateMARG"})),
            ("delete the final normalisation of EKF.update", F + "ekf.py", drop_norm("EKF", "update"), lambda sub, p2: unit_ret(sub, p2, only={"ekf.py::EKF.update"})),
            ("range(1, n) -> range(1, n-1) in Fourati._compute_all", F + "fourati.py", short_loop("Fourati"), lambda sub, p2: count_rule(sub, p2, only={"fourati.py::Fourati._compute_all"}))):
        try:
            p2 = prog.mutated(rel, tr)
            sub = Check("C03", chk.tier, p2, quiet=True)
            fn(sub, p2)
            chk.canary(name, bool(sub.findings), "%d findings" % len(sub.findings))
        except Exception as e:
            chk.canary(name, False, "canary crashed: %s: %s" % (type(e).__name__, e))


def run(chk, prog, tier):
    from sa import lints as _lints
    _lints.domain_guard(chk, prog, refs=['ahrs/filters/fqa.py::FQA.estimate', 'ahrs/filters/aqua.py::AQUA.estimate', 'ahrs/filters/complementary.py::Complementary.am_estimation', 'ahrs/filters/tilt.py::Tilt.estimate', 'ahrs/filters/tilt.py::Tilt._compute_all'])
    n = unit_ret(chk, prog)
    if n < 45:
        chk.error("UNIT-RET visited %d return paths, 50 confirmed by hand" % n)
    count_rule(chk, prog)
    api_rule(chk, prog)
    integration_length(chk, prog)
    total_converters(chk, prog)
    from props.c05 import madgwick_guard
    madgwick_guard(chk, prog)       # finiteness at the exact truth: the gradient is normalised only where the objective is non-zero
    chk.require_count("COUNT.loop", 14)
    chk.require_count("COUNT.comp", 6)
    canaries(chk, prog)
    return __doc__
