"""C18 — rotation metrics are bi-invariant distances with their closed forms.

Decided (AVN exact unless noted; unit quaternions as symbols with declared unit relations):
 SYMMETRY    every metric is unchanged when its arguments are swapped; the quaternion metrics are unchanged when an
             argument is replaced by its negative (min/abs/square structure);
 INVARIANCE  quaternion metrics of (r (x) q1, r (x) q2) and (q1 (x) r, q2 (x) r) equal those of (q1, q2) for unit r;
             chordal and identity_deviation are invariant under R -> M R and R -> R M for M = E(r); angular_distance
             depends on (R1, R2) only through tr(X) and |X^T - X|_F of X = R1 R2^T, both conjugation invariant;
 CLOSED      with d = q1.q2 (= cos t/2): qdist^2 candidates are 2 -/+ 2d, qeip = 1 - |d|, qcip = arccos|d|,
             qad = arccos(2 d^2 - 1), chordal^2 = identity_deviation^2 = 8(1 - d^2), angular_distance^2 = 2 arccos(2d^2-1)^2;
 SHORTCUT    every ``allclose(a, b) -> 0`` shortcut compares +/-q1 with q2 themselves (so it only fires when the two
             rotations coincide up to tolerance) and its tolerance band (<= 4.1e-5 rad) lies below the property's smallest
             angle 1e-4 rad; DCM.log has no tolerance shortcut;
 TWIN        single (ndim == 1) and batch arms agree row by row.
Not decided: the triangle inequality (a statement about triples that is not an identity).
Added after the seeding rounds (DESIGN.md 6.6-6.8):
 COINCIDE-GUARD / LOG.arm / NO-SIGN-ZERO  arccos arguments on angular_distance's route are provably <= 1; euclidean has its closed form on both min arms.
"""
import ast
import math
import numpy as np
from sa import poly as P
from sa.model import stmt_text
from sa.symeval import Interp, sym_vec, sym_mat, to_obj, unit_syms
from sa.lib import eq, all_of, I, hamilton_ref, E_ref, isclose_band, DCM

MET = "ahrs/utils/metrics.py"
QMETRICS = ["qdist", "qeip", "qcip", "qad"]


def dot(a, b):
    t = P.ZERO
    for x, y in zip(a, b):
        t = t + x * y
    return t


def fro2(M):
    t = P.ZERO
    for v in to_obj(M).flat:
        t = t + v * v
    return t


def no_shortcut(c, it):
    if c.op in ("allclose", "isclose"):
        return False
    if c.op in ("<", ">", "<=", ">="):
        return False
    return None


def so3_ok(c, it):
    if c.op in ("allclose", "isclose"):
        return bool(it.func_stack and it.func_stack[-1].name == "_assert_SO3")
    if c.op in ("<", ">", "<=", ">="):
        return False
    return None


def quaternion_metrics(chk, prog):
    q1, q2, r = unit_syms("ma"), unit_syms("mb"), unit_syms("mr")
    d = dot(q1, q2)
    closed = {"qdist": None, "qeip": 1 - P.absf(d), "qcip": P.fn("arccos", P.absf(d)), "qad": P.fn("arccos", 2 * d * d - 1)}
    for name in QMETRICS:
        f = prog.func(MET + "::" + name)
        chk.touch(f)
        run = lambda a, b, f=f: Interp(prog, oracle=no_shortcut).run(f, [a.copy(), b.copy()])
        kw = dict(module=MET, function=name, line=f.node.lineno)
        base = lambda run=run: run(q1, q2)
        chk.ob("SYMMETRY", f.ref, "%s(q1,q2) == %s(q2,q1) == %s(-q1,q2) == %s(q1,-q2)" % (name, name, name, name),
               lambda run=run, base=base: all_of(eq(run(q2, q1), base(), "swap"), eq(run(-q1, q2), base(), "-q1"), eq(run(q1, -q2), base(), "-q2")),
               construct="symmetry / sign invariance", **kw)
        chk.ob("INVARIANCE", f.ref, "%s(r*q1, r*q2) == %s(q1*r, q2*r) == %s(q1, q2) for unit r" % (name, name, name),
               lambda run=run, base=base: all_of(eq(run(hamilton_ref(r, q1), hamilton_ref(r, q2)), base(), "left"), eq(run(hamilton_ref(q1, r), hamilton_ref(q2, r)), base(), "right")),
               construct="bi-invariance", **kw)
        if name == "qdist":
            def qd(base=base):
                v = base()
                a = P.atom(list(v.num)[0][0][0]) if len(v.num) == 1 else None
                if a is None or a.name != "min":
                    return (None, "qdist is not min(.,.)")
                c1, c2 = a.args
                want = {repr(P.sqrt(2 - 2 * d)), repr(P.sqrt(2 + 2 * d))}
                ok = all_of(eq(c1 * c1 + c2 * c2, P.const(4), "|q1-q2|^2 + |q1+q2|^2"), eq(c1 * c1 * c2 * c2, (2 - 2 * d) * (2 + 2 * d), "product of the candidates"))
                return ok
            chk.ob("CLOSED", f.ref, "qdist == min(sqrt(2-2d), sqrt(2+2d))", qd, construct="closed form", **kw)
        else:
            chk.ob("CLOSED", f.ref, "%s == closed form in d = q1.q2" % name, lambda base=base, name=name: eq(base(), closed[name], name), construct="closed form", **kw)
        # TWIN single vs batch
        def twin(f=f, run=run):
            # free (non-normalised) rows: both arms must normalise each argument by its own norm
            a1, a2, b1, b2 = sym_vec("fa", 4), sym_vec("fb", 4), sym_vec("fc", 4), sym_vec("fd", 4)
            got = to_obj(Interp(prog, oracle=no_shortcut).run(f, [np.vstack([a1, b1]), np.vstack([a2, b2])]))
            return all_of(eq(got[0], run(a1, a2), "batch row 0"), eq(got[1], run(b1, b2), "batch row 1"))
        chk.ob("TWIN", f.ref, "batch arm row == single arm", twin, construct="single vs batch", **kw)
        shortcut_rule(chk, prog, f, q1, q2)


def metric_twins(chk, prog):
    """single vs batch arms of the four quaternion metrics on free (non-normalised) rows (shared with C07)"""
    for name in QMETRICS:
        f = prog.func(MET + "::" + name)
        chk.touch(f)
        run = lambda a, b, f=f: Interp(prog, oracle=no_shortcut).run(f, [a.copy(), b.copy()])

        def twin(f=f, run=run):
            a1, a2, b1, b2 = sym_vec("fa", 4), sym_vec("fb", 4), sym_vec("fc", 4), sym_vec("fd", 4)
            got = to_obj(Interp(prog, oracle=no_shortcut).run(f, [np.vstack([a1, b1]), np.vstack([a2, b2])]))
            return all_of(eq(got[0], run(a1, a2), "batch row 0"), eq(got[1], run(b1, b2), "batch row 1"))
        chk.ob("TWIN.metric", f.ref, "batch arm row == single arm (non-normalised rows)", twin, module=MET, function=name, construct="single vs batch", line=f.node.lineno)


def shortcut_rule(chk, prog, f, q1, q2):
    conds = []

    def oracle(c, it):
        if c.op in ("allclose", "isclose"):
            conds.append(c)
            return False
        return no_shortcut(c, it)
    Interp(prog, oracle=oracle).run(f, [q1.copy(), q2.copy()])
    n = 0
    for c in conds:
        n += 1
        a, b = np.asarray(to_obj(c.lhs), dtype=object), np.asarray(to_obj(c.rhs), dtype=object)
        site = "%s::allclose#%d" % (f.ref, n)
        ok = (eq(a - b, q1 - q2, "") is True) or (eq(a - b, -(q1 - q2), "") is True) or (eq(a - b, -(q1 + q2), "") is True) or (eq(a - b, q1 + q2, "") is True)
        if ok:
            chk.record("SHORTCUT.form", site, "shortcut compares +/-q1 with q2 themselves")
        else:
            chk.record("SHORTCUT.form", site, "shortcut compares +/-q1 with q2 themselves", verdict="VIOLATION")
            chk.finding("SHORTCUT.form", MET, f.qname, "zero shortcut compares %s with %s" % (str(a[0])[:40], str(b[0])[:40]),
                        "the `return 0` shortcut fires when %s ~ %s, which also holds for distinct rotations (e.g. component-wise sign flips): the metric is 0 for rotations that do not coincide" % (str(a[0])[:40], str(b[0])[:40]),
                        line=f.node.lineno)
    # literal tolerance -> largest relative angle that takes the shortcut
    for s in ast.walk(f.node):
        if isinstance(s, ast.Call) and ast.unparse(s.func) in ("np.allclose", "np.isclose"):
            rtol, atol = 1e-5, 1e-8
            for k in s.keywords:
                try:
                    if k.arg == "rtol":
                        rtol = float(ast.literal_eval(k.value))
                    if k.arg == "atol":
                        atol = float(ast.literal_eval(k.value))
                except Exception:
                    rtol = atol = float("inf")
            delta = 2.0 * (atol + rtol * 1.0)              # |q1 - q2| <= sqrt(4) * per-component tolerance (|q2_i| <= 1)
            t_max = 4.0 * math.asin(min(1.0, delta / 2.0))
            site = "%s::%s" % (f.ref, stmt_text(s))
            if t_max < 1e-4:
                chk.record("SHORTCUT.band", site, "shortcut band: relative angles <= %.3e rad < 1e-4 rad" % t_max)
            else:
                chk.record("SHORTCUT.band", site, "shortcut band below 1e-4 rad", verdict="VIOLATION")
                chk.finding("SHORTCUT.band", MET, f.qname, "tolerance of %s" % stmt_text(s),
                            "the shortcut returns 0 for relative rotation angles up to %.3e rad, inside the property's range [1e-4, pi]" % t_max, line=s.lineno)
    # SHORTCUT.ineq: a zero shortcut may also be spelled as an inequality against a literal tolerance (`1 - |q1.q2| < tol`, possibly inside a helper).  Every
    # such comparison met on the way is evaluated at a pair of unit quaternions 1e-4 rad apart - the lower end of the range over which the property promises the
    # closed form: if the comparison holds there, the shortcut (taken when it holds) answers 0 inside the range.
    ineqs = []

    def oracle2(c, it):
        if c.op in ("<", "<=", ">", ">=") and it.func_stack and it.func_stack[-1].module.rel == MET:
            ineqs.append(c)
        return oracle(c, it)
    try:
        Interp(prog, oracle=oracle2).run(f, [q1.copy(), q2.copy()])
    except Exception:
        ineqs = []
    th = 1e-4
    a1 = np.array([0.5, 0.5, -0.5, 0.5])
    ax = np.array([0.36, 0.48, 0.8])
    dq = np.array([math.cos(th / 2), *(math.sin(th / 2) * ax)])
    a2 = np.array([a1[0]*dq[0] - a1[1:] @ dq[1:], *(a1[0]*dq[1:] + dq[0]*a1[1:] + np.cross(a1[1:], dq[1:]))])
    vals = {}
    for nm, v in zip([str(x) for x in q1], a1):
        vals[nm] = float(v)
    for nm, v in zip([str(x) for x in q2], a2):
        vals[nm] = float(v)

    def val(at):
        return vals[at.name]
    for c in ineqs:
        try:
            l = P.evalf(c.lhs if isinstance(c.lhs, P.Rat) else P._to_rat(c.lhs), val)
            r = P.evalf(c.rhs if isinstance(c.rhs, P.Rat) else P._to_rat(c.rhs), val)
        except Exception:
            continue
        if not (abs(r) < 1e-3 or abs(l) < 1e-3):
            continue            # not a tolerance comparison
        holds = {"<": l < r, "<=": l <= r, ">": l > r, ">=": l >= r}[c.op]
        site = "%s::%s" % (f.ref, str(c.text)[:60])
        n += 1
        if holds and abs(l - r) < 1e-3:
            why = "the comparison `%s` holds for two attitudes 1e-4 rad apart (%.3g %s %.3g): if a zero shortcut hangs on it, the metric is 0 inside the range [1e-4, pi] " \
                  "for which the closed form is promised" % (str(c.text)[:60], l, c.op, r)
            chk.record("SHORTCUT.ineq", site, "tolerance comparison false at 1e-4 rad", verdict="VIOLATION", detail=why)
            chk.finding("SHORTCUT.ineq", MET, f.qname, "tolerance comparison %s" % str(c.text)[:60], why, line=f.node.lineno)
        else:
            chk.record("SHORTCUT.ineq", site, "the tolerance comparison is false for attitudes 1e-4 rad apart")
    if n == 0 and any(isinstance(s, ast.Call) and "allclose" in ast.unparse(s.func) for s in ast.walk(f.node)):
        chk.error("SHORTCUT: allclose present in %s but not reached by the analysis" % f.qname)


def chordal_twin(chk, prog, A=None, B=None, rule="TWIN"):
    """the N-by-3-by-3 arm of chordal equals the 3-by-3 arm row by row for *generic* matrices (an identity that only holds on SO(3) is not one:
    it cancels catastrophically for nearby rotations and differs for inputs that are not exactly orthonormal)"""
    f = prog.func(MET + "::chordal")
    chk.touch(f)
    A = sym_mat("A", 3, 3) if A is None else A
    B = sym_mat("B", 3, 3) if B is None else B

    def twin():
        C, D_ = sym_mat("C", 3, 3), sym_mat("D", 3, 3)
        got = to_obj(Interp(prog, oracle=no_shortcut).run(f, [np.stack([A, C]), np.stack([B, D_])]))
        one = Interp(prog, oracle=no_shortcut).run(f, [A.copy(), B.copy()])
        return all_of(eq(got[0] * got[0], one * one, "batch row 0 (squared)"))
    chk.ob(rule, f.ref, "batch arm row == single arm (generic 3x3 matrices)", twin, module=MET, function="chordal", construct="single vs batch", line=f.node.lineno)


def matrix_metrics(chk, prog):
    r = unit_syms("mr")
    M = E_ref(r)
    A, B = sym_mat("A", 3, 3), sym_mat("B", 3, 3)
    q1, q2 = unit_syms("ma"), unit_syms("mb")
    d = dot(q1, q2)
    R1, R2 = E_ref(q1), E_ref(q2)
    for name in ("chordal", "identity_deviation"):
        f = prog.func(MET + "::" + name)
        chk.touch(f)
        kw = dict(module=MET, function=name, line=f.node.lineno)
        run2 = lambda a, b, f=f: (lambda v: v * v)(Interp(prog, oracle=no_shortcut).run(f, [a.copy(), b.copy()]))
        chk.ob("SYMMETRY", f.ref, "%s(R1,R2) == %s(R2,R1)" % (name, name), lambda run2=run2: eq(run2(B, A), run2(A, B), "swap"), construct="symmetry", **kw)
        if name == "chordal":
            chk.ob("INVARIANCE", f.ref, "chordal(M R1, M R2) == chordal(R1 M, R2 M) == chordal(R1, R2) for M = E(r), generic R1, R2",
                   lambda run2=run2: all_of(eq(run2(M @ A, M @ B), run2(A, B), "left"), eq(run2(A @ M, B @ M), run2(A, B), "right")), construct="bi-invariance", **kw)
        else:
            X = sym_mat("X", 3, 3)
            chk.ob("INVARIANCE", f.ref, "identity_deviation(A, B)^2 == |I - A B^T|_F^2 for generic A, B, and |I - M X M^T|_F == |I - X|_F, M M^T == I for M = E(r)",
                   lambda run2=run2: all_of(eq(run2(A, B), fro2(I(3) - A @ B.T), "depends on A B^T only"), eq(fro2(I(3) - M @ X @ M.T), fro2(I(3) - X), "conjugation"),
                                            eq(M @ M.T, I(3), "M M^T")), construct="bi-invariance", **kw)
        chk.ob("CLOSED", f.ref, "%s(E(q1),E(q2))^2 == 8(1 - (q1.q2)^2)" % name, lambda run2=run2: eq(run2(R1, R2), 8 * (1 - d * d), name + "^2"), construct="closed form", **kw)
    chordal_twin(chk, prog, A, B)
    # angular distance
    f = prog.func(MET + "::angular_distance")
    chk.touch(f)
    kw = dict(module=MET, function="angular_distance", line=f.node.lineno)

    def ad2(a, b):
        v = Interp(prog, oracle=so3_ok).run(f, [a.copy(), b.copy()])
        return v * v
    chk.ob("CLOSED", f.ref, "angular_distance(E(q1),E(q2))^2 == 2 arccos(2 (q1.q2)^2 - 1)^2", lambda: eq(ad2(R1, R2), 2 * P.fn("arccos", 2 * d * d - 1) ** 2, "angular_distance^2"),
           construct="closed form", **kw)
    chk.ob("SYMMETRY", f.ref, "angular_distance(R1,R2) == angular_distance(R2,R1)", lambda: eq(ad2(R2, R1), ad2(R1, R2), "swap"), construct="symmetry", **kw)
    X = sym_mat("X", 3, 3)
    Y = M @ X @ M.T
    chk.ob("INVARIANCE", f.ref, "tr(M X M^T) == tr(X) and |(M X M^T)^T - M X M^T|_F == |X^T - X|_F (the only quantities log(X) uses)",
           lambda: all_of(eq(Y.trace(), X.trace(), "trace"), eq(fro2(Y.T - Y), fro2(X.T - X), "skew part")), construct="conjugation invariance of the logarithm's inputs", **kw)
    flog = prog.cls(DCM + "::DCM").lookup("log")
    from props.c10 import band_rule
    band_rule(chk, flog, "C18", 1e-4, "distances must be exact down to relative angles of 1e-4 rad")
    from props.c10 import log_arms
    from sa.symeval import unit_syms as _us
    from sa.lib import E_ref as _E
    q_ = _us("gq")
    log_arms(chk, prog, flog, q_, _E(q_))
    # angular_distance is the norm of the logarithm of R1 R2^T: the logarithm's closed form on the decision path of sample rotations (rule shared with C10)
    from props.c10 import log_samples, LOG_SAMPLES, _more_log_samples
    log_samples(chk, prog, flog, q_, _E(q_), samples=LOG_SAMPLES if _TIER[0] != "thorough" else LOG_SAMPLES + _more_log_samples())


def coincide_guard(chk, prog):
    """COINCIDE-GUARD (intervals): angular_distance must be exactly 0 for coincident rotations, where the trace of R1 R2^T is 3 up to rounding -- possibly a few
    ulp above it.  Every arccos reached through the DCM method angular_distance uses must have an argument provably <= 1 on the paths that reach it (a
    dominating `trace >= 3` exit, a clip ...); otherwise identical inputs can give NaN instead of 0."""
    from sa.interval import Intervals
    f = prog.func(MET + "::angular_distance")
    chk.touch(f)
    cls = prog.cls(DCM + "::DCM")
    used = sorted({x.attr for x in ast.walk(f.node) if isinstance(x, ast.Attribute) and x.attr in cls.methods})
    n = 0
    for name in used:
        g = cls.methods[name]
        iv = Intervals(g).analyse()
        for st_ in iv.sites:
            if st_["kind"] != "arccos":
                continue
            n += 1
            site = "%s via DCM.%s::arccos(%s)" % (f.ref, name, st_["arg"][:40])
            if st_["interval"][1] <= 1.0:
                chk.record("COINCIDE-GUARD", site, "argument of arccos is provably <= 1 where it is evaluated (upper bound %g)" % st_["interval"][1])
            else:
                why = "angular_distance goes through DCM.%s, whose np.arccos(%s) has no upper bound on its argument: for coincident rotations the trace can round " \
                      "above 3, the argument above 1, and the distance is NaN instead of 0" % (name, st_["arg"][:50])
                chk.record("COINCIDE-GUARD", site, "arccos argument bounded by 1 near coincidence", verdict="VIOLATION", detail=why)
                chk.finding("COINCIDE-GUARD", DCM, "DCM." + name, "arccos(%s) reached from angular_distance" % st_["arg"][:50], why, line=st_["node"].lineno)
    if not used:
        chk.error("COINCIDE-GUARD: angular_distance no longer goes through a DCM method (anchor changed)")
    elif n == 0:
        chk.record("COINCIDE-GUARD", f.ref, "no arccos on the route angular_distance takes (DCM.%s)" % ", DCM.".join(used))


def euclid(chk, prog):
    f = prog.func(MET + "::euclidean")
    chk.touch(f)
    x, y = sym_vec("ex", 3), sym_vec("ey", 3)
    run = lambda a, b: Interp(prog, oracle=no_shortcut).run(f, [a.copy(), b.copy()])
    chk.ob("SYMMETRY", f.ref, "euclidean(x,y) == euclidean(y,x)", lambda: eq(run(y, x), run(x, y), "swap"), module=MET, function="euclidean", construct="symmetry", line=f.node.lineno)

    def closed(first):
        def oracle(c, it_):
            if c.op == "min":
                return 0 if first else 1
            return no_shortcut(c, it_)
        v = Interp(prog, oracle=oracle).run(f, [x.copy(), y.copy()])
        d = [P.absf(a_ - b_) for a_, b_ in zip(x, y)]
        want = sum(((t_ if first else (2 * P.sym("pi") - t_)) ** 2 for t_ in d), P.ZERO)
        return eq(v * v, want, "euclidean^2 [%s arm]" % ("direct" if first else "wrapped"))
    chk.ob("CLOSED", f.ref + "::direct", "euclidean(x,y)^2 == sum |x_i - y_i|^2 where every difference is at most pi", lambda: closed(True),
           module=MET, function="euclidean", construct="closed form (direct differences)", line=f.node.lineno)
    chk.ob("CLOSED", f.ref + "::wrapped", "euclidean(x,y)^2 == sum (2 pi - |x_i - y_i|)^2 where every difference exceeds pi", lambda: closed(False),
           module=MET, function="euclidean", construct="closed form (wrapped differences)", line=f.node.lineno)
    chk.ob("CLOSED", f.ref + "::identity", "euclidean(x, x) == 0", lambda: eq(Interp(prog, oracle=no_shortcut).run(f, [x.copy(), x.copy()]), P.ZERO, "euclidean(x, x)"),
           module=MET, function="euclidean", construct="zero on identical arguments", line=f.node.lineno)

    def twin():
        x2, y2 = sym_vec("fx", 3), sym_vec("fy", 3)
        got = to_obj(Interp(prog, oracle=no_shortcut).run(f, [np.vstack([x, x2]), np.vstack([y, y2])]))
        return eq(got[0], run(x, y), "batch row 0")
    chk.ob("TWIN", f.ref, "batch arm row == single arm", twin, module=MET, function="euclidean", construct="single vs batch", line=f.node.lineno)


def canaries(chk, prog):
    from sa.report import Check

    def wrong_norm(tree):
        for n in ast.walk(tree):
            if isinstance(n, ast.FunctionDef) and n.name == "qad":
                for s in ast.walk(n):
                    if isinstance(s, ast.AugAssign) and ast.unparse(s.target) == "q2" and "axis=1" in ast.unparse(s.value):
                        s.value = ast.parse("np.linalg.norm(q1, axis=1)[:, None]").body[0].value
                        return True
        return False

    def abs_shortcut(tree):
        for n in ast.walk(tree):
            if isinstance(n, ast.FunctionDef) and n.name == "qeip":
                for s in ast.walk(n):
                    if isinstance(s, ast.If) and "allclose" in ast.unparse(s.test):
                        s.test = ast.parse("np.allclose(abs(q1), abs(q2))").body[0].value
                        return True
        return False
    for name, tr in (("normalise q2 by |q1| in the batch arm of qad", wrong_norm), ("compare abs(q1), abs(q2) in the qeip shortcut", abs_shortcut)):
        try:
            p2 = prog.mutated(MET, tr)
            sub = Check("C18", chk.tier, p2, quiet=True)
            quaternion_metrics(sub, p2)
            chk.canary(name, bool(sub.findings), "%d findings (%s)" % (len(sub.findings), ",".join(sorted({f.rule for f in sub.findings}))))
        except Exception as e:
            chk.canary(name, False, "crashed: %s: %s" % (type(e).__name__, e))


_TIER = ["quick"]


def run(chk, prog, tier):
    _TIER[0] = tier
    from sa import lints
    mm = prog.module("ahrs/utils/metrics.py")
    lints.no_sign_zero(chk, prog, list(mm.funcs.values()), "for two quaternions with exactly zero inner product (rotations a half-turn apart) the antipode selection "
                       "by np.sign(<q1,q2>) zeroes one operand; min(|q1-q2|, |q1+q2|) has no such hole")
    quaternion_metrics(chk, prog)
    matrix_metrics(chk, prog)
    euclid(chk, prog)
    coincide_guard(chk, prog)
    chk.require_count("SYMMETRY", 8)
    chk.require_count("INVARIANCE", 7)
    chk.require_count("CLOSED", 7)
    canaries(chk, prog)
    return __doc__
