"""C14 — WMM output equals the spherical-harmonic synthesis of the shipped coefficients.

Equality with an independent evaluator for every input is numerical and is NOT decided.  Decided clauses, each a
necessary condition of the property:
 TABLE        each ``date_dec < T -> file`` arm of reset_date satisfies header_epoch(file) + 5 == T, the fall-through arm
              uses the file with the latest epoch, the lower date bound equals the earliest epoch, all COF files parse,
              reach degree 12 and carry 90 rows; get_properties reads the epoch from the header's first field;
 INDEX        writer / scaler / reader agree on the packed layout: g at c[m, n], h at c[n, m-1] (same for cd), COF
              columns 2..5 map to g, h, g-dot, h-dot, and h is only touched for m > 0;
 BOUNDS       both the scaling and the synthesis loop over n = 1..degree and m = 0..n;
 DT           the secular-variation time is (date rounded to the model grid) - epoch, without truncation;
 SYNTHESIS    (AVN, exact) running the extracted denormalize_coefficients + magnetic_field with degree 3 and symbolic
              Gauss coefficients, radius, latitude, longitude reproduces the textbook Schmidt semi-normalised
              synthesis X', Y', Z' (closed-form P(n,m) up to n = 3) and the geocentric->geodetic rotation;
              the recursion constant k[m, n] is the report's ((n-1)^2 - m^2)/((2n-1)(2n-3)) symbolically in n, m.
Not decided: degrees 4..12 beyond what loop uniformity implies, floating-point accuracy, the polar special case.
Added after the seeding rounds (DESIGN.md 6.6-6.8):
 RELOAD / TABLE.select / TABLE.date / SYNTHESIS.enu / CTOR-ROUTE / ELEMENTS  the model file is selected on the unrounded decimal year, which is float(date) or
            year + yday/365; the ENU components are (Y, X, -Z) of the NED synthesis; constructor and method agree.
Added after seeding rounds 5 and 6 and refactoring round 4 (DESIGN.md 6.10-6.12):
 TABLE.header on a synthetic coefficient file; SYNTHESIS.k table fallback.
"""
import ast
import os
import re
from fractions import Fraction
import numpy as np
from sa import poly as P
from sa.model import stmt_text
from sa.symeval import Interp, to_obj, Obj, Unsupported
from sa.lib import eq, all_of

WMM = "ahrs/utils/wmm.py"


def cof_header(prog, rel):
    path = os.path.join(prog.root, "ahrs/utils", rel)
    if not os.path.exists(path):
        return None
    lines = open(path).read().splitlines()
    head = lines[0].split()
    rows = [l.split() for l in lines[1:] if l.strip() and not l.strip().startswith("9999")]
    return {"epoch": float(head[0]), "model": head[1], "rows": rows}


def table_rule(chk, prog):
    f = prog.func(WMM + "::WMM.reset_date")
    chk.touch(f)
    arms = []     # (threshold or None, filename)

    def collect(stmts, thr):
        """assignments of the file name with the date threshold that guards them (None = every earlier test failed)"""
        for s_ in stmts:
            if isinstance(s_, ast.If) and isinstance(s_.test, ast.Compare) and "date_dec" in ast.unparse(s_.test.left) and isinstance(s_.test.ops[0], ast.Lt) \
                    and isinstance(s_.test.comparators[0], ast.Constant):
                collect(s_.body, float(s_.test.comparators[0].value))
                collect(s_.orelse, None)
            elif isinstance(s_, ast.If):
                collect(s_.body, thr)
                collect(s_.orelse, thr)
            elif isinstance(s_, ast.Assign) and "wmm_filename" in ast.unparse(s_.targets[0]) and isinstance(s_.value, ast.Constant):
                arms.append((thr, s_.value.value))
    collect(f.body(), None)
    # the quantity compared with the epoch boundaries is the caller's decimal year itself: rounding it first moves every boundary by half a grid step
    from sa.facts import Facts as _Facts, PHI as _PHI
    tests = []

    class _T(_Facts):
        def split(self2, test, st):
            if isinstance(test, ast.Compare) and "date_dec" in ast.unparse(test.left) and isinstance(test.comparators[0], ast.Constant):
                tests.append((test, self2.vn(test.left, st)))
            return super().split(test, st)
    _T(f, prog, inline_private=True).analyse()

    def members(vn, depth=0):
        if vn in _PHI and depth < 4:
            out = set()
            for m_ in _PHI[vn]:
                out |= members(m_, depth + 1)
            return out
        return {vn}
    for test, vn in tests:
        site = WMM + "::WMM.reset_date::" + ast.unparse(test)
        rounded = sorted(m_ for m_ in members(vn) if "round(" in m_ or "np.round" in m_ or "np.floor" in m_ or "int(" in m_)
        if rounded:
            why = "the model file is selected by comparing a *rounded* decimal year (%s) with the epoch boundary: dates within half a rounding step before the boundary get the next model " \
                  "(at dt = 0) instead of their own (at dt = 5)" % rounded[0][:60]
            chk.record("TABLE.select", site, "model selection compares the unrounded decimal year", verdict="VIOLATION", detail=why)
            chk.finding("TABLE.select", WMM, "WMM.reset_date", "selection on a rounded date: %s" % ast.unparse(test), why, line=test.lineno)
        else:
            chk.record("TABLE.select", site, "the decimal year compared with the epoch boundary is not rounded or truncated first")
    # DATE-FORM: the decimal year the thresholds are compared with is, on every path, the caller's number itself or year + day-of-year/365 of the date object
    import re as _re
    exits = [st_ for _, st_ in _T(f, prog, inline_private=True).analyse().returns if st_ is not None]
    forms = set()
    for st_ in exits:
        forms |= members(st_.get("s:date_dec") or "?")
    ok_forms, bad_forms = [], []
    for m_ in sorted(forms):
        if m_ == "P:date" or m_ == "float(P:date)":
            ok_forms.append(m_)
        elif _re.fullmatch(r"Add\(Div\((.+)\.timetuple\(\)\.tm_yday,c:365(?:\.0)?\),(.+)\.year\)", m_) and \
                _re.fullmatch(r"Add\(Div\((.+)\.timetuple\(\)\.tm_yday,c:365(?:\.0)?\),(.+)\.year\)", m_).group(1) == _re.fullmatch(r"Add\(Div\((.+)\.timetuple\(\)\.tm_yday,c:365(?:\.0)?\),(.+)\.year\)", m_).group(2):
            ok_forms.append(m_)
        else:
            bad_forms.append(m_)
    site = WMM + "::WMM.reset_date::self.date_dec"
    if bad_forms or len(ok_forms) < 2:
        why = "on some path the decimal year is %s: neither the caller's decimal year nor year + day-of-year/365 of the given date" % (bad_forms[0][:90] if bad_forms else "not assigned from the argument")
        chk.record("TABLE.date", site, "decimal year is the argument itself or year + yday/365", verdict="VIOLATION", detail=why)
        chk.finding("TABLE.date", WMM, "WMM.reset_date", "decimal year formula", why, line=f.node.lineno)
    else:
        chk.record("TABLE.date", site, "on every path the decimal year is float(date) or year + day-of-year/365 of the date object (%d forms)" % len(ok_forms))
    if len(arms) < 3:
        chk.error("TABLE: found %d model-selection arms in reset_date, 3 confirmed by hand" % len(arms))
        return
    heads = {}
    for thr, fn in arms:
        h = cof_header(prog, fn)
        site = WMM + "::WMM.reset_date::" + fn
        if h is None:
            chk.record("TABLE.file", site, "coefficient file exists", verdict="VIOLATION")
            chk.finding("TABLE.file", WMM, "WMM.reset_date", "missing file " + fn, "model-selection arm names a coefficient file that is not shipped", line=f.node.lineno)
            continue
        heads[fn] = h
        deg = max(int(r[0]) for r in h["rows"])
        ok_rows = len(h["rows"]) == deg * (deg + 3) // 2 and all(len(r) == 6 for r in h["rows"]) and deg == 12
        if ok_rows:
            chk.record("TABLE.file", site, "file parses: degree %d, %d rows, epoch %s" % (deg, len(h["rows"]), h["epoch"]))
        else:
            chk.record("TABLE.file", site, "file parses with degree 12 and 90 rows", verdict="VIOLATION")
            chk.finding("TABLE.file", "ahrs/utils/" + fn, "<data>", "degree %d, %d rows" % (deg, len(h["rows"])), "coefficient file is not a complete degree-12 model", line=1)
        if thr is not None:
            if h["epoch"] + 5.0 == thr:
                chk.record("TABLE.epoch", site, "date_dec < %s selects the model of epoch %s" % (thr, h["epoch"]))
            else:
                chk.record("TABLE.epoch", site, "threshold == epoch + 5", verdict="VIOLATION")
                chk.finding("TABLE.epoch", WMM, "WMM.reset_date", "date_dec < %s -> %s (epoch %s)" % (thr, fn, h["epoch"]),
                            "dates in [%s, %s) are evaluated with the model of epoch %s instead of the one whose five-year span contains them" % (min(thr, h["epoch"] + 5), max(thr, h["epoch"] + 5), h["epoch"]),
                            line=f.node.lineno)
    last = [fn for thr, fn in arms if thr is None]
    if last and last[-1] in heads and heads:
        latest = max(heads.values(), key=lambda h: h["epoch"])
        if heads[last[-1]]["epoch"] == latest["epoch"] and heads[last[-1]]["epoch"] == max(t for t, _ in arms if t is not None):
            chk.record("TABLE.epoch", WMM + "::WMM.reset_date::fallthrough", "later dates use the newest model, whose epoch is the last threshold")
        else:
            chk.record("TABLE.epoch", WMM + "::WMM.reset_date::fallthrough", "later dates use the newest model", verdict="VIOLATION")
            chk.finding("TABLE.epoch", WMM, "WMM.reset_date", "fall-through arm -> %s" % last[-1], "dates after the last threshold do not use the model whose epoch equals that threshold", line=f.node.lineno)
    # thresholds strictly increasing; lower bound == earliest epoch
    thrs = [t for t, _ in arms if t is not None]
    if thrs != sorted(thrs):
        chk.finding("TABLE.epoch", WMM, "WMM.reset_date", "thresholds out of order", "model-selection thresholds are not increasing, so an earlier arm shadows a later one", line=f.node.lineno)
    for s in ast.walk(f.node):
        if isinstance(s, ast.If) and isinstance(s.test, ast.Compare) and "year" in ast.unparse(s.test.left) and any(isinstance(b, ast.Raise) for b in s.body):
            low = s.test.comparators[0]
            if heads and isinstance(low, ast.Constant):
                if float(low.value) == min(h["epoch"] for h in heads.values()):
                    chk.record("TABLE.epoch", WMM + "::WMM.reset_date::lower-bound", "dates before the earliest epoch are rejected")
                else:
                    chk.finding("TABLE.epoch", WMM, "WMM.reset_date", stmt_text(s), "lower date bound differs from the earliest shipped epoch", line=s.lineno)
    # get_properties: epoch from header field 0
    g = prog.func(WMM + "::WMM.get_properties")
    chk.touch(g)
    # interpreted on a synthetic coefficient file (the package-data reader is replaced by one that returns it): whatever string idiom is used, the epoch must be
    # the first field of the FIRST line and the model name / date the two fields after it
    def header():
        text = "    2031.5            WMM-TEST        01/02/2031\n  1  0  -29404.5       0.0        6.7        0.0\n  1  1   -1450.7    4652.9        7.7      -25.1\n9999.0 TAIL 9/9/9999\n"
        it = Interp(prog, intercepts={"pkgutil.get_data": lambda it_, a, k: text.encode()})
        obj = it.make_obj(WMM + "::WMM")
        out = it.run(g, ["WMMTEST/WMM.COF"], self_obj=obj)
        if not isinstance(out, dict):
            return (None, "get_properties did not return a dictionary")
        want = {"epoch": 2031.5, "model": "WMM-TEST", "modeldate": "01/02/2031"}
        got = {k_: (float(v_.const()) if isinstance(v_, P.Rat) and v_.const() is not None else v_) for k_, v_ in out.items()}
        bad = {k_: (got.get(k_), w_) for k_, w_ in want.items() if got.get(k_) != w_}
        if bad:
            k_ = sorted(bad)[0]
            return (False, "for a file whose first line is `2031.5 WMM-TEST 01/02/2031` get_properties returns %s=%r (expected %r)" % (k_, bad[k_][0], bad[k_][1]), None)
        return True
    chk.ob("TABLE.header", g.ref, "epoch, model and model date are the three fields of the first line of the given file", header, module=WMM, function="WMM.get_properties",
           construct="header fields", line=g.node.lineno)


def _loop_names(f):
    """(degree var, order var) as named in f: the n/m harmonic loop variables, or the names unpacked from row[:2] in the loader"""
    for n in ast.walk(f.node):
        if isinstance(n, ast.Assign) and isinstance(n.targets[0], ast.Tuple) and len(n.targets[0].elts) == 2 and isinstance(n.value, (ast.Call, ast.Subscript)) \
                and re.search(r"\w+\[:2\]", ast.unparse(n.value)):
            return n.targets[0].elts[0].id, n.targets[0].elts[1].id
    for n in ast.walk(f.node):
        if isinstance(n, ast.For) and isinstance(n.target, ast.Name):
            for m in ast.walk(n):
                if m is not n and isinstance(m, ast.For) and isinstance(m.target, ast.Name) and n.target.id in ast.unparse(m.iter):
                    return n.target.id, m.target.id
    return "n", "m"


class _Ren(ast.NodeTransformer):
    def __init__(self, mp):
        self.mp = mp

    def visit_Name(self, node):
        return ast.copy_location(ast.Name(id=self.mp.get(node.id, node.id), ctx=node.ctx), node)


def _canon(f):
    """function AST with the harmonic degree/order variables renamed to n / m"""
    import copy
    dn, dm = _loop_names(f)
    tree = copy.deepcopy(f.node)
    if (dn, dm) != ("n", "m"):
        tree = _Ren({dn: "n", dm: "m"}).visit(tree)

    class _F:
        pass
    g = _F()
    g.node, g.ref, g.qname, g.module = tree, f.ref, f.qname, f.module
    body = tree.body
    if body and isinstance(body[0], ast.Expr) and isinstance(getattr(body[0], "value", None), ast.Constant) and isinstance(body[0].value.value, str):
        body = body[1:]
    g.body = lambda: body
    return g


def _subs(f, names=("self.c", "self.cd")):
    """[(array, index text, is_store, enclosing-if tests, node)] for every subscript of the coefficient tables"""
    out = []

    def walk(stmts, conds):
        conds = list(conds)
        for s in stmts:
            if isinstance(s, ast.If):
                walk(s.body, conds + [ast.unparse(s.test)])
                walk(s.orelse, conds + ["not(" + ast.unparse(s.test) + ")"])
                if not s.orelse and s.body and isinstance(s.body[-1], (ast.Continue, ast.Return, ast.Raise, ast.Break)):
                    conds = conds + ["not(" + ast.unparse(s.test) + ")"]      # guard by early exit: the rest of the block runs only if the test failed
                continue
            if isinstance(s, (ast.For, ast.While)):
                walk(s.body, conds)
                continue
            for n in ast.walk(s):
                if isinstance(n, ast.Subscript) and ast.unparse(n.value) in names:
                    store = isinstance(n.ctx, ast.Store)
                    out.append((ast.unparse(n.value), _idx(n.slice), store, list(conds), s))
    walk(f.body(), [])
    return out


def _idx(sl):
    t = ast.unparse(sl).replace(" ", "")
    return t[1:-1] if t.startswith("(") and t.endswith(")") else t


class _FakeStream:
    """stands for the text stream handed to the table reader (which is replaced as well): it can be closed, used as a context manager, nothing else"""
    _avn_native = True

    def close(self):
        return None

    def __enter__(self):
        return self

    def __exit__(self, *a):
        return False


def index_rule(chk, prog):
    load = prog.func(WMM + "::WMM.load_coefficients")
    den = prog.func(WMM + "::WMM.denormalize_coefficients")
    mf = prog.func(WMM + "::WMM.magnetic_field")
    for f in (load, den, mf):
        chk.touch(f)
    load, den, mf = _canon(load), _canon(den), _canon(mf)       # loop-variable names are irrelevant
    G, H = "m,n", "n,m-1"
    # loader: n, m = row[:2]; columns
    lt = ast.unparse(load.node)
    colmap = {}
    rowvar = None
    for n_ in ast.walk(load.node):
        if isinstance(n_, ast.Assign) and isinstance(n_.targets[0], ast.Tuple) and isinstance(n_.value, (ast.Call, ast.Subscript)):
            m_ = re.match(r"(\w+)\[:2\]", ast.unparse(n_.value))
            if m_:
                rowvar = m_.group(1)
    for arr, idx, store, conds, s in _subs(load):
        if store and isinstance(s, ast.Assign) and isinstance(s.value, ast.Subscript) and ast.unparse(s.value.value) == rowvar:
            colmap[(arr, idx)] = (_idx(s.value.slice), conds)
    # decided by interpretation on a synthetic coefficient table (degree 2, every entry a distinct number): whatever the loader looks like, g / h / g-dot /
    # h-dot of (n, m) must land at c[m, n] / c[n, m-1] / cd[m, n] / cd[n, m-1], nothing else is written, and h of m == 0 is not stored
    def loader_cells():
        rows = []
        for n_ in (1, 2):
            for m_ in range(n_ + 1):
                rows.append([n_, m_, 1000 + 10 * n_ + m_, (2000 + 10 * n_ + m_) if m_ else 0.0, 3000 + 10 * n_ + m_, (4000 + 10 * n_ + m_) if m_ else 0.0])
        table = np.array([[P.const(P.Fraction(int(v_))) for v_ in r_] for r_ in rows], dtype=object)
        it = Interp(prog, intercepts={"pkgutil.get_data": lambda it_, a, k: b"2031.5 WMM-TEST 01/02/2031\n", "np.genfromtxt": lambda it_, a, k: table.copy(),
                                      "numpy.genfromtxt": lambda it_, a, k: table.copy(), "StringIO": lambda it_, a, k: _FakeStream(), "io.StringIO": lambda it_, a, k: _FakeStream()})
        obj = it.make_obj(WMM + "::WMM")
        it.run(prog.func(WMM + "::WMM.load_coefficients"), ["WMMTEST/WMM.COF"], self_obj=obj)
        cc, cd_ = to_obj(obj.attrs["c"]), to_obj(obj.attrs["cd"])
        want_c, want_cd = np.zeros((3, 3)), np.zeros((3, 3))
        for n_, m_, g_, h_, gd_, hd_ in rows:
            want_c[m_, n_], want_cd[m_, n_] = g_, gd_
            if m_:
                want_c[n_, m_ - 1], want_cd[n_, m_ - 1] = h_, hd_
        num = lambda x: float(x.const()) if isinstance(x, P.Rat) else float(x)
        for nm, got, wnt in (("c", cc, want_c), ("cd", cd_, want_cd)):
            if got.shape != wnt.shape:
                return (False, "self.%s has shape %s for a degree-2 table, expected (3, 3)" % (nm, got.shape), None)
            for i in range(3):
                for j in range(3):
                    if abs(num(got[i, j]) - wnt[i, j]) > 1e-9:
                        return (False, "self.%s[%d, %d] is %g after loading, expected %g (g/g-dot of (n, m) at [m, n], h/h-dot at [n, m-1])" % (nm, i, j, num(got[i, j]), wnt[i, j]), None)
        return True
    try:
        verdict = loader_cells()
    except Exception as e_:
        verdict = (None, "%s: %s" % (type(e_).__name__, e_))
    if verdict is True:
        for key in (("self.c", G), ("self.c", H), ("self.cd", G), ("self.cd", H)):
            chk.record("INDEX.loader", "%s::%s[%s]" % (load.ref, key[0], key[1]), "the COF columns land in their cells (interpreted on a synthetic degree-2 table)")
        colmap = {}
        want = {}
    elif isinstance(verdict, tuple) and verdict[0] is False:
        chk.record("INDEX.loader", load.ref + "::cells", "the COF columns land in their cells", verdict="VIOLATION", detail=verdict[1])
        chk.finding("INDEX.loader", WMM, "WMM.load_coefficients", "coefficient cells after loading a synthetic table", verdict[1], line=load.node.lineno)
        colmap = {}
        want = {}
    else:
        want = {("self.c", G): "2", ("self.c", H): "3", ("self.cd", G): "4", ("self.cd", H): "5"}       # interpretation not possible: the syntactic rule decides
    lt = "n, m = row[:2]" if verdict is True else lt
    for key, col in want.items():
        site = "%s::%s[%s]" % (load.ref, key[0], key[1])
        got = colmap.get(key)
        if got and got[0] == col:
            chk.record("INDEX.loader", site, "COF column %s stored at %s[%s]" % (col, key[0], key[1]))
        elif not got:
            chk.error("INDEX.loader: neither the interpretation on a synthetic table (%s) nor the syntactic rule could follow how %s[%s] is filled (cannot decide)"
                      % ((verdict[1] if isinstance(verdict, tuple) else verdict), key[0], key[1]))
        else:
            chk.record("INDEX.loader", site, "COF column %s stored at %s[%s]" % (col, key[0], key[1]), verdict="VIOLATION")
            chk.finding("INDEX.loader", WMM, "WMM.load_coefficients", "%s[%s] <- row[%s]" % (key[0], key[1], got[0] if got else None),
                        "the loader does not put COF column %s (%s) at %s[%s]" % (col, {"2": "g", "3": "h", "4": "g-dot", "5": "h-dot"}[col], key[0], key[1]), line=load.node.lineno)
    if not re.search(r"n, m = \w+\[:2\]", lt):     # after canonical renaming: degree first, order second
        chk.finding("INDEX.loader", WMM, "WMM.load_coefficients", "degree/order unpacking", "the loader no longer reads (n, m) from the first two columns in that order", line=load.node.lineno)
    for key, (col, conds) in colmap.items():
        if key[1] == H and not any(c.replace(" ", "") in ("m!=0", "m>0", "not(m==0)", "not(m<=0)") or "m!=0" in c.replace(" ", "") or "m>0" in c.replace(" ", "") for c in conds):
            chk.finding("INDEX.loader", WMM, "WMM.load_coefficients", "h stored for m == 0", "h_n^0 would be written at column -1 (wraps around to another coefficient)", line=load.node.lineno)
    # scaler and reader use exactly the two cells, h only under m > 0
    for f, rule in ((den, "INDEX.scaler"), (mf, "INDEX.reader")):
        used = _subs(f)
        cells = {(a, i) for a, i, st, c, s in used}
        site = f.ref
        expect = {("self.c", G), ("self.c", H), ("self.cd", G), ("self.cd", H)}
        if cells == expect:
            chk.record(rule, site, "touches exactly c/cd[m, n] and c/cd[n, m-1]")
        else:
            chk.record(rule, site, "touches exactly c/cd[m, n] and c/cd[n, m-1]", verdict="VIOLATION")
            chk.finding(rule, WMM, f.qname, "cells used: %s" % sorted(cells ^ expect),
                        "%s does not address the packed g/h layout the loader writes (g at [m, n], h at [n, m-1])" % f.qname, line=f.node.lineno)
        for a, i, st, conds, s in used:
            if i == H and not any(c.replace(" ", "") in ("m>0", "m!=0", "not(m==0)", "not(m<=0)") for c in conds):
                chk.finding(rule, WMM, f.qname, "h cell used without m > 0: %s" % stmt_text(s), "h_n^0 does not exist: index m-1 wraps around", line=s.lineno)
    # scaler multiplies both cells by S[m, n]
    for a, i, st, conds, s in _subs(den):
        if isinstance(s, ast.AugAssign) and isinstance(s.op, ast.Mult):
            import re as _re
            if not _re.fullmatch(r"[A-Za-z_]\w*\[\(?m,n\)?\]", ast.unparse(s.value).replace(" ", "")):
                chk.finding("INDEX.scaler", WMM, "WMM.denormalize_coefficients", stmt_text(s), "coefficient scaled by %s instead of the Schmidt factor S[m, n]" % ast.unparse(s.value), line=s.lineno)
            chk.count("INDEX.scaler.mult")


def bounds_rule(chk, prog):
    from sa.facts import Facts
    for ref in (WMM + "::WMM.denormalize_coefficients", WMM + "::WMM.magnetic_field"):
        f = prog.func(ref)
        loops = []

        def on_for(fa, node, st):
            if isinstance(node.iter, ast.Call) and isinstance(node.iter.func, ast.Name) and node.iter.func.id == "range" and isinstance(node.target, ast.Name):
                loops.append((node, [fa.vn(a_, st) for a_ in node.iter.args], dict(st)))
        fa = Facts(f, prog, callbacks={"for": on_for}).analyse()
        found = False
        for node, args, st in loops:
            inner = [(n2, a2) for n2, a2, _ in loops if n2 is not node and any(n2 is x for x in ast.walk(node))]
            if not inner:
                continue
            # outer: range(1, degree + 1) ; inner: range(outer_var + 1)
            deg1 = {"Add(S:degree,c:1)", "Add(c:1,S:degree)"}
            ok_outer = len(args) == 2 and args[0] == "c:1" and args[1] in deg1
            n2, a2 = inner[0]
            st_in = [s3 for n3, _, s3 in loops if n3 is n2][0]
            ov = st_in.get("v:" + node.target.id)
            ok_inner = len(a2) == 1 and ov is not None and a2[0] in ("Add(%s,c:1)" % ov, "Add(c:1,%s)" % ov)
            found = True
            site = "%s::for %s in %s / for %s in %s" % (ref, node.target.id, ast.unparse(node.iter), n2.target.id, ast.unparse(n2.iter))
            if ok_outer and ok_inner:
                chk.record("BOUNDS", site, "n = 1..degree, m = 0..n")
            else:
                chk.record("BOUNDS", site, "n = 1..degree, m = 0..n", verdict="VIOLATION", detail="outer %s inner %s" % (args, a2))
                chk.finding("BOUNDS", WMM, f.qname, "for %s in %s / for %s in %s" % (node.target.id, ast.unparse(node.iter), n2.target.id, ast.unparse(n2.iter)),
                            "harmonic loops do not cover n = 1..degree, m = 0..n (bounds value-number to %s / %s): terms are dropped or out of range" % (args, a2), line=node.lineno)
            break
        if not found:
            chk.error("BOUNDS: nested degree/order loops not found in %s" % ref)


def dt_rule(chk, prog):
    f = prog.func(WMM + "::WMM.magnetic_field")
    for s in f.body():
        if isinstance(s, ast.Assign) and isinstance(s.targets[0], ast.Name) and s.targets[0].id == "dt":
            t = ast.unparse(s.value)
            site = f.ref + "::" + stmt_text(s)
            trunc = any(k in t for k in ("floor", "trunc", "int(", "//", "ceil"))
            uses = "date_dec" in t and "epoch" in t and isinstance(s.value, ast.BinOp) and isinstance(s.value.op, ast.Sub)
            if trunc or not uses:
                chk.record("DT", site, "dt = date(on the model grid) - epoch", verdict="VIOLATION")
                chk.finding("DT", WMM, "WMM.magnetic_field", stmt_text(s),
                            "the time since the epoch is %s: grid dates whose binary value lies just below the grid point lose 0.1 year of secular variation" % ("truncated" if trunc else "not date - epoch"), line=s.lineno)
            else:
                chk.record("DT", site, "dt = date(on the model grid) - epoch, no truncation")
            # dt multiplies cd in both gh assignments
            n_ok = sum(1 for x in ast.walk(f.node) if isinstance(x, ast.BinOp) and isinstance(x.op, ast.Mult) and ast.unparse(x.left) == "dt" and ast.unparse(x.right).startswith("self.cd["))
            if n_ok < 2:
                chk.finding("DT", WMM, "WMM.magnetic_field", "dt * self.cd[...] terms: %d" % n_ok, "secular variation is not applied to both g and h", line=s.lineno)
            return
    chk.error("DT: assignment of dt not found in magnetic_field")


# ------------------------------------------------------------------------------------------ SYNTHESIS (AVN)

def synthesis(chk, prog, degree=3):
    f = prog.func(WMM + "::WMM.magnetic_field")
    latd, lond, h = P.sym("lat_deg"), P.sym("lon_deg"), P.sym("height")
    latp, r = P.sym("latp"), P.sym("r")
    epoch, date = P.sym("epoch"), P.sym("date")
    N = degree
    c = np.empty((N + 1, N + 1), dtype=object)
    cd = np.empty((N + 1, N + 1), dtype=object)
    c.fill(P.ZERO)
    cd.fill(P.ZERO)
    g, hh, gd, hd = {}, {}, {}, {}
    for n in range(1, N + 1):
        for m in range(n + 1):
            g[n, m], gd[n, m] = P.sym("g%d%d" % (n, m)), P.sym("gd%d%d" % (n, m))
            c[m, n], cd[m, n] = g[n, m], gd[n, m]
            if m > 0:
                hh[n, m], hd[n, m] = P.sym("h%d%d" % (n, m)), P.sym("hd%d%d" % (n, m))
                c[n, m - 1], cd[n, m - 1] = hh[n, m], hd[n, m]
            else:
                hh[n, m], hd[n, m] = P.ZERO, P.ZERO

    def run(frame="NED"):
        it = Interp(prog, oracle=lambda cnd, i: False if cnd.op in (">", "<", "==", "isclose") else None,
                    intercepts={WMM + "::WMM.reset_coefficients": lambda i, a, k: None,
                                WMM + "::geodetic2spherical": lambda i, a, k: (latp, a[1], r),
                                "round": lambda i, a, k: a[0]})
        obj = it.make_obj(WMM + "::WMM", degree=N, c=c.copy(), cd=cd.copy(), epoch=epoch, date_dec=date, date=date, frame=frame)
        it.run(f, [latd, lond, h], {"date": None}, self_obj=obj)
        return obj, it
    holder = {}

    def get():
        if "o" not in holder:
            holder["o"], holder["it"] = run()
        return holder["o"]
    # reference synthesis
    it0 = Interp(prog)
    from sa.symeval import Env
    mod = prog.module(WMM)
    DEG2RAD = it0.module_global(mod, "DEG2RAD")
    a_km = it0.module_global(mod, "EARTH_MEAN_RADIUS") / 1000
    lam = lond * DEG2RAD
    lat = latd * DEG2RAD
    s, cc = P.sin(latp), P.cos(latp)
    s1, c1 = P.sin(lam), P.cos(lam)
    sm, cm = {0: P.ZERO, 1: s1}, {0: P.ONE, 1: c1}
    for m in range(2, N + 1):
        sm[m] = s1 * cm[m - 1] + c1 * sm[m - 1]
        cm[m] = c1 * cm[m - 1] - s1 * sm[m - 1]
    r3, r6, r15, r10 = P.sqrt(P.const(3)), P.sqrt(P.const(6)), P.sqrt(P.const(15)), P.sqrt(P.const(10))
    Pn = {(1, 0): s, (1, 1): cc, (2, 0): (3 * s * s - 1) / 2, (2, 1): r3 * s * cc, (2, 2): r3 / 2 * cc * cc,
          (3, 0): (5 * s * s * s - 3 * s) / 2, (3, 1): r6 / 4 * cc * (5 * s * s - 1), (3, 2): r15 / 2 * s * cc * cc, (3, 3): r10 / 4 * cc * cc * cc}
    dPn = {(1, 0): cc, (1, 1): -s, (2, 0): 3 * s * cc, (2, 1): r3 * (cc * cc - s * s), (2, 2): -r3 * s * cc,
           (3, 0): (15 * s * s * cc - 3 * cc) / 2, (3, 1): r6 / 4 * (-s * (5 * s * s - 1) + 10 * s * cc * cc),
           (3, 2): r15 / 2 * (cc * cc * cc - 2 * s * s * cc), (3, 3): -(3 * r10 / 4) * cc * cc * s}
    if N >= 4:
        # degree 4 (thorough tier): Schmidt semi-normalised closed forms and their latitude derivatives
        r5, r35, r70 = P.sqrt(P.const(5)), P.sqrt(P.const(35)), P.sqrt(P.const(70))
        s2, c2 = s * s, cc * cc
        Pn.update({(4, 0): (35 * s2 * s2 - 30 * s2 + 3) / 8, (4, 1): r10 / 4 * cc * (7 * s2 * s - 3 * s), (4, 2): r5 / 4 * c2 * (7 * s2 - 1),
                   (4, 3): r70 / 4 * c2 * cc * s, (4, 4): r35 / 8 * c2 * c2})
        dPn.update({(4, 0): (35 * s2 * s - 15 * s) * cc / 2, (4, 1): r10 / 4 * (-7 * s2 * s2 + 3 * s2 + (21 * s2 - 3) * c2),
                    (4, 2): r5 / 4 * (-2 * cc * s * (7 * s2 - 1) + 14 * s * c2 * cc), (4, 3): r70 / 4 * (-3 * c2 * s2 + c2 * c2), (4, 4): -(r35 / 2) * c2 * cc * s})
    if N > 4:
        raise ValueError("reference synthesis is tabulated up to degree 4")
    dt = date - epoch
    ar = a_km / r
    Xp = Yp = Zp = P.ZERO
    for n in range(1, N + 1):
        arn2 = ar ** (n + 2)
        for m in range(n + 1):
            gt, ht = g[n, m] + dt * gd[n, m], hh[n, m] + dt * hd[n, m]
            Xp = Xp - arn2 * (gt * cm[m] + ht * sm[m]) * dPn[n, m]
            Yp = Yp + arn2 * m * (gt * sm[m] - ht * cm[m]) * Pn[n, m] / cc
            Zp = Zp - (n + 1) * arn2 * (gt * cm[m] + ht * sm[m]) * Pn[n, m]
    ca, sa = P.cos(latp - lat), P.sin(latp - lat)
    Xr = Xp * ca - Zp * sa
    Zr = Xp * sa + Zp * ca
    kw = dict(module=WMM, function="WMM.magnetic_field", line=f.node.lineno)
    for nm, ref in (("X", Xr), ("Y", Yp), ("Z", Zr)):
        chk.ob("SYNTHESIS", "%s::WMM.magnetic_field::%s(degree %d)" % (WMM, nm, N), "%s == Schmidt semi-normalised synthesis of symbolic coefficients (degree %d)" % (nm, N),
               lambda nm=nm, ref=ref: eq(get().attrs[nm], ref, nm), construct="%s == reference synthesis" % nm, **kw)
    # the ENU frame is the same vector with north/east swapped and the vertical negated

    def enu():
        o_enu, _ = run("ENU")
        o_ned = get()
        return all_of(eq(o_enu.attrs["X"], o_ned.attrs["Y"], "X_enu == Y_ned (east)"), eq(o_enu.attrs["Y"], o_ned.attrs["X"], "Y_enu == X_ned (north)"),
                      eq(o_enu.attrs["Z"], -o_ned.attrs["Z"], "Z_enu == -Z_ned (up)"))
    chk.ob("SYNTHESIS.enu", WMM + "::WMM.magnetic_field::ENU", "with frame='ENU' the components are (east, north, up) = (Y, X, -Z) of the NED synthesis", enu,
           construct="ENU components", **kw)
    # k[m, n] symbolically
    den = prog.func(WMM + "::WMM.denormalize_coefficients")

    def k_formula():
        for s_ in ast.walk(den.node):
            if isinstance(s_, ast.Assign) and re.sub(r"[()\s]", "", ast.unparse(s_.targets[0])).startswith("self.k["):
                it = Interp(prog)
                env = Env(mod, den)
                n_, m_ = P.sym("n"), P.sym("m")
                dn, dm = _loop_names(den)
                env.vars.update({dn: n_, dm: m_})
                val = s_.value
                for _ in range(3):          # a hoisted local: resolve through its (single) assignment
                    if isinstance(val, ast.Name):
                        defs = [x.value for x in ast.walk(den.node) if isinstance(x, ast.Assign) and isinstance(x.targets[0], ast.Name) and x.targets[0].id == val.id]
                        if len(defs) == 1:
                            val = defs[0]
                            continue
                    break
                want = ((n_ - 1) ** 2 - m_ ** 2) / ((2 * n_ - 1) * (2 * n_ - 3))
                try:
                    got = it.eval(val, env)
                except Unsupported:
                    break           # the right-hand side is not a closed expression of (n, m) (a table built elsewhere): compare the table that was computed
                return eq(got, want, "k[m,n]")
        k_tab = get().attrs.get("k")
        if k_tab is None:
            return (None, "assignment of self.k[m, n] not found and no attribute k after the run")
        res = []
        for n_i in range(1, N + 1):
            for m_i in range(n_i + 1):
                want = P.const(P.Fraction((n_i - 1) ** 2 - m_i ** 2, (2 * n_i - 1) * (2 * n_i - 3)))
                res.append(eq(to_obj(k_tab)[m_i, n_i], want, "k[%d,%d]" % (m_i, n_i)))
        return all_of(*res)
    chk.ob("SYNTHESIS.k", den.ref, "k[m,n] == ((n-1)^2 - m^2)/((2n-1)(2n-3))", k_formula, module=WMM, function="WMM.denormalize_coefficients", construct="k[m,n] formula")


def canaries(chk, prog):
    from sa.report import Check

    def swap_index(tree):
        for n in ast.walk(tree):
            if isinstance(n, ast.FunctionDef) and n.name == "magnetic_field":
                for s in ast.walk(n):
                    if isinstance(s, ast.Subscript) and ast.unparse(s.value) == "self.c" and _idx(s.slice) == "n,m-1":
                        s.slice = ast.parse("x[m - 1, n]").body[0].value.slice
                        return True
        return False

    def epoch_lit(tree):
        for n in ast.walk(tree):
            if isinstance(n, ast.FunctionDef) and n.name == "reset_date":
                for s in ast.walk(n):
                    if isinstance(s, ast.Constant) and s.value == 2025.0:
                        s.value = 2024.0
                        return True
        return False

    def dP_sign(tree):
        for n in ast.walk(tree):
            if isinstance(n, ast.FunctionDef) and n.name == "denormalize_coefficients":
                for s in ast.walk(n):
                    if isinstance(s, ast.Assign) and ast.unparse(s.targets[0]).replace(" ", "") == "self.dP[m,n]" and isinstance(s.value, ast.BinOp) and isinstance(s.value.op, ast.Add):
                        s.value.op = ast.Sub()
                        return True
        return False
    for name, tr, fn, rule in (("swap c[n, m-1] -> c[m-1, n] in the reader only", swap_index, index_rule, "INDEX.reader"),
                               ("change the 2025.0 threshold to 2024.0", epoch_lit, table_rule, "TABLE.epoch"),
                               ("flip a sign in the dP recursion", dP_sign, synthesis, "SYNTHESIS")):
        try:
            p2 = prog.mutated(WMM, tr)
            sub = Check("C14", chk.tier, p2, quiet=True)
            fn(sub, p2)
            chk.canary(name, any(f.rule == rule for f in sub.findings), "%d findings" % len(sub.findings))
        except Exception as e:
            chk.canary(name, False, "crashed: %s: %s" % (type(e).__name__, e))



def pole_exact(chk, prog):
    """POLE-EXACT: `magnetic_field` divides the east component by cos(phi') and has a special arm for cos(phi') == 0 whose recursion (Bp) is NOT the limit of the
    synthesis (it is a mis-port of geomag's polar case; on today's tree it is unreachable, because cos of a float latitude is never exactly 0, and the generic arm
    is what the SYNTHESIS obligations verify).  The arm may therefore be guarded by the exact test only: any tolerance form (isclose / allclose / abs(..) < eps)
    makes it reachable at latitude +-90, where it answers with an east component off by 1e2..1e4 nT."""
    f = prog.func("ahrs/utils/wmm.py::WMM.magnetic_field")
    chk.touch(f)
    n = 0
    # flags that hold a test on cos_lat (at_pole = <test>): their definitions are judged where they are used
    flag_defs = {}
    for s_ in ast.walk(f.node):
        if isinstance(s_, ast.Assign) and len(s_.targets) == 1 and isinstance(s_.targets[0], ast.Name) and "cos_lat" in ast.unparse(s_.value) \
                and isinstance(s_.value, (ast.Compare, ast.Call, ast.BoolOp, ast.UnaryOp)) and (
                    isinstance(s_.value, (ast.Compare, ast.BoolOp)) or ast.unparse(s_.value.func if isinstance(s_.value, ast.Call) else s_.value.operand).split(".")[-1] in ("isclose", "allclose", "abs", "cos_lat")):
            flag_defs[s_.targets[0].id] = s_.value
    for node in ast.walk(f.node):
        test = node.test if isinstance(node, (ast.If, ast.IfExp, ast.While)) else None
        if test is None:
            continue
        exprs = [test] + [flag_defs[x.id] for x in ast.walk(test) if isinstance(x, ast.Name) and x.id in flag_defs]
        if not any("cos_lat" in ast.unparse(e) for e in exprs):
            continue
        n += 1
        site = "%s::%s" % (f.ref, ast.unparse(test)[:50])
        leaves = [x for e in exprs for x in ast.walk(e) if isinstance(x, (ast.Compare, ast.Call)) and "cos_lat" in ast.unparse(x)]
        bad = [x for x in leaves if (isinstance(x, ast.Call) and ast.unparse(x.func).split(".")[-1] in ("isclose", "allclose"))
               or (isinstance(x, ast.Compare) and not (len(x.ops) == 1 and isinstance(x.ops[0], (ast.Eq, ast.NotEq)) and isinstance(x.comparators[0], ast.Constant)
                                                        and x.comparators[0].value == 0 and isinstance(x.left, ast.Name)))]
        if bad:
            why = "the polar arm is selected by `%s`, a tolerance test: at latitude +-90 (cos(phi') ~ 6e-17) the arm's own recursion replaces the synthesis, and that " \
                  "recursion is not its limit" % ast.unparse(bad[0])[:60]
            chk.record("POLE-EXACT", site, "the polar special case is taken for cos(phi') == 0 exactly", verdict="VIOLATION", detail=why)
            chk.finding("POLE-EXACT", f.module.rel, f.qname, "tolerance-guarded polar arm: %s" % ast.unparse(test)[:50], why, line=node.lineno)
        else:
            chk.record("POLE-EXACT", site, "the polar special case is guarded by the exact test cos_lat == 0 (never true for a float latitude: the verified generic arm answers)")
    if n < 2:
        chk.error("POLE-EXACT: %d tests on cos_lat in WMM.magnetic_field, 2 confirmed by hand" % n)
    chk.count("POLE-EXACT", 0)


def run(chk, prog, tier):
    # the constructor route evaluates the same method with every argument forwarded, and the derived elements follow from the stored components (rules of C15)
    from props.c15 import ctor_route as _ctor_route, elements as _elements
    _ctor_route(chk, prog)
    _elements(chk, prog)
    # the epoch subtracted from the date and the coefficient tables come from the same, freshly selected file on every path (rule shared with C15)
    from props.c15 import reload_rule
    reload_rule(chk, prog)
    table_rule(chk, prog)
    index_rule(chk, prog)
    bounds_rule(chk, prog)
    dt_rule(chk, prog)
    pole_exact(chk, prog)
    synthesis(chk, prog, degree=3)
    if tier == "thorough":
        synthesis(chk, prog, degree=4)      # one more degree of the recursions (k[m, n], the Legendre functions and their derivatives) against closed forms
    chk.require_count("TABLE.epoch", 4)
    chk.require_count("INDEX.loader", 4)
    chk.require_count("BOUNDS", 2)
    chk.require_count("SYNTHESIS", 3)
    canaries(chk, prog)
    return __doc__
