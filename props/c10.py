"""C10 — attitude representations round-trip (Euler, axis-angle, log/exp, powers).

Decided (AVN exact unless noted):
 RPY        to_angles(from_rpy(r,p,y)) for Quaternion, QuaternionArray and q2rpy(rpy2q(.)): the arctan2 arguments are
            (sin r cos p, cos r cos p) / (sin y cos p, cos y cos p) and the arcsin argument is sin p, so the round trip is
            the identity whenever cos p > 0;
 AXANG      DCM.from_axisangle has trace 1 + 2 cos t and antisymmetric part 2 sin t [u]x; to_axisangle(from_axisangle(u, t))
            == (u, arccos(cos t)); Quaternion.to_axang / quat2axang of (cos t/2, u sin t/2) return u and the angle
            2 atan2(sin t/2, cos t/2); axang2quat builds that quaternion;
 EXPLOG     exponential(logarithm(q)) == q for versors;
 POWER      q ** a == [cos(a t), u sin(a t)] for q = [cos t, u sin t] (positive and negative exponents), and q ** 0 is the identity;
 EULER      rotation() returns the elementary matrices; rot_seq(axes, angles) is the ordered product for sequences of
            length 1-3 in lower/upper case and integer axes; DCM(rpy=), DCM(euler=), DCM(x=,y=,z=) reach them in the
            documented order;
 OPTION     the degree / radian option arms (rpy2q, q2rpy and their aliases, rotation, axang2quat) equal the radian arm on
            converted values;
 LOG        DCM.log is skew-symmetric with |log R|_F^2 == 2 t^2 on the generic arm;
 BAND       the shortcut ``isclose(trace, 3) -> zeros`` of DCM.log covers every rotation angle below acos(1 - tol/2); the
            property demands a correct logarithm for every angle "however small", so the band must be empty (exact test).
Not decided: branch cuts at +/-pi, gimbal lock, small-angle conditioning.
Added after the seeding rounds (DESIGN.md 6.6-6.8):
 LOG.arm / RPY.gate / POWER arms / AXANG paths  every inequality-guarded arm agrees with the generic closed form on the inputs that reach it; pole gates capture
            only |pitch| within 1e-6 rad of 90 deg; from_axisangle with a non-unit axis.
Added after seeding rounds 5 and 6 and refactoring round 4 (DESIGN.md 6.10-6.12):
 LIMIT-ARM  (round 8) the constant arms of Quaternion.exponential/logarithm (limit values) are guarded by exact tests, predicate methods inlined.
 LOG.sample  closed form of DCM.log on the decision path of sample rotations (36 quick / 204 thorough).
"""
import ast
import numpy as np
from fractions import Fraction
from sa import poly as P
from sa.model import stmt_text
from sa.symeval import Interp, sym_vec, to_obj, unit_syms, unit_vec, ClassRef, vec_norm
from sa.lib import eq, all_of, I, QUAT, ORI, DCM, quat_obj, isclose_band, trace_band_angle, E_ref


def rng(c, it):
    if c.op in ("<", ">", "<=", ">="):
        return False
    return None


def args_of(r, fname):
    """(coefficient, args) of a value that is coefficient * fname(args)"""
    r = to_obj(r)
    if len(r.num) != 1 or not P.p_is_const(r.den):
        return None
    (m, c), = r.num.items()
    if len(m) != 1 or m[0][1] != 1:
        return None
    a = P.atom(m[0][0])
    if a.kind != "fn" or a.name != fname:
        return None
    return c / r.den[P.ONE_M], a.args


def rpy(chk, prog, only=None):
    ang = sym_vec("ang", 3)
    for a in ang:
        P.set_angle_unit(a, Fraction(1, 2))
    r, p, y = ang
    routes = [
        ("Quaternion", QUAT + "::Quaternion.from_rpy", QUAT + "::Quaternion.to_angles",
         lambda it: quat_obj(it, it.run(prog.func(QUAT + "::Quaternion.from_rpy"), [ClassRef(prog.cls(QUAT + "::Quaternion")), ang])), lambda out: out),
        ("QuaternionArray", QUAT + "::QuaternionArray.from_rpy", QUAT + "::QuaternionArray.to_angles",
         lambda it: quat_obj(it, it.run(prog.func(QUAT + "::QuaternionArray.from_rpy"), [ClassRef(prog.cls(QUAT + "::QuaternionArray")), np.vstack([ang, ang])]), cls="QuaternionArray"),
         lambda out: out[0]),
    ]
    for label, fr, to, build, pick in routes:
        if only is not None and label not in only:
            continue
        chk.touch(prog.func(fr))
        chk.touch(prog.func(to))

        f = prog.func(to)
        for arm in (False, True):
            seen = []

            def law(build=build, pick=pick, to=to, arm=arm, seen=seen):
                def oracle(c, it_):
                    if c.op in ("<", ">", "<=", ">="):
                        inside = it_.func_stack and it_.func_stack[-1].name in ("to_angles", "q2rpy")
                        if inside:
                            seen.append(c)
                            return arm and pole_arm_in_domain(c, p)
                        return False
                    return None
                it = Interp(prog, oracle=oracle)
                obj = build(it)
                out = pick(to_obj(it.run(prog.func(to), [], self_obj=obj)))
                res = angles_law(out, r, p, y)
                if arm and isinstance(res, tuple) and res[0] is None:
                    return (False, "on the arm taken when %s (reachable for |pitch| < 90 deg - 1e-6) the angles are no longer arctan2/arcsin of the round-trip arguments" % (seen[0] if seen else "?"))
                return res
            if arm:
                probe = []
                try:
                    itp = Interp(prog, oracle=lambda c, i: (probe.append(c) or False) if (c.op in ("<", ">", "<=", ">=") and i.func_stack and i.func_stack[-1].name in ("to_angles", "q2rpy")) else (False if c.op in ("<", ">", "<=", ">=") else None))
                    itp.run(prog.func(to), [], self_obj=build(itp))
                except Exception:
                    pass
                if not any(pole_arm_in_domain(c, p) for c in probe):
                    chk.record("RPY", "%s o %s [threshold arms]" % (to, fr), "no inequality-guarded arm of to_angles is reachable inside |pitch| < 90 deg - 1e-6")
                    continue
            chk.ob("RPY", "%s o %s%s" % (to, fr, " [threshold arm]" if arm else ""), "to_angles(from_rpy(r,p,y)) has arguments (sin r cos p, cos r cos p), sin p, (sin y cos p, cos y cos p)", law,
                   module=f.module.rel, function=f.qname, construct="rpy round trip (%s)%s" % (label, " [threshold arm]" if arm else ""), line=f.node.lineno)
    rpy_gates(chk, prog, [str(a) for a in ang], routes if only is None else [r_ for r_ in routes if r_[0] in only])
    if only is not None:
        return
    f1, f2 = prog.func(ORI + "::rpy2q"), prog.func(ORI + "::q2rpy")
    chk.touch(f1)
    chk.touch(f2)

    def law2():
        it = Interp(prog, oracle=rng)
        q = it.run(f1, [ang.copy()])
        return angles_law(to_obj(it.run(f2, [q])), r, p, y)
    chk.ob("RPY", "%s o %s" % (f2.ref, f1.ref), "q2rpy(rpy2q(r,p,y)) round trip", law2, module=ORI, function="q2rpy", construct="rpy round trip (free functions)", line=f2.node.lineno)


def pole_arm_in_domain(c, p):
    """is the arm `|w y - z x| > c` (== |sin p|/2 > c) taken for some |pitch| < 90 deg - 1e-6 ?  literal arithmetic"""
    lim = (1 - 5e-13) / 2
    lhs, rhs = c.lhs, c.rhs
    k = rhs.const() if hasattr(rhs, "const") else None
    if k is None:
        return True          # unknown form: treat as reachable (explored; a failure is reported with the condition)
    half_sin = P.absf(P.sin(p)) / 2
    if lhs.same(half_sin) or (lhs * lhs).same(P.sin(p) * P.sin(p) / 4):
        return float(k) < lim if c.op in (">", ">=") else True
    return True


def unit_options(chk, prog):
    """degree/radian option arms agree with the radian arm on converted input / output"""
    from sa.lib import DEG2RAD_of
    f1, f2 = prog.func(ORI + "::rpy2q"), prog.func(ORI + "::q2rpy")
    it = Interp(prog, oracle=rng)
    D = DEG2RAD_of(it, prog.module(ORI))
    ad = sym_vec("adeg", 3)
    chk.ob("OPTION.degrees", f1.ref, "rpy2q(A, in_deg=True) == rpy2q(A * pi/180)", lambda: eq(it.run(f1, [ad.copy()], {"in_deg": True}), it.run(f1, [ad * D]), "rpy2q(in_deg)"),
           module=ORI, function="rpy2q", construct="in_deg option", line=f1.node.lineno)
    q = sym_vec("oq", 4)
    chk.ob("OPTION.degrees", f2.ref, "q2rpy(q, in_deg=True) == q2rpy(q) * 180/pi", lambda: eq(it.run(f2, [q], {"in_deg": True}), to_obj(it.run(f2, [q])) / D, "q2rpy(in_deg)"),
           module=ORI, function="q2rpy", construct="in_deg option", line=f2.node.lineno)
    for alias, target in (("cardan2q", "rpy2q"), ("q2cardan", "q2rpy")):
        fa, ft = prog.func(ORI + "::" + alias), prog.func(ORI + "::" + target)
        arg = ad if alias == "cardan2q" else q
        chk.ob("OPTION.degrees", fa.ref, "%s forwards in_deg to %s" % (alias, target),
               lambda fa=fa, ft=ft, arg=arg: eq(it.run(fa, [arg.copy()], {"in_deg": True}), it.run(ft, [arg.copy()], {"in_deg": True}), alias), module=ORI, function=alias,
               construct="alias forwards in_deg", line=fa.node.lineno)
    fr = prog.func(DCM + "::rotation")
    t = P.sym("tdeg")
    chk.ob("OPTION.degrees", fr.ref, "rotation(ax, t, degrees=True) == rotation(ax, t * pi/180)",
           lambda: all_of(*[eq(it.run(fr, [ax, t], {"degrees": True}), it.run(fr, [ax, t * D]), "rotation(%s, degrees)" % ax) for ax in "xyz"]), module=DCM, function="rotation",
           construct="degrees option", line=fr.node.lineno)


def angles_law(out, r, p, y):
    a0, a1, a2 = args_of(out[0], "arctan2"), args_of(out[1], "arcsin"), args_of(out[2], "arctan2")
    if not (a0 and a1 and a2) or a0[0] != 1 or a1[0] != 1 or a2[0] != 1:
        return (None, "angles are not plain arctan2/arcsin/arctan2 values")
    cp = P.cos(p)
    return all_of(eq(a0[1][0], P.sin(r) * cp, "roll numerator"), eq(a0[1][1], P.cos(r) * cp, "roll denominator"),
                  eq(a1[1][0], P.sin(p), "pitch argument"),
                  eq(a2[1][0], P.sin(y) * cp, "yaw numerator"), eq(a2[1][1], P.cos(y) * cp, "yaw denominator"))


def axang(chk, prog, only_matrix=False):
    u = unit_vec("ax")
    t = P.sym("theta")
    P.set_angle_unit(t, Fraction(1, 2))
    P.declare_positive(P.sin(t / 2))
    P.declare_positive(P.cos(t / 2))      # theta in (0, pi)
    fa, ta = prog.func(DCM + "::DCM.from_axisangle"), prog.func(DCM + "::DCM.to_axisangle")
    chk.touch(fa)
    chk.touch(ta)
    it = Interp(prog)
    R = lambda: to_obj(it.run(fa, [ClassRef(prog.cls(DCM + "::DCM")), u.copy(), t]))
    kw = dict(module=DCM, function="DCM.from_axisangle", line=fa.node.lineno)
    chk.ob("AXANG.matrix", fa.ref, "trace == 1 + 2 cos t, antisymmetric part == 2 sin t [u]x, orthogonal",
           lambda: all_of(eq(R().trace(), 1 + 2 * P.cos(t), "trace"),
                          eq(np.array([R()[2, 1] - R()[1, 2], R()[0, 2] - R()[2, 0], R()[1, 0] - R()[0, 1]], dtype=object), 2 * P.sin(t) * u, "antisymmetric part"),
                          eq(R().T @ R(), I(3), "R^T R")), construct="from_axisangle", **kw)

    def free_axis():
        v = sym_vec("axf", 3)
        P.declare_positive(v[0] * v[0] + v[1] * v[1] + v[2] * v[2])
        Rv = to_obj(Interp(prog).run(fa, [ClassRef(prog.cls(DCM + "::DCM")), v.copy(), t]))
        n = P.sqrt(v[0] * v[0] + v[1] * v[1] + v[2] * v[2])
        return all_of(eq(Rv.T @ Rv, I(3), "R^T R for a non-unit axis"),
                      eq(np.array([Rv[2, 1] - Rv[1, 2], Rv[0, 2] - Rv[2, 0], Rv[1, 0] - Rv[0, 1]], dtype=object) * n, 2 * P.sin(t) * v, "antisymmetric part points along the given axis"))
    chk.ob("AXANG.matrix", fa.ref + "::non-unit axis", "from_axisangle(k u, t) is the rotation about u for any non-zero axis length (orthogonal, axis direction kept)", free_axis,
           construct="from_axisangle with a non-unit axis", **kw)
    if only_matrix:
        return
    from sa.lib import enumerate_paths

    def run_ta(oracle):
        it_ = Interp(prog, oracle=oracle)
        Rm = to_obj(it_.run(fa, [ClassRef(prog.cls(DCM + "::DCM")), u.copy(), t]))
        obj = it_.make_obj(DCM + "::DCM", data=Rm, A=Rm)
        return it_.run(ta, [], self_obj=obj)
    # every decision path of to_axisangle (small-angle / near-pi / pivot arms, if any) must return the axis and angle the matrix was built from
    for decisions, res in enumerate_paths(run_ta, max_paths=24):
        label = ", ".join("%s->%s" % (("argmax" if c.op == "argmax" else "%s %s %s" % (str(c.lhs)[:28], c.op, str(c.rhs)[:10])), a_) for c, a_ in decisions) or "unconditional"

        def roundtrip(res=res, label=label):
            if isinstance(res, Exception):
                raise res
            axis, angle = res
            a = args_of(angle, "arccos")
            if not a or a[0] != 1:
                return (None, "angle is not an arccos value")
            return all_of(eq(a[1][0], P.cos(t), "cos(angle)"), eq(axis, u, "axis [path %s]" % label))
        chk.ob("AXANG.roundtrip", ta.ref + "::path " + label, "to_axisangle(from_axisangle(u, t)) == (u, arccos(cos t)) on the path [%s]" % label, roundtrip, module=DCM,
               function="DCM.to_axisangle", construct="axis-angle round trip (DCM) [%s]" % ("unconditional" if not decisions else "%d decisions: %s" % (len(decisions), label[:60])), line=ta.node.lineno)
    # quaternion side
    q = np.concatenate([[P.cos(t / 2)], u * P.sin(t / 2)])
    for ref, caller in ((QUAT + "::Quaternion.to_axang", lambda it_: it_.run(prog.func(QUAT + "::Quaternion.to_axang"), [], self_obj=quat_obj(it_, q))),
                        (ORI + "::quat2axang", lambda it_: it_.run(prog.func(ORI + "::quat2axang"), [q.copy()]))):
        f = prog.func(ref)
        chk.touch(f)

        def law(caller=caller):
            it_ = Interp(prog)
            axis, angle = caller(it_)
            a = args_of(angle, "arctan2")
            if not a or a[0] != 2:
                return (None, "angle is not 2*arctan2(.,.)")
            return all_of(eq(axis, u, "axis"), eq(a[1][0], P.sin(t / 2), "sin(angle/2)"), eq(a[1][1], P.cos(t / 2), "cos(angle/2)"))
        chk.ob("AXANG.roundtrip", ref, "axis/angle of (cos t/2, u sin t/2) == (u, 2 atan2(sin t/2, cos t/2))", law, module=f.module.rel, function=f.qname,
               construct="axis-angle of a quaternion", line=f.node.lineno)
    f = prog.func(ORI + "::axang2quat")
    chk.touch(f)
    chk.ob("AXANG.build", f.ref, "axang2quat(u, t) == (cos t/2, u sin t/2)", lambda: eq(Interp(prog).run(f, [u.copy(), t]), q, "axang2quat"), module=ORI, function="axang2quat",
           construct="axang2quat", line=f.node.lineno)

    def degrees():
        from sa.lib import DEG2RAD_of
        it_ = Interp(prog)
        D = DEG2RAD_of(it_, prog.module(ORI))
        td = P.sym("theta_deg")
        half = td * D / 2
        want = np.concatenate([[P.cos(half)], u * P.sin(half)])
        return eq(it_.run(f, [u.copy(), td], {"rad": False}), want, "axang2quat(rad=False)")
    chk.ob("AXANG.build", f.ref + "::degrees", "axang2quat(u, t_deg, rad=False) == (cos(t_deg pi/360), u sin(t_deg pi/360))", degrees, module=ORI, function="axang2quat",
           construct="axang2quat in degrees", line=f.node.lineno)


def explog(chk, prog):
    q = unit_syms("lq")
    cls = prog.cls(QUAT + "::Quaternion")
    chk.touch(cls.lookup("logarithm"))
    chk.touch(cls.lookup("exponential"))
    w = q[0]
    P.declare_positive(P.fn("arccos", w))

    def law():
        it = Interp(prog)
        lg = to_obj(it.getattr(quat_obj(it, q), "logarithm", None))
        back = it.getattr(quat_obj(it, lg), "exponential", None)
        return eq(back, q, "exp(log q)")
    chk.ob("EXPLOG", QUAT + "::Quaternion.exponential", "exponential(logarithm(q)) == q for versors", law, module=QUAT, function="Quaternion.exponential",
           construct="exp(log q) == q", line=cls.lookup("exponential").node.lineno)


def power(chk, prog):
    u = unit_vec("pu")
    t, a = P.sym("pt"), P.sym("pa")
    P.declare_positive(a)
    P.declare_positive(P.sin(t))
    P.declare_positive(t)
    q = np.concatenate([[P.cos(t)], u * P.sin(t)])
    f = prog.func(QUAT + "::Quaternion.__pow__")
    chk.touch(f)
    kw = dict(module=QUAT, function="Quaternion.__pow__", line=f.node.lineno)

    def run(expo):
        # arccos(cos t) is t on (0, pi): the logarithm's angle
        it = Interp(prog, intercepts={"np.arccos": lambda i, a_, k: t if to_obj(a_[0]).same(P.cos(t)) else P.fn("arccos", a_[0])})
        return to_obj(it.run(f, [expo], self_obj=quat_obj(it, q)))
    # inequality-guarded arms (sign canonicalisation, small-angle series ...): each must return the same closed form wherever it is taken
    from sa.lib import arms_agree
    import math

    def arms():
        def run_o(oracle):
            it = Interp(prog, oracle=oracle, intercepts={"np.arccos": lambda i, a_, k: t if to_obj(a_[0]).same(P.cos(t)) else P.fn("arccos", a_[0])})
            return to_obj(it.run(f, [a], self_obj=quat_obj(it, q)))
        samples = []
        for tv in (0.2, 0.9, 1.5, 2.2, 2.9):
            for av in (0.3, 1.0, 1.7, 2.6):
                u1, u2 = 0.36, 0.48
                samples.append({"pt": tv, "pa": av, "pu0": math.sqrt(1 - u1 * u1 - u2 * u2), "pu1": u1, "pu2": u2})
        return arms_agree(run_o, np.concatenate([[P.cos(a * t)], u * P.sin(a * t)]), samples, "q**a")
    chk.ob("POWER", f.ref + "::arms", "every inequality-guarded arm of __pow__ returns [cos(a t), u sin(a t)] on the rotations and exponents that reach it", arms,
           construct="q**a on every arm", **kw)
    chk.ob("POWER", f.ref + "::a>0", "q**a == [cos(a t), u sin(a t)], a > 0", lambda: eq(run(a), np.concatenate([[P.cos(a * t)], u * P.sin(a * t)]), "q**a"), construct="q**a (a > 0)", **kw)
    chk.ob("POWER", f.ref + "::a<0", "q**(-a) == [cos(a t), -u sin(a t)], a > 0", lambda: eq(run(-a), np.concatenate([[P.cos(a * t)], -u * P.sin(a * t)]), "q**(-a)"), construct="q**a (a < 0)", **kw)
    chk.ob("POWER", f.ref + "::a=0", "q**0 == 1", lambda: eq(run(0), np.array([1, 0, 0, 0], dtype=object) * P.ONE, "q**0"), construct="q**0", **kw)
    chk.ob("POWER", f.ref + "::a=1", "q**1 == q", lambda: eq(run(1), q, "q**1"), construct="q**1", **kw)


def Rx(a):
    c, s = P.cos(a), P.sin(a)
    return np.array([[P.ONE, P.ZERO, P.ZERO], [P.ZERO, c, -s], [P.ZERO, s, c]], dtype=object)


def Ry(a):
    c, s = P.cos(a), P.sin(a)
    return np.array([[c, P.ZERO, s], [P.ZERO, P.ONE, P.ZERO], [-s, P.ZERO, c]], dtype=object)


def Rz(a):
    c, s = P.cos(a), P.sin(a)
    return np.array([[c, -s, P.ZERO], [s, c, P.ZERO], [P.ZERO, P.ZERO, P.ONE]], dtype=object)


ELEM = {"x": Rx, "y": Ry, "z": Rz}


def euler(chk, prog):
    frot, fseq = prog.func(DCM + "::rotation"), prog.func(DCM + "::rot_seq")
    chk.touch(frot)
    chk.touch(fseq)
    a = sym_vec("e", 3)
    it = Interp(prog, oracle=rng)
    for ax in ("x", "y", "z", "X", "Y", "Z", 0, 1, 2):
        name = ax if isinstance(ax, str) else "xyz"[ax]
        chk.ob("EULER.elementary", frot.ref + "::%r" % (ax,), "rotation(%r, t) is the elementary rotation about %s" % (ax, name.lower()),
               lambda ax=ax, name=name: eq(it.run(frot, [ax, a[0]]), ELEM[name.lower()](a[0]), "rotation(%r)" % (ax,)), module=DCM, function="rotation",
               construct="rotation(%r)" % (ax,), line=frot.node.lineno)
    D = None
    seqs = ["z", "zy", "zyx", "xyz", "zxz", "ZYX", "Xy", ["y", "x", "z"]]
    for seq in seqs:
        def law(seq=seq):
            n = len(seq)
            got = to_obj(it.run(fseq, [seq, list(a[:n])]))
            want = I(3)
            for ax, ang in zip(seq, a[:n]):
                want = want @ ELEM[ax.lower()](ang)
            return eq(got, want, "rot_seq(%s)" % (seq,))
        chk.ob("EULER.sequence", fseq.ref + "::%s" % (seq,), "rot_seq(%s, angles) == ordered product of elementary rotations" % (seq,), law, module=DCM, function="rot_seq",
               construct="rot_seq(%s)" % (seq,), line=fseq.node.lineno)
    fnew = prog.func(DCM + "::DCM.__new__")
    chk.touch(fnew)
    so3 = lambda c, i: True if (c.op in ("isclose", "allclose") and i.func_stack and i.func_stack[-1].name == "_assert_SO3") else rng(c, i)

    def ctor(kwargs, want):
        it2 = Interp(prog, oracle=so3)
        obj = it2.instantiate(prog.cls(DCM + "::DCM"), [], kwargs)
        return eq(to_obj(obj), want, "DCM(%s)" % ",".join(kwargs))
    chk.ob("EULER.ctor", fnew.ref + "::rpy", "DCM(rpy=A) == rot_seq('zyx', A)", lambda: ctor({"rpy": list(a)}, Rz(a[0]) @ Ry(a[1]) @ Rx(a[2])), module=DCM, function="DCM.__new__", construct="DCM(rpy=)")
    chk.ob("EULER.ctor", fnew.ref + "::euler", "DCM(euler=('zxz', A)) == Rz Rx Rz", lambda: ctor({"euler": ("zxz", list(a))}, Rz(a[0]) @ Rx(a[1]) @ Rz(a[2])), module=DCM, function="DCM.__new__", construct="DCM(euler=)")
    chk.ob("EULER.ctor", fnew.ref + "::xyz", "DCM(x=,y=,z=) == Rx Ry Rz", lambda: ctor({"x": a[0], "y": a[1], "z": a[2]}, Rx(a[0]) @ Ry(a[1]) @ Rz(a[2])), module=DCM, function="DCM.__new__", construct="DCM(x=,y=,z=)")


def dcm_log(chk, prog, tier="quick"):
    cls = prog.cls(DCM + "::DCM")
    f = cls.lookup("log")
    chk.touch(f)
    q = unit_syms("gq")
    R = E_ref(q)          # with the unit relation the division by |q|^2 is by 1

    def law():
        it = Interp(prog, oracle=rng)       # generic arm: the trace is not (>=) 3
        obj = it.make_obj(DCM + "::DCM", data=R, A=R)
        L = to_obj(it.getattr(obj, "log", None))
        c = (R.trace() - 1) / 2
        theta = P.fn("arccos", c)
        fro = P.ZERO
        for v in L.flat:
            fro = fro + v * v
        return all_of(eq(L.T, -L, "log^T"), eq(fro, 2 * theta * theta, "|log R|_F^2"))
    chk.ob("LOG", f.ref, "log(R)^T == -log(R) and |log R|_F^2 == 2 t^2 (generic arm)", law, module=DCM, function="DCM.log", construct="matrix logarithm", line=f.node.lineno)
    band_rule(chk, f, "C10", 1e-3, "the logarithm must be correct for every rotation angle, including below 1e-3 rad")
    log_arms(chk, prog, f, q, R)
    log_samples(chk, prog, f, q, R, samples=LOG_SAMPLES if tier != "thorough" else LOG_SAMPLES + _more_log_samples())


def _more_log_samples():
    """thorough tier: a low-discrepancy sweep of 14 axes (all sign patterns of the dominant component) x 12 angles up to pi - 1e-4"""
    import math
    out = []
    angles = [3e-7, 1e-5, 1e-3, 0.05, 0.7, 1.5707, 1.9, 2.5, 2.9, 3.1, 3.14, math.pi - 1e-4]
    for k in range(14):
        z = 1 - (2 * k + 1) / 14.0
        r_ = math.sqrt(max(0.0, 1 - z * z))
        ph = k * 2.399963229728653          # golden angle
        ax = (r_ * math.cos(ph), r_ * math.sin(ph), z)
        for t in angles:
            out.append((t, ax))
    return out


LOG_SAMPLES = [(t, ax) for t in (1e-4, 0.3, 1.2, 2.2, 3.0, 3.1405) for ax in ((0.36, 0.48, 0.8), (-0.36, -0.48, -0.8), (0.6, -0.8, 0.0), (0.0, -1.0, 0.0), (-0.8, 0.0, 0.6), (0.1, 0.2, -0.9746794344808963))]


def log_samples(chk, prog, f, q, R, tol=1e-6, samples=None):
    """LOG.sample: DCM.log is interpreted along the one decision path each sample rotation takes (pivot choices of a quaternion route, series / near-pi arms ...):
    the closed form of that path, evaluated at the sample, must be theta/(2 sin theta) (R - R^T) with theta = arccos((tr R - 1)/2).  Angles from 1e-4 to
    pi - 1e-3, axes with positive and with negative dominant components."""
    import math
    from sa.lib import sample_oracle
    qn = [str(x) for x in q]
    signs = []
    for t, ax in (samples if samples is not None else LOG_SAMPLES):
        nrm = math.sqrt(sum(a * a for a in ax))
        vals = {qn[0]: math.cos(t / 2), qn[1]: math.sin(t / 2) * ax[0] / nrm, qn[2]: math.sin(t / 2) * ax[1] / nrm, qn[3]: math.sin(t / 2) * ax[2] / nrm}

        def law(t=t, vals=vals):
            it = Interp(prog, oracle=sample_oracle(vals))
            L = to_obj(it.getattr(it.make_obj(DCM + "::DCM", data=R, A=R), "log", None))
            val = lambda at: math.pi if at.name == "pi" else vals[at.name]
            Rn = np.array([[P.evalf(x if isinstance(x, P.Rat) else P._to_rat(x), val) for x in row] for row in R])
            th = math.acos(max(-1.0, min(1.0, (Rn.trace() - 1) / 2)))
            want = th / (2 * math.sin(th)) * (Rn - Rn.T) if th > 1e-12 else np.zeros((3, 3))
            got = np.array([[P.evalf(x if isinstance(x, P.Rat) else P._to_rat(x), val) for x in row] for row in L])
            ref = float(np.linalg.norm(want))
            e_plus, e_minus = float(np.linalg.norm(got - want)), float(np.linalg.norm(got + want))
            sign = 1 if e_plus <= e_minus else -1          # the property fixes skew-symmetry and magnitude; the orientation convention only has to be ONE convention
            err = min(e_plus, e_minus)
            if err <= tol * max(ref, 1e-12) or err <= 1e-9:
                if ref > 1e-9:
                    if signs and signs[0][0] != sign:
                        return (False, "at the rotation by %.4g rad the logarithm has the opposite orientation (sign) to the one returned at %.4g rad" % (t, signs[0][1]), None)
                    signs.append((sign, t))
                return True
            return (False, "at the rotation by %.4g rad about (%.2f, %.2f, %.2f) the decision path of DCM.log gives a logarithm of Frobenius norm %.6g, expected sqrt(2)*angle = %.6g "
                           "(difference %.3g)" % (t, ax[0] / nrm, ax[1] / nrm, ax[2] / nrm, float(np.linalg.norm(got)), ref, err), None)
        chk.ob("LOG.sample", "%s::t=%.4g,axis=%s" % (f.ref, t, ax), "closed form of the path taken by this rotation equals theta/(2 sin theta)(R - R^T) there", law,
               module=DCM, function="DCM.log", construct="logarithm on the path of a sample rotation", line=f.node.lineno)


def log_arms(chk, prog, f, q, R, tol=1e-6):
    """LOG.arm: every inequality-guarded arm of DCM.log (a small-angle series, a near-pi branch ...) must agree with the generic closed form
    wherever its guard holds: the two extracted expressions are evaluated at rotations inside the arm, closest to its threshold first."""
    import math
    seen = []

    def probe(c, it_):
        if c.op in ("<", ">", "<=", ">="):
            seen.append(c)
            return False
        return None
    itp = Interp(prog, oracle=probe)
    try:
        L_gen = to_obj(itp.getattr(itp.make_obj(DCM + "::DCM", data=R, A=R), "log", None))
    except Exception as e:
        chk.error("LOG.arm: generic arm of DCM.log not analysable: %s" % e)
        return
    qn = [str(x) for x in q]
    ax = (0.36, 0.48, 0.8)

    def val_at(t):
        vals = {qn[0]: math.cos(t / 2), qn[1]: math.sin(t / 2) * ax[0], qn[2]: math.sin(t / 2) * ax[1], qn[3]: math.sin(t / 2) * ax[2]}
        return lambda at: vals[at.name]
    n = 0
    for k, c in enumerate(list(seen)):
        try:
            rhs = float(c.rhs.const())
        except Exception:
            rhs = None
        # rotations for which this guard is true
        ts = [10 ** (e / 4.0) for e in range(-32, 2)] + [math.pi - 10 ** (e / 4.0) for e in range(-32, 0)]
        inside = []
        for t in ts:
            try:
                l, r = P.evalf(c.lhs, val_at(t)), P.evalf(c.rhs, val_at(t))
            except Exception:
                continue
            ok = {"<": l < r, "<=": l <= r, ">": l > r, ">=": l >= r}[c.op]
            if ok and l == l:
                inside.append((abs(l - r), t))
        if not inside:
            chk.record("LOG.arm", "%s::%s" % (f.ref, c), "guard is false for every rotation angle in (0, pi): the arm only serves exact limits")
            continue
        n += 1
        samples = [t for _, t in sorted(inside)[:4]]

        def law(k=k, c=c, samples=samples):
            idx = [0]

            def oracle(cc, it_):
                if cc.op in ("<", ">", "<=", ">="):
                    i = idx[0]
                    idx[0] += 1
                    return i == k
                return None
            it = Interp(prog, oracle=oracle)
            L_arm = to_obj(it.getattr(it.make_obj(DCM + "::DCM", data=R, A=R), "log", None))
            for t in samples:
                num = den = 0.0
                for u, v in zip(L_arm.flat, L_gen.flat):
                    x, y = P.evalf(P._to_rat(u) if not isinstance(u, P.Rat) else u, val_at(t)), P.evalf(P._to_rat(v) if not isinstance(v, P.Rat) else v, val_at(t))
                    num += (x - y) ** 2
                    den += y ** 2
                rel = math.sqrt(num / den) if den else (0.0 if num == 0 else float("inf"))
                if not (rel <= tol or math.sqrt(num) <= 1e-7):     # 1e-7 rad absolute: the float resolution of the trace near the identity
                    return (False, "at rotation angle %.4g rad (inside the arm taken when %s) the arm's closed form differs from the generic logarithm by %.3g (relative, Frobenius)" % (t, c, rel), None)
            return True
        chk.ob("LOG.arm", "%s::%s" % (f.ref, c), "the arm taken when `%s` agrees with theta/(2 sin theta) (R^T - R) to %g wherever the guard holds" % (c, tol), law,
               module=DCM, function="DCM.log", construct="arm agreement [%s %s const]" % (c.op, "lhs"), line=f.node.lineno)
    chk.counts["LOG.arms-with-interior"] = n


def band_rule(chk, f, pid, domain_low, why):
    """BAND: shortcuts `if np.isclose(trace, 3.0): return <constant>` in f"""
    n = 0
    for s in ast.walk(f.node):
        if isinstance(s, ast.If) and isinstance(s.test, ast.Call) and ast.unparse(s.test.func) in ("np.isclose", "np.allclose") and any(isinstance(b, ast.Return) for b in s.body):
            b = isclose_band(s.test)
            arg = s.test.args[0]
            txt = ast.unparse(arg).lower()
            if isinstance(arg, ast.Name):       # resolve a local through its assignments
                for a_ in ast.walk(f.node):
                    if isinstance(a_, ast.Assign) and any(isinstance(t_, ast.Name) and t_.id == arg.id for t_ in a_.targets):
                        txt += " " + ast.unparse(a_.value).lower()
            if b is None or "trace" not in txt or b[0] != 3.0:
                continue
            n += 1
            ang = trace_band_angle(b[1])
            site = "%s::%s" % (f.ref, stmt_text(s))
            if ang > domain_low * 1e-3:
                chk.record("BAND", site, "shortcut band below the property's domain", verdict="VIOLATION", detail="band: angles <= %.3e rad" % ang)
                chk.finding("BAND", f.module.rel, f.qname, "shortcut %s" % stmt_text(s),
                            "the tolerance |trace - 3| <= %.3g takes the shortcut for every rotation angle up to %.3e rad and returns the identity's value for them; %s" % (b[1], ang, why),
                            line=s.lineno)
            else:
                chk.record("BAND", site, "shortcut band %.3e rad is below the property's domain" % ang)
    chk.counts["BAND.shortcuts"] = chk.counts.get("BAND.shortcuts", 0) + n
    if n == 0:
        chk.record("BAND", f.ref, "no tolerance-based identity shortcut on the trace (exact comparisons have an empty band)")


def rpy_gates(chk, prog, names, routes, limit=1e-6):
    """RPY.gate: tolerance tests inside to_angles that close as pitch -> +-90 deg (gimbal-lock shortcuts) may only capture pitches within `limit` of the pole:
    the round trip is required for every |pitch| < 90 deg.  The residual of each gate met on from_rpy(r, p, y) is evaluated along p = +-(pi/2 - s)."""
    import math
    from sa.symeval import Interp as _I
    for label, fr, to, build, pick in routes:
        mark = len(_I.GATE_LOG)
        try:
            it = Interp(prog, oracle=lambda c, i: False if c.op in ("<", ">", "<=", ">=", "isclose", "allclose") else None)
            it.run(prog.func(to), [], self_obj=build(it))
        except Exception as e:
            chk.record("RPY.gate", to, "gates of %s not analysable (%s): no verdict" % (to, type(e).__name__), verdict="UNKNOWN")
            continue
        gates = [g for g in _I.GATE_LOG[mark:] if g[0].split("::")[-1].split(".")[-1] in ("to_angles", "q2rpy")]
        seen = set()
        n = 0
        for fn, lhs, rhs, tol, ans in gates:
            key = (str(lhs)[:80], str(rhs))
            if key in seen:
                continue
            seen.add(key)
            c = rhs.const() if hasattr(rhs, "const") else None
            if c is None:
                continue
            t = tol[1] + tol[0] * abs(float(c))
            worst = None
            for sign in (1.0, -1.0):
                def resid(s_):
                    vals = {names[0]: 0.3, names[1]: sign * (math.pi / 2 - s_), names[2]: 0.7}
                    return abs(P.evalf(lhs - rhs, lambda at: vals[at.name] if at.name in vals else (_ for _ in ()).throw(KeyError(at.name))))
                try:
                    f2_, f3_ = resid(1e-3), resid(1e-4)
                except KeyError:
                    break
                if not (f2_ > f3_ >= 0) or f3_ > 1e-3:
                    continue
                if f3_ == 0:
                    continue
                p_ = round(math.log(f2_ / f3_) / math.log(10.0))
                if p_ < 1:
                    continue
                k_ = f3_ / (1e-4 ** p_)
                band = (t / k_) ** (1.0 / p_)
                worst = max(worst or 0.0, band)
            if worst is None:
                continue
            n += 1
            site = "%s::isclose(%s, %s)" % (to, str(lhs)[:50], rhs)
            if worst > limit:
                f_ = prog.func(to)
                why = "the tolerance test isclose(%s, %s) in %s is true for every pitch within %.3e rad (%.3f deg) of +-90 deg: angles inside the stated domain |pitch| < 90 deg take the " \
                      "gimbal-lock shortcut and are not returned by the round trip" % (str(lhs)[:50], rhs, f_.qname, worst, math.degrees(worst))
                chk.record("RPY.gate", site, "pole shortcut captures only |pitch| within %.0e rad of 90 deg" % limit, verdict="VIOLATION", detail=why)
                chk.finding("RPY.gate", f_.module.rel, f_.qname, "gimbal-lock tolerance gate", why, line=f_.node.lineno)
            else:
                chk.record("RPY.gate", site, "pole shortcut captures pitches within %.3e rad of +-90 deg only" % worst)
        if n == 0:
            chk.record("RPY.gate", to, "no tolerance test in %s closes at the pitch poles" % to)


def canaries(chk, prog):
    from sa.report import Check

    def swap_seq(tree):
        for n in ast.walk(tree):
            if isinstance(n, ast.FunctionDef) and n.name == "rot_seq":
                for s in ast.walk(n):
                    if isinstance(s, ast.Assign) and isinstance(s.value, ast.BinOp) and isinstance(s.value.op, ast.MatMult):
                        s.value.left, s.value.right = s.value.right, s.value.left
                        return True
        return False

    def sign_rpy(tree):
        for c in ast.walk(tree):
            if isinstance(c, ast.ClassDef) and c.name == "QuaternionArray":
                for n in ast.walk(c):
                    if isinstance(n, ast.FunctionDef) and n.name == "to_angles":
                        for b in ast.walk(n):
                            if isinstance(b, ast.BinOp) and isinstance(b.op, ast.Sub) and "self.w * self.y" in ast.unparse(b):
                                b.op = ast.Add()
                                return True
        return False
    def tol_shortcut(tree):
        for c in ast.walk(tree):
            if isinstance(c, ast.FunctionDef) and c.name == "log":
                c.body.insert(1, ast.parse("if np.isclose(self.A.trace(), 3.0):\n    return np.zeros((3, 3))").body[0])
                return True
        return False
    try:
        p2 = prog.mutated(DCM, tol_shortcut)
        sub = Check("C10", chk.tier, p2, quiet=True)
        band_rule(sub, p2.cls(DCM + "::DCM").lookup("log"), "C10", 1e-3, "canary")
        chk.canary("re-introduce isclose(trace, 3) in DCM.log", any(f.rule == "BAND" for f in sub.findings), "%d findings" % len(sub.findings))
    except Exception as e:
        chk.canary("re-introduce isclose(trace, 3)", False, "crashed: %s" % e)
    for name, rel, tr, fn in (("reverse the multiplication order in rot_seq", DCM, swap_seq, euler), ("flip a sign in QuaternionArray.to_angles", QUAT, sign_rpy, rpy)):
        try:
            p2 = prog.mutated(rel, tr)
            sub = Check("C10", chk.tier, p2, quiet=True)
            fn(sub, p2)
            chk.canary(name, bool(sub.findings), "%d findings" % len(sub.findings))
        except Exception as e:
            chk.canary(name, False, "crashed: %s: %s" % (type(e).__name__, e))



def limit_arm_exact(chk, prog):
    """LIMIT-ARM: in Quaternion.exponential / logarithm an arm that returns a constant array (the identity for a real quaternion, zeros for a null vector part) is
    the *limit value* of the closed form, exact only at the limit itself.  Its guard therefore has to be an exact test; a tolerance test (isclose / allclose,
    possibly inside the predicate method the guard calls) hands the limit value to every input within the band - for `is_real` with isclose(|w|, |q|) that is every
    rotation below 4e-3 rad of a non-unit quaternion, where exp(log(q)) then returns the identity instead of q."""
    cls = prog.cls("ahrs/common/quaternion.py::Quaternion")
    n = 0
    for name in ("exponential", "logarithm"):
        f = cls.methods.get(name)
        if f is None:
            chk.error("LIMIT-ARM: Quaternion.%s vanished" % name)
            continue
        chk.touch(f)
        for node in ast.walk(f.node):
            if not (isinstance(node, ast.If) and node.body and isinstance(node.body[-1], ast.Return) and node.body[-1].value is not None):
                continue
            rv = node.body[-1].value
            def _literal_name(x):
                # a module-level constant:  _IDENTITY_ELEMENTS = (1.0, 0.0, 0.0, 0.0)
                if not isinstance(x, ast.Name):
                    return False
                r = f.module.resolve_name(x.id)
                if isinstance(r, tuple) and r and r[0] == "assign":
                    try:
                        ast.literal_eval(r[3] if not isinstance(r[3], ast.Assign) else r[3].value)
                        return True
                    except Exception:
                        return False
                return False
            const_arm = isinstance(rv, ast.Call) and ast.unparse(rv.func).split(".")[-1] in ("array", "zeros", "ones") and \
                not any(isinstance(x, (ast.Name, ast.Attribute)) and not (isinstance(x, ast.Name) and (x.id in ("np", "numpy", "float") or _literal_name(x)))
                        and not (isinstance(x, ast.Attribute) and isinstance(x.value, ast.Name) and x.value.id in ("np", "numpy"))
                        for a in list(rv.args) + [k.value for k in rv.keywords] for x in ast.walk(a))
            if not const_arm:
                continue
            n += 1
            exprs = [node.test]
            for c in ast.walk(node.test):
                if isinstance(c, ast.Call) and isinstance(c.func, ast.Attribute) and isinstance(c.func.value, ast.Name) and c.func.value.id == "self":
                    g = cls.lookup(c.func.attr)
                    if g is not None:
                        chk.touch(g)
                        exprs.extend(r.value for r in ast.walk(g.node) if isinstance(r, ast.Return) and r.value is not None)
                        exprs.extend(s_.value for s_ in ast.walk(g.node) if isinstance(s_, ast.Assign))
            tol = [x for e in exprs for x in ast.walk(e) if isinstance(x, ast.Call) and ast.unparse(x.func).split(".")[-1] in ("isclose", "allclose")]
            site = "%s::if %s" % (f.ref, ast.unparse(node.test)[:50])
            if tol:
                why = "the arm `return %s` is the limit value of the closed form, but its guard `%s` is decided with a tolerance (%s): every quaternion within the band gets the limit " \
                      "value instead of the closed form, so exp(log(q)) = q fails for small rotations" % (ast.unparse(rv)[:40], ast.unparse(node.test)[:40], ast.unparse(tol[0])[:60])
                chk.record("LIMIT-ARM", site, "a constant (limit) arm is guarded by an exact test", verdict="VIOLATION", detail=why)
                chk.finding("LIMIT-ARM", f.module.rel, f.qname, "tolerance-guarded limit arm: if %s" % ast.unparse(node.test)[:50], why, line=node.lineno)
            else:
                chk.record("LIMIT-ARM", site, "the constant (limit) arm is taken only on an exact test of the components")
    if n < 2:
        chk.error("LIMIT-ARM: %d constant arms found in Quaternion.exponential/logarithm, 2 confirmed by hand" % n)
    chk.count("LIMIT-ARM", 0)


def run(chk, prog, tier):
    rpy(chk, prog)
    axang(chk, prog)
    explog(chk, prog)
    power(chk, prog)
    euler(chk, prog)
    unit_options(chk, prog)
    dcm_log(chk, prog, tier)
    limit_arm_exact(chk, prog)
    chk.require_count("RPY", 3)
    chk.require_count("EULER.sequence", 8)
    canaries(chk, prog)
    return __doc__
