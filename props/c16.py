"""C16 — the ellipsoid gravity model satisfies the closed-form level-ellipsoid identities.

Decided (AVN, exact over the reals, symbolic a, f, GM, w):
 DERIVED    b == a(1-f); first_eccentricity_squared == (a^2-b^2)/a^2; second == (a^2-b^2)/b^2; linear_eccentricity^2 == a^2-b^2;
 PIZZETTI   2 ge/a + gp/b == 3 GM/(a^2 b) - 2 w^2 on every return arm of equatorial_/polar_normal_gravity: the general arm
            (the arctan terms cancel identically), the f == 0 arm (instantiated with f = 0) and both outcomes of any
            inequality-guarded arm;
 SOMIGLIANA normal_gravity(0) == ge, normal_gravity(+/-90) == gp, normal_gravity(-lat) == normal_gravity(lat);
 HEIGHT     the free-air factor is 1 - 2h(1 + f + m - 2 f sin^2 lat)/a + 3h^2/a^2, whose h-derivative is negative on the
            stated parameter box (interval arithmetic on the literals: f <= 0.2, m >= 0, h <= 0.005 a);
 SHARED-STATE no class-level cache shared between ellipsoid instances.
Not decided: closeness to rotating-sphere values for small f (a limit statement), positivity in general.
Added after the seeding rounds (DESIGN.md 6.6-6.8):
 CTOR-ACCEPT / PIZZETTI.arms / HEIGHT.special / LIMIT  no rejection decided by the sign of w; the theorem on every equality-guarded degenerate arm (f = 0, w = 0);
            the height term at latitudes exactly 0 and +-90; the sphere arms are the f -> 0 limits of the general arms.
Added after seeding rounds 5 and 6 and refactoring round 4 (DESIGN.md 6.10-6.12):
 INHERIT, SOMIGLIANA.sphere, GATE.ellipsoid.
"""
import ast
import numpy as np
from fractions import Fraction
from sa import poly as P
from sa.symeval import Interp, to_obj, Undecided
from sa.lib import eq, all_of
from sa.flow import Alias

GEO = "ahrs/utils/geodesy.py"


def ellipsoid(it, f=None, sub=None):
    sub = sub or {}
    a, GM, w = (P.const(sub[n_]) if n_ in sub else P.sym(n_) for n_ in ("a", "GM", "w"))
    if f is None and "f" in sub:
        f = sub["f"]
    fv = P.sym("f") if f is None else P.const(f)
    cls = it.program.cls(GEO + "::ReferenceEllipsoid")
    obj = it.instantiate(cls, [a, fv, GM, w], {})
    return obj, a, fv, GM, w


def derived(chk, prog):
    it = Interp(prog)
    obj, a, f, GM, w = ellipsoid(it)
    b = a * (1 - f)
    cls = prog.cls(GEO + "::ReferenceEllipsoid")
    for n in ("__init__", "first_eccentricity_squared", "second_eccentricity_squared", "linear_eccentricity"):
        chk.touch(cls.lookup(n))
    kw = lambda fn: dict(module=GEO, function="ReferenceEllipsoid." + fn, line=cls.lookup(fn).node.lineno)
    chk.ob("DERIVED", GEO + "::ReferenceEllipsoid.__init__", "b == a(1-f)", lambda: eq(obj.attrs["b"], b, "b"), construct="b == a(1-f)", **kw("__init__"))
    chk.ob("DERIVED", GEO + "::ReferenceEllipsoid.first_eccentricity_squared", "e^2 == (a^2-b^2)/a^2",
           lambda: eq(it.getattr(obj, "first_eccentricity_squared", None), (a * a - b * b) / (a * a), "e2"), construct="e^2", **kw("first_eccentricity_squared"))
    chk.ob("DERIVED", GEO + "::ReferenceEllipsoid.second_eccentricity_squared", "e'^2 == (a^2-b^2)/b^2",
           lambda: eq(it.getattr(obj, "second_eccentricity_squared", None), (a * a - b * b) / (b * b), "es2"), construct="e'^2", **kw("second_eccentricity_squared"))

    def lin():
        E = it.getattr(obj, "linear_eccentricity", None)
        return eq(E * E, a * a - b * b, "E^2")
    chk.ob("DERIVED", GEO + "::ReferenceEllipsoid.linear_eccentricity", "E^2 == a^2-b^2", lin, construct="E^2", **kw("linear_eccentricity"))


def pizzetti(chk, prog):
    cls = prog.cls(GEO + "::ReferenceEllipsoid")
    fe, fp = cls.lookup("equatorial_normal_gravity"), cls.lookup("polar_normal_gravity")
    chk.touch(fe)
    chk.touch(fp)
    arms = [("general arm (f symbolic)", None, False), ("f == 0 arm", 0, False)]
    # inequality-guarded arms, if any, are explored with both outcomes
    for label, fval, ineq in list(arms) + [("inequality arms taken", None, True)]:
        seen_ineq = []

        def law(fval=fval, ineq=ineq):
            def oracle(c, it_):
                if c.op in ("<", ">", "<=", ">="):
                    seen_ineq.append(c)
                    return ineq
                return None
            it = Interp(prog, oracle=oracle)
            obj, a, f, GM, w = ellipsoid(it, fval)
            b = a * (1 - f)
            ge = it.getattr(obj, "equatorial_normal_gravity", None)
            gp = it.getattr(obj, "polar_normal_gravity", None)
            dom = {"a": (1e5, 1e8), "f": (1e-6, 4e-5) if ineq else (1e-3, 0.2), "GM": (1e12, 1e15), "w": (1e-6, 1e-5)}
            return eq(2 * ge / a + gp / b, 3 * GM / (a * a * b) - 2 * w * w, "2ge/a + gp/b", domain=dom)
        if ineq:
            # only meaningful if the code has inequality-guarded arms at all
            probe = Interp(prog, oracle=lambda c, i: (seen_ineq.append(c) or False) if c.op in ("<", ">", "<=", ">=") else None)
            o, *_ = ellipsoid(probe)
            try:
                probe.getattr(o, "equatorial_normal_gravity", None)
                probe.getattr(o, "polar_normal_gravity", None)
            except Exception:
                pass
            if not seen_ineq:
                chk.record("PIZZETTI", GEO + "::ReferenceEllipsoid::" + label, "no inequality-guarded arm exists")
                continue
        chk.ob("PIZZETTI", GEO + "::ReferenceEllipsoid::" + label, "2 ge/a + gp/b == 3 GM/(a^2 b) - 2 w^2 [%s]" % label, law,
               module=GEO, function="ReferenceEllipsoid.equatorial_normal_gravity/polar_normal_gravity", construct="Pizzetti [%s]" % label, line=fe.node.lineno)


def limit_arm(chk, prog):
    """LIMIT: the f == 0 arms of equatorial_/polar_normal_gravity are the limits of the general arm: evaluating the two closed forms the
    interpreter extracts (general arm at f = 1e-2 and 1e-3, sphere arm at f = 0) the gap must shrink with f (it is O(f) for the limit and
    constant for anything else).  Numerics are done on the extracted expressions, not by running the code."""
    import math
    cls = prog.cls(GEO + "::ReferenceEllipsoid")
    for attr in ("equatorial_normal_gravity", "polar_normal_gravity"):
        fn = cls.lookup(attr)

        def law(attr=attr):
            it = Interp(prog, oracle=lambda c, i: False if c.op in ("<", ">", "<=", ">=") else None)
            obj, a, f, GM, w = ellipsoid(it)
            gen = it.getattr(obj, attr, None)
            it0 = Interp(prog, oracle=lambda c, i: False if c.op in ("<", ">", "<=", ">=") else None)
            obj0, *_ = ellipsoid(it0, 0)
            sph = it0.getattr(obj0, attr, None)
            worst = None
            for av, GMv, wv in ((6378137.0, 3.986004418e14, 7.292115e-5), (1.7e6, 4.9e12, 2.0e-4), (7.0e7, 1.2e17, 1.7e-4)):
                def val_at(fv):
                    vals = {"a": av, "GM": GMv, "w": wv, "f": fv}
                    return lambda at: vals[at.name]
                s0 = P.evalf(sph, val_at(0.0))
                d1 = abs(P.evalf(gen, val_at(1e-2)) - s0) / abs(s0)
                d2 = abs(P.evalf(gen, val_at(1e-3)) - s0) / abs(s0)
                if not (d1 == d1 and d2 == d2):
                    return (None, "closed forms not evaluable at the sample (a=%g)" % av)
                if d2 > 0.3 * d1 and d2 > 1e-10:
                    worst = (av, GMv, wv, d1, d2)
            if worst:
                return (False, "for a=%g, GM=%g, w=%g the general arm differs from the f == 0 arm by %.3e (relative) at f = 1e-2 and still by %.3e at f = 1e-3: "
                               "the sphere arm is not the limit of the general expression (gravity jumps between f = 0 and any small flattening)" % worst, None)
            return True
        chk.ob("LIMIT", fn.ref, "the f == 0 arm of %s is the f -> 0 limit of the general arm" % attr, law, module=GEO, function="ReferenceEllipsoid." + attr,
               construct="sphere arm is the limit of the general arm", line=fn.node.lineno)


def pizzetti_arms(chk, prog):
    """PIZZETTI on every equality-guarded arm the two gravity properties have: each `x == 0` test on a quantity of the ellipsoid (es == 0, m == 0 ...) is
    revisited with the parameter that makes it true set to zero (f = 0, w = 0); the theorem must hold there too, and arms that only raise are exempt"""
    from sa.lib import ob_arms
    cls = prog.cls(GEO + "::ReferenceEllipsoid")
    fe = cls.lookup("equatorial_normal_gravity")

    def body(sub, mk):
        if sub.get("a") == 0 or sub.get("GM") == 0:
            from sa.symeval import Raised
            raise Raised("ValueError", None, None)          # not an ellipsoid: outside the property
        it = mk(prog, oracle=lambda c, i: False if c.op in ("<", ">", "<=", ">=") else None)
        obj, a, f, GM, w = ellipsoid(it, sub=sub)
        b = a * (1 - f)
        ge = it.getattr(obj, "equatorial_normal_gravity", None)
        gp = it.getattr(obj, "polar_normal_gravity", None)
        return eq(2 * ge / a + gp / b, 3 * GM / (a * a * b) - 2 * w * w, "2ge/a + gp/b")
    ob_arms(chk, "PIZZETTI.arms", GEO + "::ReferenceEllipsoid::equality arms", "2 ge/a + gp/b == 3 GM/(a^2 b) - 2 w^2", body, max_arms=8,
            module=GEO, function="ReferenceEllipsoid.equatorial_normal_gravity/polar_normal_gravity", construct="Pizzetti on degenerate arms", line=fe.node.lineno)


def ctor_accepts(chk, prog):
    """CTOR-ACCEPT: the property quantifies over every rotation rate, retrograde bodies (negative w: Venus, Uranus, Pluto in the constants table) included;
    only w^2 enters the model.  No decision path of the constructor(s) that is determined by a comparison on w alone may end in `raise`; the analysis also fixes the
    oracle the other obligations use (a > 0, GM > 0, 0 <= f < 1 answered as in the admissible range)."""
    from sa.lib import enumerate_paths
    from sa.symeval import Raised
    cls = prog.cls(GEO + "::ReferenceEllipsoid")
    f_init = cls.lookup("__init__")
    a, fv, GM, w = P.sym("a"), P.sym("f"), P.sym("GM"), P.sym("w")

    def run(oracle):
        it = Interp(prog, oracle=oracle)
        return it.instantiate(cls, [a, fv, GM, w], {})
    bad = []
    n = 0
    for decisions, res in enumerate_paths(run, ops=("<", ">", "<=", ">="), max_paths=64):
        n += 1
        if isinstance(res, Raised):
            def only_w(c):
                try:
                    names = {P.atom(x).name for side in (c.lhs, c.rhs) if hasattr(side, "atoms") for x in side.atoms() if P.atom(x).kind == "sym"}
                except Exception:
                    return False
                return names == {"w"}
            # the path raises; is the last decision (the one that led into the raise) about w only?
            if decisions and only_w(decisions[-1][0]):
                bad.append((decisions[-1], res))
    site = GEO + "::ReferenceEllipsoid.__init__"
    if bad:
        (c, ans), res = bad[0]
        why = "the constructor raises %s on the path where `%s` is %s: a comparison on the rotation rate alone rejects bodies the property covers (only w^2 enters the model; " \
              "retrograde rotators have w < 0)" % (res.exc_name, c, ans)
        chk.record("CTOR-ACCEPT", site, "no rejection decided by the sign of w", verdict="VIOLATION", detail=why)
        chk.finding("CTOR-ACCEPT", GEO, "ReferenceEllipsoid.__init__", "rejection decided by a comparison on w", why, line=f_init.node.lineno)
    else:
        chk.record("CTOR-ACCEPT", site, "none of the %d decision paths of the constructor raises because of a comparison on w alone" % n)


def somigliana(chk, prog):
    cls = prog.cls(GEO + "::ReferenceEllipsoid")
    fn = cls.lookup("normal_gravity")
    chk.touch(fn)
    it = Interp(prog, oracle=lambda c, i: False if c.op in ("<", ">", "<=", ">=") else None)    # general (not small-f) regime
    obj, a, f, GM, w = ellipsoid(it)
    P.declare_positive(1 - f)
    P.declare_positive(a)
    ge = lambda: it.getattr(obj, "equatorial_normal_gravity", None)
    gp = lambda: it.getattr(obj, "polar_normal_gravity", None)
    kw = dict(module=GEO, function="ReferenceEllipsoid.normal_gravity", line=fn.node.lineno)
    chk.ob("SOMIGLIANA.equator", fn.ref, "normal_gravity(0) == ge", lambda: eq(it.run(fn, [P.const(0)], self_obj=obj), ge(), "g(0)"), construct="g(0) == ge", **kw)
    chk.ob("SOMIGLIANA.pole", fn.ref, "normal_gravity(+/-90) == gp",
           lambda: all_of(eq(it.run(fn, [P.const(90)], self_obj=obj), gp(), "g(90)"), eq(it.run(fn, [P.const(-90)], self_obj=obj), gp(), "g(-90)")), construct="g(90) == gp", **kw)
    # the sphere (f == 0 exactly, still rotating): whatever equality-guarded arm the code takes for e^2 == 0, the surface values at the equator and at the poles
    # are still ge and gp (which differ on a rotating sphere: gp - ge = w^2 a (1 + ...))
    def sphere():
        its = Interp(prog, oracle=lambda c, i: False if c.op in ("<", ">", "<=", ">=") else None)
        o0, *_ = ellipsoid(its, f=0)
        ge0, gp0 = its.getattr(o0, "equatorial_normal_gravity", None), its.getattr(o0, "polar_normal_gravity", None)
        return all_of(eq(its.run(fn, [P.const(0)], self_obj=o0), ge0, "g(0) on the sphere"), eq(its.run(fn, [P.const(90)], self_obj=o0), gp0, "g(90) on the sphere"),
                      eq(its.run(fn, [P.const(-90)], self_obj=o0), gp0, "g(-90) on the sphere"))
    chk.ob("SOMIGLIANA.sphere", fn.ref + "::f == 0", "on a rotating sphere normal_gravity(0) == ge and normal_gravity(+/-90) == gp", sphere, construct="g(0), g(90) on the sphere", **kw)
    lat, h = P.sym("lat"), P.sym("h")
    chk.ob("SOMIGLIANA.parity", fn.ref, "normal_gravity(-lat, h) == normal_gravity(lat, h)",
           lambda: all_of(eq(it.run(fn, [-lat], self_obj=obj), it.run(fn, [lat], self_obj=obj), "g(-lat)"),
                          eq(it.run(fn, [-lat, h], self_obj=obj), it.run(fn, [lat, h], self_obj=obj), "g(-lat,h)")), construct="parity in latitude", **kw)

    def height():
        g0 = it.run(fn, [lat], self_obj=obj)
        gh = it.run(fn, [lat, h], self_obj=obj)
        from sa.lib import DEG2RAD_of
        D = DEG2RAD_of(it, prog.module(GEO))
        s2 = P.sin(lat * D) ** 2
        b = a * (1 - f)
        m = w * w * a * a * b / GM
        fac = 1 - 2 * h * (1 + f + m - 2 * f * s2) / a + 3 * h * h / (a * a)
        return eq(gh, g0 * fac, "g(lat,h)")
    chk.ob("HEIGHT.formula", fn.ref, "g(lat,h) == g(lat,0) * (1 - 2h(1+f+m-2f sin^2)/a + 3h^2/a^2)", height, construct="free-air factor", **kw)
    # special latitudes: exact 0 / +-90 take whatever equality-guarded arm the code has; the height must still be applied there
    def special():
        cls_ = prog.cls(GEO + "::ReferenceEllipsoid")
        ge_s, gp_s = P.sym("ge"), P.sym("gp")
        icpt = {cls_.lookup("equatorial_normal_gravity").ref: lambda it_, a_, k_: ge_s, cls_.lookup("polar_normal_gravity").ref: lambda it_, a_, k_: gp_s}
        itg = Interp(prog, oracle=lambda c, i: False if c.op in ("<", ">", "<=", ">=") else None, intercepts=icpt)
        og, *_ = ellipsoid(itg)
        g_gen = itg.run(fn, [lat, h], self_obj=og)
        outs = []
        for cval in (0, 90, -90):
            its = Interp(prog, oracle=lambda c, i: False if c.op in ("<", ">", "<=", ">=") else None, intercepts=icpt)
            os_, *_ = ellipsoid(its)
            got = its.run(fn, [P.const(cval), h], self_obj=os_)
            outs.append(eq(got, g_gen.subs({"lat": P.const(cval)}), "g(%d, h)" % cval))
        return all_of(*outs)
    chk.ob("HEIGHT.special", fn.ref, "at latitude exactly 0 and +-90 the height-dependent closed form is the general one evaluated there", special,
           construct="height at special latitudes", **kw)
    # regime switches on the height: every inequality-guarded arm of normal_gravity must return the same closed form
    seen = []
    probe = Interp(prog, oracle=lambda c, i: (seen.append(c) or False) if (c.op in ("<", ">", "<=", ">=") and i.func_stack and i.func_stack[-1].name == "normal_gravity") else (False if c.op in ("<", ">", "<=", ">=") else None))
    try:
        o2, *_ = ellipsoid(probe)
        probe.run(fn, [lat, h], self_obj=o2)
    except Exception:
        pass
    if seen:
        def height_arm():
            # ge and gp are kept as symbols (their closed forms are checked by PIZZETTI/LIMIT): the surface value then stays small
            cls_ = prog.cls(GEO + "::ReferenceEllipsoid")
            ge_s, gp_s = P.sym("ge"), P.sym("gp")
            icpt = {cls_.lookup("equatorial_normal_gravity").ref: lambda it_, a_, k_: ge_s, cls_.lookup("polar_normal_gravity").ref: lambda it_, a_, k_: gp_s}
            in_ng = lambda i: bool(i.func_stack and i.func_stack[-1].name == "normal_gravity")
            it2 = Interp(prog, oracle=lambda c, i: (True if in_ng(i) else False) if c.op in ("<", ">", "<=", ">=") else None, intercepts=icpt)
            it0 = Interp(prog, oracle=lambda c, i: False if c.op in ("<", ">", "<=", ">=") else None, intercepts=icpt)
            o3, a3, f3, GM3, w3 = ellipsoid(it2)
            o0, *_ = ellipsoid(it0)
            from sa.lib import DEG2RAD_of
            D = DEG2RAD_of(it2, prog.module(GEO))
            g_gen = it0.run(fn, [lat, h], self_obj=o0)          # the closed form checked by HEIGHT.formula above
            g_arm = it2.run(fn, [lat, h], self_obj=o3)
            return eq(g_arm, g_gen, "g(lat,h) on the arm taken when %s" % (seen[0],))
        chk.ob("HEIGHT.formula", fn.ref + "::inequality arms", "the arm of normal_gravity taken when `%s` returns the same free-air closed form (no jump at the switch)" % (seen[0],),
               height_arm, construct="free-air factor [inequality arm]", **kw)
    else:
        chk.record("HEIGHT.formula", fn.ref + "::inequality arms", "normal_gravity has no inequality-guarded regime switch")
    # interval argument: d/dh of the factor = (-2B + 6h/a)/a with B >= 1 + f + m - 2f >= 1 - f >= 0.8 and 6h/a <= 0.03
    f_max, h_over_a = Fraction(1, 5), Fraction(5, 1000)
    upper = -2 * (1 - f_max) + 6 * h_over_a
    chk.record("HEIGHT.monotone", fn.ref, "d(factor)/dh <= (%s)/a < 0 on f <= 0.2, m >= 0, h <= 0.005a" % upper, verdict="HOLDS" if upper < 0 else "VIOLATION")


DECIDED_MEMBERS = {"normal_gravity", "equatorial_normal_gravity", "polar_normal_gravity", "normal_gravity_constant", "first_eccentricity_squared",
                   "second_eccentricity_squared", "linear_eccentricity", "aspect_ratio", "mean_normal_gravity", "b", "a", "f", "gm", "w"}


def inherit_rule(chk, prog):
    """INHERIT: the identities above are decided on ReferenceEllipsoid's own members.  They carry over to a subclass (WGS) only for members it does not
    override.  An override whose result does not depend on the instance at all on some path (a module constant, a cached number) is a finding: the
    property quantifies over every ellipsoid, and a tolerance test (`is_geodetic` is isclose-based) lets neighbouring ellipsoids reach that path.  Any other
    override of a decided member gets no verdict (the closed forms were not re-derived for it)."""
    base = prog.cls(GEO + "::ReferenceEllipsoid")
    decided = {n for n in DECIDED_MEMBERS if n in base.methods or n in base.setters}
    n = 0
    for m in prog.modules.values():
        for c in m.classes.values():
            if c is base or "ReferenceEllipsoid" not in c.base_names:
                continue
            n += 1
            over = sorted(set(c.methods) & decided)
            for name in over:
                g = c.methods[name]
                const_rets = [r for r in ast.walk(g.node) if isinstance(r, ast.Return) and r.value is not None
                              and not any(isinstance(x, ast.Name) and x.id in ("self", "super") for x in ast.walk(r.value))]
                if const_rets:
                    r = const_rets[0]
                    chk.finding("INHERIT", m.rel, g.qname, "%s.%s returns `%s`, independent of the instance" % (c.name, name, ast.unparse(r.value)[:50]),
                                "the override returns a value that does not depend on the ellipsoid's own parameters on the path guarded by `%s`: every ellipsoid reaching it "
                                "(a tolerance test lets near-by parameter sets through) gets the same number, so Pizzetti / Somigliana no longer hold for it"
                                % (ast.unparse(next((i.test for i in ast.walk(g.node) if isinstance(i, ast.If) and r in i.body), ast.Constant(True)))[:50]), line=r.lineno)
                    chk.record("INHERIT", g.ref, "a decided member is inherited or re-derived", verdict="VIOLATION")
                else:
                    chk.error("INHERIT: %s overrides the decided member %s of ReferenceEllipsoid; the identities were not re-derived for the override (cannot decide)" % (c.name, name))
            if not over:
                chk.record("INHERIT", "%s::%s" % (m.rel, c.name), "subclass of ReferenceEllipsoid overrides none of the decided members (%d checked)" % len(decided))
    if n == 0:
        chk.error("INHERIT: no subclass of ReferenceEllipsoid found (WGS vanished)")


def ellipsoid_gates(chk, prog):
    """GATE.ellipsoid: the closed forms of the decided members hold for EVERY ellipsoid; a tolerance test (np.isclose / np.allclose) on the ellipsoid's own
    parameters inside one of them replaces the closed form on a whole band of ellipsoids (all those within the tolerance of the degenerate one).  Every
    tolerance comparison the interpretations of this run met inside ReferenceEllipsoid / its subclasses is examined; `is_geodetic` (a documented
    closeness test, not an identity) is the one exception."""
    from sa.symeval import Interp as _I
    seen = set()
    n = 0
    for fn_, lhs, rhs, tol, ans in list(_I.GATE_LOG):
        rel, _, q = fn_.partition("::")
        if not q.startswith(("ReferenceEllipsoid.", "WGS.")) or q.endswith(".is_geodetic"):
            continue
        try:
            names = {P.atom(a_).name for a_ in (lhs - rhs).atoms() if P.atom(a_).kind == "sym"}
        except Exception:
            continue
        if not names & {"a", "f", "GM", "w"}:
            continue
        key = (fn_, str(lhs)[:60], str(rhs)[:30])
        if key in seen:
            continue
        seen.add(key)
        n += 1
        why = ("%s compares `%s` with `%s` through a tolerance test (rtol=%g, atol=%g): for every ellipsoid inside that tolerance (e.g. flattenings up to ~1e-5) the "
               "short-cut behind it replaces the closed form, so the identities relating e'^2, E, ge, gp ... to a, f, GM, w fail there" % (q, str(lhs)[:40], str(rhs)[:30], tol[0], tol[1]))
        chk.record("GATE.ellipsoid", "%s::isclose(%s, %s)" % (fn_, str(lhs)[:40], str(rhs)[:20]), "no tolerance gate on the ellipsoid's parameters in a decided member", verdict="VIOLATION", detail=why)
        chk.finding("GATE.ellipsoid", rel, q, "tolerance gate on the ellipsoid's parameters", why)
    if n == 0:
        chk.record("GATE.ellipsoid", GEO + "::ReferenceEllipsoid", "no tolerance comparison on a, f, GM, w was met inside the decided members (%d comparisons logged in this run)" % len(_I.GATE_LOG))


def shared(chk, prog):
    from props.c19 import shared_state
    shared_state(chk, prog, Alias(prog), modules={GEO, "ahrs/utils/wgs84.py"})


def canaries(chk, prog):
    from sa.report import Check

    def wrong_den(tree):
        for n in ast.walk(tree):
            if isinstance(n, ast.FunctionDef) and n.name == "polar_normal_gravity":
                hit = False
                for r in ast.walk(n):          # every arm (general and sphere), wherever it sits
                    if isinstance(r, ast.Return) and isinstance(r.value, ast.BinOp) and isinstance(r.value.op, ast.Div):
                        r.value.right = ast.parse("self.a*self.b").body[0].value
                        hit = True
                return hit
        return False
    def cached_override(tree):
        for n in ast.walk(tree):
            if isinstance(n, ast.ClassDef) and n.name == "WGS":
                n.body.append(ast.parse("@property\ndef polar_normal_gravity(self):\n    if self.is_geodetic:\n        return 9.8321849379\n    return super().polar_normal_gravity").body[0])
                return True
        return False
    try:
        p3 = prog.mutated("ahrs/utils/wgs84.py", cached_override)
        sub = Check("C16", chk.tier, p3, quiet=True)
        inherit_rule(sub, p3)
        chk.canary("WGS overrides polar_normal_gravity with a stored number", any(f.rule == "INHERIT" for f in sub.findings), "%d findings" % len(sub.findings))
    except Exception as e:
        chk.canary("WGS overrides polar_normal_gravity with a stored number", False, "crashed: %s: %s" % (type(e).__name__, e))
    try:
        p2 = prog.mutated(GEO, wrong_den)
        sub = Check("C16", chk.tier, p2, quiet=True)
        pizzetti(sub, p2)
        chk.canary("polar gravity divided by a*b instead of a^2", any(f.rule == "PIZZETTI" for f in sub.findings), "%d findings" % len(sub.findings))
    except Exception as e:
        chk.canary("polar gravity divided by a*b", False, "crashed: %s: %s" % (type(e).__name__, e))


def run(chk, prog, tier):
    ctor_accepts(chk, prog)
    derived(chk, prog)
    pizzetti(chk, prog)
    pizzetti_arms(chk, prog)
    somigliana(chk, prog)
    limit_arm(chk, prog)
    shared(chk, prog)
    inherit_rule(chk, prog)
    chk.require_count("INHERIT", 1)
    ellipsoid_gates(chk, prog)
    chk.require_count("PIZZETTI", 3)
    chk.require_count("DERIVED", 4)
    canaries(chk, prog)
    return __doc__
