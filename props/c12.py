"""C12 — SLERP follows the shortest geodesic at constant speed; NaN gaps are filled along it.

Decided:
 TWIN.slerp   (AVN) quaternion.slerp and orientation.slerp return identical expressions on all four arms
              (sign flip x LERP/SLERP) for symbolic unit endpoints and weights;
 SLERP.unit / .speed / .ends (AVN, unit p, q, d = p.q): |s0 p + s1 q|^2 == 1, p.(s0 p + s1 q) == cos(t theta0),
              weight 0 -> p, weight 1 -> q;
 SLERP.flip   slerp(p, -q) evaluated on the sign-flip arm == slerp(p, q) on the no-flip arm (so the stored dot product is
              updated together with q, the path is the minor arc and q -> -q is a no-op);
 LERP         the LERP arm is normalised (rows of unit norm) and is selected by comparing the dot product with the
              ``threshold`` parameter;
 NANFILL      in slerp_nan the written slice is [i0, i1], the neighbours are rows i0-1 and i1+1, and the number of
              interior weights equals the number of rows written (integer arithmetic on the extracted index expressions);
              the output base copy and the neighbours are read from the same (jump-corrected) state of the array;
              get_nan_intervals returns the inclusive first/last index of each run;
 TWIN.jumps   remove_jumps and q_correct value-number to the same jump indices and negate the same slices.
Not decided: rounding at the LERP/SLERP switch, leading/trailing NaN runs (outside the quantifier).
Added after refactoring round 3 (DESIGN.md 6.9):
 NANFILL.empty  run[0] of np.split(<NaN indices>) is reached only under a test that some NaN index exists (np.split of an empty array yields one empty run,
            so a gap-free array used to raise IndexError: fixed in /repo, 3ec79bf).
Added after seeding rounds 5 and 6 and refactoring round 4 (DESIGN.md 6.10-6.12):
 NANFILL.mask / .options / .sample and TWIN.jumps.sample  gap filling and sign-jump removal decided by interpretation with recorders / on sign patterns.
"""
import ast
import numpy as np
from sa import poly as P
from sa.facts import Facts
from sa.model import stmt_text
from sa.symeval import Interp, Env, sym_vec, to_obj, unit_syms
from sa.lib import eq, all_of, QUAT, ORI

CORE = "ahrs/utils/core.py"


def dot(a, b):
    t = P.ZERO
    for x, y in zip(a, b):
        t = t + x * y
    return t


def run_slerp(prog, ref, p, q, t_array, thr, flip, lerp, log=None):
    def oracle(c, it):
        if c.op == "<":
            return flip
        if c.op == ">":
            if log is not None:
                log.append(c)
            return lerp
        return None
    it = Interp(prog, oracle=oracle)
    return to_obj(it.run(prog.func(ref), [p.copy(), q.copy(), t_array.copy(), thr]))


def slerp_rules(chk, prog):
    p, q = unit_syms("sp"), unit_syms("sq")
    t = P.sym("t")
    thr = P.sym("threshold")
    tarr = np.array([P.ZERO, t, P.ONE], dtype=object)
    A, B = QUAT + "::slerp", ORI + "::slerp"
    for r in (A, B):
        chk.touch(prog.func(r))
    for flip in (False, True):
        for lerp in (False, True):
            arm = "%s, %s" % ("sign flip" if flip else "no flip", "LERP" if lerp else "SLERP")
            chk.ob("TWIN.slerp", "%s == %s [%s]" % (A, B, arm), "both copies of slerp agree [%s]" % arm,
                   lambda flip=flip, lerp=lerp: eq(run_slerp(prog, B, p, q, tarr, thr, flip, lerp), run_slerp(prog, A, p, q, tarr, thr, flip, lerp), "orientation.slerp"),
                   module=ORI, function="slerp", construct="orientation.slerp == quaternion.slerp [%s]" % arm, line=prog.func(B).node.lineno)
    d = dot(p, q)
    for ref in (A, B):
        f = prog.func(ref)
        kw = dict(module=f.module.rel, function=f.qname, line=f.node.lineno)
        R = lambda ref=ref: run_slerp(prog, ref, p, q, tarr, thr, False, False)
        chk.ob("SLERP.unit", ref, "|slerp(p,q,t)|^2 == 1", lambda R=R: eq(dot(R()[1], R()[1]), P.ONE, "|slerp|^2"), construct="unit norm on the SLERP arm", **kw)
        chk.ob("SLERP.speed", ref, "p . slerp(p,q,t) == cos(t arccos(p.q))",
               lambda R=R: eq(dot(p, R()[1]), P.cos(P.fn("arccos", d) * t), "p.slerp"), construct="constant angular speed", **kw)
        chk.ob("SLERP.ends", ref, "t=0 -> p, t=1 -> q", lambda R=R: all_of(eq(R()[0], p, "slerp(t=0)"), eq(R()[2], q, "slerp(t=1)")), construct="end points", **kw)
        chk.ob("SLERP.flip", ref, "slerp(p,-q) on the flip arm == slerp(p,q) on the no-flip arm",
               lambda ref=ref, R=R: eq(run_slerp(prog, ref, p, -q, tarr, thr, True, False), R(), "slerp(p,-q)"), construct="sign flip updates q and the dot product together", **kw)

        def lerp_law(ref=ref):
            log = []
            out = run_slerp(prog, ref, p, q, tarr, thr, False, True, log)
            norms = all_of(*[eq(dot(row, row), P.ONE, "|lerp row %d|^2" % i) for i, row in enumerate(out)])
            thr_ok = bool(log) and all(c.rhs.same(thr) and c.lhs.same(d) for c in log)
            if not thr_ok:
                return (False, "the LERP/SLERP switch does not compare the dot product with the threshold parameter (compares %s)" % (log[0] if log else None))
            return norms
        chk.ob("LERP", ref, "LERP arm normalised and selected by dot > threshold", lerp_law, construct="LERP arm", **kw)
        chk.ob("LERP.flip", ref, "lerp(p,-q) on the flip arm == lerp(p,q) on the no-flip arm",
               lambda ref=ref: eq(run_slerp(prog, ref, p, -q, tarr, thr, True, True), run_slerp(prog, ref, p, q, tarr, thr, False, True), "lerp(p,-q)"),
               construct="sign flip on the LERP arm", **kw)


def nanfill(chk, prog):
    f = prog.func(QUAT + "::QuaternionArray.slerp_nan")
    chk.touch(f)
    # locate the store  X[a:b] = slerp(P, Q, t_array=np.linspace(0, 1, n)[1:-1])
    target = call = None
    for n in ast.walk(f.node):
        if isinstance(n, ast.Assign) and isinstance(n.value, ast.Call) and ast.unparse(n.value.func) == "slerp" and isinstance(n.targets[0], ast.Subscript):
            target, call = n.targets[0], n.value
    if target is None:
        chk.error("NANFILL: the slerp store in slerp_nan was not found (anchor changed)")
        return
    it = Interp(prog)
    i0, i1 = P.sym("i0"), P.sym("i1")
    env = Env(f.module, f)
    kw = dict(module=QUAT, function=f.qname, line=call.lineno)
    # the loop over the NaN intervals that contains the store: bind its variable(s) to the symbolic interval and run the statements before the store
    loop = next((n for n in ast.walk(f.node) if isinstance(n, ast.For) and any(x is target for s_ in n.body for x in ast.walk(s_))), None)
    if loop is None:
        chk.error("NANFILL: the slerp store of slerp_nan is not inside a loop over the NaN intervals (anchor changed)")
        return
    if isinstance(loop.target, ast.Name):
        env.vars[loop.target.id] = (i0, i1)
    elif isinstance(loop.target, (ast.Tuple, ast.List)) and len(loop.target.elts) == 2 and all(isinstance(e, ast.Name) for e in loop.target.elts):
        env.vars[loop.target.elts[0].id], env.vars[loop.target.elts[1].id] = i0, i1
    else:
        chk.error("NANFILL: loop variable of the interval loop is neither a name nor a pair of names")
        return
    for s_ in loop.body:
        if any(x is target for x in ast.walk(s_)):
            break
        try:
            it.exec_block([s_], env)          # hoisted locals (weights, neighbours ...) the store refers to
        except Exception:
            pass

    def law():
        sl = target.slice
        if not isinstance(sl, ast.Slice):
            return (False, "gap is not written as a slice")
        lo, hi = it.eval(sl.lower, env), it.eval(sl.upper, env)
        args = list(call.args)
        kws = {k.arg: k.value for k in call.keywords}
        callee = prog.func(QUAT + "::slerp")
        names = callee.params
        bound = dict(zip(names, args))
        bound.update(kws)
        pa, qa, ta = bound.get(names[0]), bound.get(names[1]), bound.get(names[2]) if len(names) > 2 else kws.get("t_array")
        if pa is None or qa is None:
            return (None, "endpoints of the slerp call not found")
        if isinstance(ta, ast.Name):         # weights hoisted into a local of the loop body / of the method
            for d_ in ast.walk(f.node):
                if isinstance(d_, ast.Assign) and isinstance(d_.targets[0], ast.Name) and d_.targets[0].id == ta.id:
                    ta = d_.value
        if isinstance(pa, ast.Name) or isinstance(qa, ast.Name):
            defs = {d_.targets[0].id: d_.value for d_ in ast.walk(f.node) if isinstance(d_, ast.Assign) and isinstance(d_.targets[0], ast.Name)}
            pa = defs.get(pa.id, pa) if isinstance(pa, ast.Name) else pa
            qa = defs.get(qa.id, qa) if isinstance(qa, ast.Name) else qa
        pi = it.eval(pa.slice, env) if isinstance(pa, ast.Subscript) else None
        qi = it.eval(qa.slice, env) if isinstance(qa, ast.Subscript) else None
        # t_array = np.linspace(0, 1, n)[1:-1]
        if not (isinstance(ta, ast.Subscript) and isinstance(ta.value, ast.Call) and ast.unparse(ta.value.func) == "np.linspace"
                and ast.unparse(ta.slice) == "1:-1" and ast.unparse(ta.value.args[0]) == "0" and ast.unparse(ta.value.args[1]) == "1"):
            return (None, "weights are not np.linspace(0, 1, n)[1:-1]")
        n = it.eval(ta.value.args[2], env)
        return all_of(eq(lo, i0, "slice start"), eq(hi, i1 + 1, "slice stop"), eq(pi, i0 - 1, "left neighbour"), eq(qi, i1 + 1, "right neighbour"),
                      eq(n - 2, hi - lo, "number of interior weights vs rows written"))
    chk.ob("NANFILL.index", f.ref, "slice [i0, i1], neighbours i0-1 / i1+1, len(weights) == rows written", law, construct="gap indices", **kw)
    # the gaps are filled by slerp() as the property describes it: with slerp's own options.  An option passed on must evaluate to slerp's default
    # (a constant equal to it, or a parameter of slerp_nan whose default equals it)
    sl = prog.func(QUAT + "::slerp")
    sl_params = sl.params
    sl_defaults = dict(zip(sl_params[len(sl_params) - len(sl.node.args.defaults):], sl.node.args.defaults))
    own_defaults = dict(zip(f.params[len(f.params) - len(f.node.args.defaults):], f.node.args.defaults))
    passed = {k.arg: k.value for k in call.keywords if k.arg}
    for p_, a_ in zip(sl_params, call.args):
        passed[p_] = a_
    for opt, dflt in sl_defaults.items():
        if opt not in passed:
            chk.record("NANFILL.options", "%s::%s" % (f.ref, opt), "slerp's own default %s=%s is used" % (opt, ast.unparse(dflt)))
            continue
        v = passed[opt]
        eff = own_defaults.get(v.id) if isinstance(v, ast.Name) and v.id in own_defaults else (v if isinstance(v, ast.Constant) else None)
        if eff is None and isinstance(v, ast.Name):
            # a module-level constant
            for s_ in f.module.tree.body:
                if isinstance(s_, ast.Assign) and len(s_.targets) == 1 and isinstance(s_.targets[0], ast.Name) and s_.targets[0].id == v.id and isinstance(s_.value, ast.Constant):
                    eff = s_.value
        site = "%s::%s" % (f.ref, opt)
        if eff is None:
            chk.error("NANFILL.options: slerp_nan passes %s=%s to slerp; its value could not be resolved to a constant (cannot decide)" % (opt, ast.unparse(v)))
        elif isinstance(eff, ast.Constant) and isinstance(dflt, ast.Constant) and eff.value == dflt.value:
            chk.record("NANFILL.options", site, "option %s forwarded with slerp's own default %s" % (opt, ast.unparse(dflt)))
        else:
            why = ("slerp_nan calls slerp with %s=%s where slerp itself uses %s: the gaps are not filled with the interpolants slerp() gives for the same neighbours "
                   "(with a threshold of 1 neighbours holding the same attitude take the spherical arm with sin(theta) = 0, i.e. 0/0)" % (opt, ast.unparse(eff), ast.unparse(dflt)))
            chk.record("NANFILL.options", site, "slerp's options are used as slerp defines them", verdict="VIOLATION", detail=why)
            chk.finding("NANFILL.options", QUAT, f.qname, "slerp(..., %s=%s) in slerp_nan" % (opt, ast.unparse(eff)), why, line=call.lineno)
    # same state of the array for the output base and the neighbours
    seen = []

    def on_call(fa, node, st):
        t = ast.unparse(node.func)
        if t == "self.remove_jumps":
            st["s:array"] = fa.fresh("jumps_removed", node)
        if t == "slerp" and not seen:
            base = None
            for k, v in st.items():
                pass
            seen.append((st.get("v:interpolated_quaternions"), fa.vn(ast.parse("self.array").body[0].value, st)))
    Facts(f, prog, callbacks={"call": on_call}).analyse()
    if not seen:
        chk.error("NANFILL: slerp call not reached in slerp_nan")
    else:
        out_base, arr = seen[0]
        if out_base == arr:
            chk.record("NANFILL.state", f.ref, "output base copy and neighbour rows come from the same (jump-corrected) array state")
        else:
            chk.record("NANFILL.state", f.ref, "output base copy and neighbour rows come from the same array state", verdict="VIOLATION")
            chk.finding("NANFILL.state", QUAT, f.qname, "output base copied before remove_jumps()",
                        "the rows kept in the output were copied from the array before its sign jumps were removed, while the interpolants are built from the corrected neighbours: jumps reappear around filled gaps",
                        line=call.lineno)
    # only NaN intervals are written: the loop iterates over get_nan_intervals(self.array)
    def is_gni(c):
        return isinstance(c, ast.Call) and ast.unparse(c.func).split(".")[-1] == "get_nan_intervals"
    bound = {t.id for n in ast.walk(f.node) if isinstance(n, ast.Assign) and is_gni(n.value) for t in n.targets if isinstance(t, ast.Name)}
    fill_loops = [n for n in ast.walk(f.node) if isinstance(n, ast.For) and (is_gni(n.iter) or (isinstance(n.iter, ast.Name) and n.iter.id in bound))]
    if fill_loops:
        chk.record("NANFILL.loop", f.ref, "only the intervals returned by get_nan_intervals are written")
    else:
        chk.error("NANFILL: loop over get_nan_intervals(self.array) not recognised")
    g = prog.func(CORE + "::get_nan_intervals")
    chk.touch(g)
    # which rows count as gaps: a row with ANY NaN component (it cannot serve as a neighbour: slerp would spread its NaN over the adjacent gap)
    reds = []

    def has_isnan(e, derived):
        return any((isinstance(x, ast.Call) and ast.unparse(x.func).split(".")[-1] == "isnan") or (isinstance(x, ast.Name) and x.id in derived) for x in ast.walk(e))
    derived = set()
    for _ in range(3):           # locals holding the element-wise mask
        for s_ in ast.walk(g.node):
            if isinstance(s_, ast.Assign) and len(s_.targets) == 1 and isinstance(s_.targets[0], ast.Name) and has_isnan(s_.value, derived):
                derived.add(s_.targets[0].id)
    for n_ in ast.walk(g.node):
        if isinstance(n_, ast.Call):
            nm = ast.unparse(n_.func).split(".")[-1]
            row_wise = any(k.arg == "axis" for k in n_.keywords) or (len(n_.args) >= 2 and ast.unparse(n_.func).startswith(("np.", "numpy.")))
            if nm in ("any", "all", "sum", "count_nonzero", "prod", "min", "max") and row_wise:
                operands = list(n_.args[:1]) if ast.unparse(n_.func).startswith(("np.", "numpy.")) else ([n_.func.value] if isinstance(n_.func, ast.Attribute) else [])
                if any(has_isnan(a_, derived) for a_ in operands):
                    reds.append((nm, n_))
    if not reds:
        chk.error("NANFILL.mask: no reduction of np.isnan(data) over the components of a row found in get_nan_intervals (cannot decide which rows count as gaps)")
    for nm, n_ in reds:
        site = g.ref + "::" + ast.unparse(n_)[:50]
        if nm == "any":
            chk.record("NANFILL.mask", site, "a row counts as a gap when any of its components is NaN")
        elif nm == "all":
            why = "a row is flagged only when ALL its components are NaN: a partially-NaN row is left in place and used as a neighbour, and slerp spreads its NaN over the adjacent gap"
            chk.record("NANFILL.mask", site, "a row counts as a gap when any of its components is NaN", verdict="VIOLATION", detail=why)
            chk.finding("NANFILL.mask", CORE, "get_nan_intervals", "row mask %s" % ast.unparse(n_)[:50], why, line=n_.lineno)
        else:
            chk.error("NANFILL.mask: rows are flagged through %s(isnan(...)) (cannot decide)" % nm)
    # value-number form of the split:  np.split(I, 1 + np.where(np.diff(I) > 1)[0])  with  I = np.where(<nan mask>)[0]
    import re

    splits = []

    def on_call(fa, node, st):
        if fa.np_name(node.func) == "split" and len(node.args) == 2:
            splits.append((node, fa.vn(node.args[0], st), fa.vn(node.args[1], st), fa.vn(node, st)))
    rets = []          # (node, vn of the iterated runs, loop target name, element expression)
    appended = {}
    site_facts = {}

    def on_for(fa, node, st):
        # for run in <runs>: out.append((run[0], run[-1]))
        if len(node.body) == 1 and isinstance(node.body[0], ast.Expr) and isinstance(node.body[0].value, ast.Call) and not node.orelse:
            c_ = node.body[0].value
            if isinstance(c_.func, ast.Attribute) and c_.func.attr == "append" and isinstance(c_.func.value, ast.Name) and len(c_.args) == 1 and isinstance(node.target, ast.Name):
                appended[c_.func.value.id] = (node, fa.vn(node.iter, st), node.target.id, c_.args[0])
                site_facts[id(node)] = st["F"]

    class R(Facts):
        def s_Return(self2, s_, st):
            v_ = s_.value
            if isinstance(v_, ast.ListComp) and len(v_.generators) == 1 and not v_.generators[0].ifs:
                gen_ = v_.generators[0]
                rets.append((s_, self2.vn(gen_.iter, st), gen_.target.id if isinstance(gen_.target, ast.Name) else None, v_.elt))
                site_facts[id(s_)] = st["F"]
            elif isinstance(v_, ast.Name) and v_.id in appended:
                rets.append(appended[v_.id])
            return super().s_Return(s_, st)
    R(g, prog, callbacks={"call": on_call, "for": on_for}).analyse()
    if len(splits) != 1 or not rets:
        chk.error("NANFILL.intervals: get_nan_intervals is not in the recognised split-on-gaps form (cannot decide): %d np.split calls, %d list-comprehension returns" % (len(splits), len(rets)))
        return
    node, a_vn, b_vn, s_vn = splits[0]
    why = None
    if not (a_vn.startswith("np.where(") and a_vn.endswith(")[c:0]")):
        chk.error("NANFILL.intervals: the array split by get_nan_intervals is not np.where(<mask>)[0] (cannot decide): " + a_vn[:80])
        return
    m = re.fullmatch(r"(?:Add\(c:(-?\d+),)?np\.where\(cmp\(np\.diff\((.*)\);(\w+) c:(-?\d+)\)\)\[c:0\]\)?", b_vn)
    if not m or m.group(2) != a_vn:
        chk.error("NANFILL.intervals: split points of get_nan_intervals are not of the form where(diff(I) > 1)[0] + 1 (cannot decide): " + b_vn[:100])
        return
    shift, op, thr = int(m.group(1) or 0), m.group(3), int(m.group(4))
    if shift != 1:
        why = "split points are where(diff(I) ...)[0] + %d, not + 1: each run is cut one row off its true end" % shift
    elif (op, thr) not in (("Gt", 1), ("GtE", 2), ("NotEq", 1)):
        why = "runs are split where diff(I) %s %d, not where the index gap exceeds 1" % (op, thr)
    for r_, it_vn, tname, e in rets:
        if it_vn != s_vn:
            why = why or "the returned intervals iterate over something other than the split runs"

        def idx(x, tname=tname):
            if isinstance(x, ast.Subscript) and isinstance(x.value, ast.Name) and x.value.id == tname:
                try:
                    return ast.literal_eval(x.slice)
                except Exception:
                    return None
            return None
        if not (isinstance(e, ast.Tuple) and len(e.elts) == 2 and idx(e.elts[0]) == 0 and idx(e.elts[1]) == -1):
            why = why or "each interval is `%s`, not (run[0], run[-1])" % ast.unparse(e)
    # np.split never returns an empty list: splitting an EMPTY index array gives one empty run, whose [0] raises.  The element access must be
    # dominated by a test that some NaN index exists (len / size of the index array, or any() of the mask).
    mask_vn = a_vn[len("np.where("):-len(")[c:0]")]
    want = {("NZ", "len(%s)" % a_vn), ("NZ", a_vn + ".size"), ("NZ", a_vn + ".shape[c:0]"), ("ANY", mask_vn)}
    for r_, it_vn, tname, e in rets:
        site = g.ref + "::no-gap input"
        if site_facts.get(id(r_), frozenset()) & want:
            chk.record("NANFILL.empty", site, "run[0] is reached only when some NaN index exists (np.split of an empty index array yields one empty run)")
        else:
            chk.record("NANFILL.empty", site, "run[0] is reached only when some NaN index exists", verdict="VIOLATION")
            chk.finding("NANFILL.empty", CORE, "get_nan_intervals", "run[0] of np.split(<indices>) without an emptiness test of the indices",
                        "np.split of an empty index array returns [array([])], never []: for data without NaN the element access run[0] raises IndexError, so slerp_nan() "
                        "on a gap-free array raises instead of leaving the valid rows unchanged (a `len(<split result>) == 0` test can never be true)", line=r_.lineno)
    if why is None:
        chk.record("NANFILL.intervals", g.ref, "returns (first, last) of each run of consecutive NaN rows (split where the index gap exceeds 1)")
    else:
        chk.record("NANFILL.intervals", g.ref, "returns inclusive (first, last) per run", verdict="VIOLATION", detail=why)
        chk.finding("NANFILL.intervals", CORE, "get_nan_intervals", "interval construction", why, line=node.lineno)


def nanfill_sampled(chk, prog, tier="quick"):
    """NANFILL.sample: slerp_nan is interpreted on a symbolic 9-row array whose NaN intervals are given ((1,1) and (3,5): two gaps of different lengths) with slerp
    replaced by a recorder that returns marker rows.  Whatever the code looks like: each gap is filled by ONE slerp call between the rows just before and just
    after it, with the weights k/(n+1), k = 1..n of ITS OWN length n and slerp's own options; the marker rows land exactly on the gap; every other row is untouched."""
    f = prog.func(QUAT + "::QuaternionArray.slerp_nan")
    n_rows = 9
    layouts = [[(1, 1), (3, 5)]]
    if tier == "thorough":
        layouts += [[(2, 4), (6, 6)], [(1, 2), (4, 4), (6, 7)], [(1, 7)], [(3, 3)]]
    for gaps in layouts:
        _nanfill_layout(chk, prog, f, n_rows, gaps)


def _nanfill_layout(chk, prog, f, n_rows, gaps):
    Q = np.empty((n_rows, 4), dtype=object)
    for i in range(n_rows):
        for j, c_ in enumerate("wxyz"):
            Q[i, j] = P.sym("nf%d%s" % (i, c_))

    def law():
        from sa.lib import quat_obj
        calls = []

        def fake_slerp(it_, a, k):
            a = list(a)
            names = ["p", "q", "t_array", "threshold"]
            kw = dict(zip(names, a))
            kw.update(k)
            t = to_obj(kw["t_array"])
            out = np.empty((len(t), 4), dtype=object)
            for r_ in range(len(t)):
                for j_ in range(4):
                    out[r_, j_] = P.sym("fill%d_%d_%d" % (len(calls), r_, j_))
            calls.append((to_obj(kw["p"]), to_obj(kw["q"]), t, kw.get("threshold"), out))
            return out
        it = Interp(prog, intercepts={QUAT + "::slerp": fake_slerp, CORE + "::get_nan_intervals": lambda it_, a, k: list(gaps),
                                      QUAT + "::QuaternionArray.remove_jumps": lambda it_, a, k: None})
        obj = quat_obj(it, Q.copy(), cls="QuaternionArray")
        res = it.run(f, [], {"inplace": False}, self_obj=obj)
        res = to_obj(res)
        if len(calls) != len(gaps):
            return (False, "slerp is called %d times for %d NaN gaps" % (len(calls), len(gaps)), None)
        out = []
        filled = {}
        for k_, ((i0, i1), (p_, q_, t_, thr, rows)) in enumerate(zip(gaps, calls)):
            n_ = i1 - i0 + 1
            out.append(eq(p_, Q[i0 - 1], "first endpoint of gap %s" % ((i0, i1),)))
            out.append(eq(q_, Q[i1 + 1], "second endpoint of gap %s" % ((i0, i1),)))
            tv = [float(x.const()) if isinstance(x, P.Rat) and x.const() is not None else (float(x) if not isinstance(x, P.Rat) else None) for x in np.asarray(t_, dtype=object).flat]
            want = [k2 / (n_ + 1.0) for k2 in range(1, n_ + 1)]
            if None in tv or len(tv) != n_ or any(abs(a_ - b_) > 1e-12 for a_, b_ in zip(tv, want)):
                out.append((False, "the gap %s of %d row(s) is interpolated at the weights %s, expected %s (equal steps between ITS neighbours)" % ((i0, i1), n_, [round(x, 4) if x is not None else x for x in tv], [round(x, 4) for x in want]), None))
            if thr is not None:
                tc = float(thr.const()) if isinstance(thr, P.Rat) and thr.const() is not None else thr
                if tc != 0.9995:
                    out.append((False, "slerp is called with threshold=%s instead of its own default" % (tc,), None))
            for r_ in range(n_):
                filled[i0 + r_] = rows[r_]
        for i in range(n_rows):
            out.append(eq(res[i], filled.get(i, Q[i]), "row %d of the result" % i))
        return all_of(*out)
    chk.ob("NANFILL.sample", f.ref + "::gaps " + ",".join("(%d,%d)" % g_ for g_ in gaps), "each gap is filled by one slerp call between its neighbours with equal-step weights of its own length; other rows untouched", law,
           module=QUAT, function=f.qname, construct="gap filling on a sample layout", line=f.node.lineno)


def jumps_twin(chk, prog, tier="quick"):
    a = prog.func(QUAT + "::QuaternionArray.remove_jumps")
    b = prog.func(ORI + "::q_correct")
    chk.touch(a)
    chk.touch(b)

    from sa.facts import PHI, LOOP_DESC
    import re

    def canon(v, depth=0):
        """expand join names and loop-variable names into what they stand for"""
        def rep(m):
            name = m.group(0)
            if name in PHI and depth < 6:
                return "phi{%s}" % " | ".join(sorted(canon(x, depth + 1) for x in PHI[name]))
            return name
        v = re.sub(r"phi:[0-9a-f]{10}", rep, v)

        def rep2(m):
            name = m.group(0)
            return canon(LOOP_DESC[name], depth + 1) if name in LOOP_DESC and depth < 6 else name
        return re.sub(r"\?iter@\d+#\d+", rep2, v)

    def summarise(f, arr_names):
        info = {"neg": []}

        class G(Facts):
            def s_For(self2, s, st):
                info["iter"] = self2.vn(s.iter, st)
                body_st = dict(st)
                self2.assign_loop_target(s.target, s.iter, body_st)
                for x in s.body:
                    if isinstance(x, ast.AugAssign) and isinstance(x.target, ast.Subscript) and isinstance(x.target.slice, ast.Slice):
                        sl = x.target.slice
                        lo = self2.vn(sl.lower, body_st) if sl.lower is not None else "-"
                        hi = self2.vn(sl.upper, body_st) if sl.upper is not None else "-"
                        info["neg"].append((canon(lo), canon(hi), type(x.op).__name__, self2.vn(x.value, body_st)))
                return super().s_For(s, st)
        G(f, prog).analyse()
        return info
    ia, ib = summarise(a, "self.array"), summarise(b, "q")

    def norm_names(v):
        return v.replace("S:array", "ARR").replace("P:q", "ARR")
    va, vb = norm_names(canon(ia.get("iter") or "")), norm_names(canon(ib.get("iter") or ""))
    na = [tuple(norm_names(x) for x in t) for t in ia["neg"]]
    nb = [tuple(norm_names(x) for x in t) for t in ib["neg"]]
    site = a.ref + " ~ " + b.ref
    if not va or not vb or not na or not nb:
        chk.record("TWIN.jumps", site, "no slice-negating loop over jump pairs in %s; decided by TWIN.jumps.sample" % (a.ref if (not va or not na) else b.ref))
    elif va == vb and na == nb:
        chk.record("TWIN.jumps", site, "same jump pairs and the same slices are negated (identical value numbers)")
    else:
        # different spellings: not a verdict by itself - the sampled interpretation below decides
        chk.record("TWIN.jumps", site, "value numbers of the two copies differ in spelling; decided by TWIN.jumps.sample")
    jumps_sampled(chk, prog, a, b, tier)


JUMP_PATTERNS = [(1, 1, 1, 1, 1, 1), (1, -1, -1, 1, 1, 1), (1, 1, -1, -1, -1, -1), (1, -1, 1, -1, 1, -1), (-1, -1, 1, 1, -1, 1), (1, 1, 1, 1, 1, -1), (-1, 1, 1, 1, 1, 1)]


def jumps_sampled(chk, prog, a, b, tier="quick"):
    """TWIN.jumps.sample: both copies of the sign-jump removal are interpreted on a symbolic 6-row array; every data-dependent test (is the step between two rows
    longer than 1?) is decided as it comes out for a slowly turning sequence multiplied by a given sign pattern.  Along that path the results are exact: they must
    be equal row by row, and equal to the input rows times the running product of the flips (no jump left, same rotations)."""
    import math
    from sa.lib import sample_oracle, quat_obj
    n = 6
    Q = np.empty((n, 4), dtype=object)
    for i in range(n):
        for j, c_ in enumerate("wxyz"):
            Q[i, j] = P.sym("jq%d%s" % (i, c_))
    plan = [(p_, 0.05) for p_ in JUMP_PATTERNS] + [(p_, 0.9) for p_ in JUMP_PATTERNS[:4]]
    if tier == "thorough":
        # every sign pattern of six rows (the first row positive or negative), slowly and fast turning
        import itertools
        every = [tuple(s_) for s_ in itertools.product((1, -1), repeat=n)]
        plan = [(p_, st_) for st_ in (0.05, 0.9) for p_ in every]
    for pat, step in plan:
        # step 0.9 rad per row: a sequence that turns by more than half a turn in total (the last rows are in the opposite hemisphere of the first one
        # although no two consecutive rows are far apart)
        vals = {}
        for i in range(n):
            t = 0.3 + step * i
            base = (math.cos(t / 2), math.sin(t / 2) * 0.36, math.sin(t / 2) * 0.48, math.sin(t / 2) * 0.8)
            for j, c_ in enumerate("wxyz"):
                vals["jq%d%s" % (i, c_)] = pat[i] * base[j]

        want = np.array([[Q[i, j] * (pat[i] * pat[0]) for j in range(4)] for i in range(n)], dtype=object)
        tag = "%s step %.2f" % ("".join("+" if s_ > 0 else "-" for s_ in pat), step)

        def law_a(pat=pat, vals=vals, want=want):
            it = Interp(prog, oracle=sample_oracle(vals))
            obj = quat_obj(it, Q.copy(), cls="QuaternionArray")
            it.run(a, [], self_obj=obj)
            return eq(to_obj(obj.attrs["array"]), want, "remove_jumps: rows times the running sign, pattern %s" % (pat,))

        def law_b(pat=pat, vals=vals, want=want):
            it2 = Interp(prog, oracle=sample_oracle(vals))
            return eq(to_obj(it2.run(b, [Q.copy()])), want, "q_correct: rows times the running sign, pattern %s" % (pat,))
        chk.ob("TWIN.jumps.sample", "%s::pattern %s" % (a.ref, tag), "remove_jumps returns the rows with the sign flips undone (first row kept), sign pattern %s" % (pat,), law_a,
               module=QUAT, function="QuaternionArray.remove_jumps", construct="sign-jump removal on a sample pattern", line=a.node.lineno)
        chk.ob("TWIN.jumps.sample", "%s::pattern %s" % (b.ref, tag), "q_correct returns the rows with the sign flips undone (first row kept), sign pattern %s" % (pat,), law_b,
               module=ORI, function="q_correct", construct="sign-jump removal on a sample pattern", line=b.node.lineno)


def canaries(chk, prog):
    from sa.report import Check

    def drop_dot_update(tree):
        for n in ast.walk(tree):
            if isinstance(n, ast.FunctionDef) and n.name == "slerp":
                for s in ast.walk(n):
                    if isinstance(s, ast.If) and "qdot < 0" in ast.unparse(s.test):
                        s.body = [x for x in s.body if not (isinstance(x, ast.AugAssign) and ast.unparse(x.target) == "qdot")]
                        return True
        return False

    def off_by_one(tree):
        for n in ast.walk(tree):
            if isinstance(n, ast.FunctionDef) and n.name == "slerp_nan":
                for c in ast.walk(n):
                    if isinstance(c, ast.Constant) and c.value == 3:
                        c.value = 2
                        return True
        return False
    def dead_empty_test(tree):
        # the emptiness test moved back onto the split result (never empty)
        for n in ast.walk(tree):
            if isinstance(n, ast.FunctionDef) and n.name == "get_nan_intervals":
                for s in ast.walk(n):
                    if isinstance(s, ast.If) and any(isinstance(b, ast.Return) for b in s.body):
                        s.test = ast.Constant(False)
                        return True
        return False
    for name, rel, tr, fn in (("drop `qdot *= -1` in quaternion.slerp", QUAT, drop_dot_update, slerp_rules), ("interval[1]-interval[0]+3 -> +2", QUAT, off_by_one, nanfill),
                              ("get_nan_intervals: emptiness test of the NaN indices removed", CORE, dead_empty_test, nanfill)):
        try:
            p2 = prog.mutated(rel, tr)
            sub = Check("C12", chk.tier, p2, quiet=True)
            fn(sub, p2)
            chk.canary(name, bool(sub.findings), "%d findings" % len(sub.findings))
        except Exception as e:
            chk.canary(name, False, "crashed: %s: %s" % (type(e).__name__, e))


def run(chk, prog, tier):
    slerp_rules(chk, prog)
    nanfill(chk, prog)
    nanfill_sampled(chk, prog, tier)
    jumps_twin(chk, prog, tier)
    chk.require_count("TWIN.slerp", 4)
    chk.require_count("SLERP.unit", 2)
    chk.require_count("NANFILL.empty", 1)
    canaries(chk, prog)
    return __doc__
