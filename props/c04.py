"""C04 — single-frame estimators recover the attitude exactly from consistent data.

Decided (AVN exact; measurement model  acc = s1 E(q)^T g_ref,  mag = s2 E(q)^T m_ref  for a symbolic unit q, symbolic
references and positive scales s1, s2 that must cancel):
 DAVENPORT  the matrix K handed to the eigen-solver is symmetric and K q^ = (w0 s1 |g|^2 + w1 s2 |m|^2) q^ for q^ in {q, q*};
 QUEST      lambda^4 - (a+b) lambda^2 - c lambda + k == det(K - lambda I) for the K built from QUEST's own B (symbolic B),
            phi_prime == d phi / d lambda, the Newton start w.sum() is a root of phi for consistent data and the returned
            [gamma, Chi] is proportional to q^ there;
 OLEQ/ROLEQ OLEQ.WW == ROLEQ.WW (twin) and W(b, r) q^ == q^ when b is the image of the unit reference r, so R q^ ==
            1/2 (1 + sum a_i) q^: the truth is the dominant direction the power iteration converges to;
 FLAE       W symmetric, W q^ == q^ for consistent data with sum a_i = 1; f_prime == d f / d lambda;
            lambda^4 + t1 lambda^2 + t2 lambda + t3 == det(W - lambda I) (thorough);
 SAAM       for unit a = E(p)[:,2]-image and m in the plane model, the closed form (both copies, see C07) returns a quaternion
            proportional to the documented attitude;
 TRIAD      A v1 == w1/|w1|, A (v1 x v2)/|.| == (w1 x w2)/|.| and A^T A == I, using only |v1| = 1;
 ARM-GUARD  (sign-domain abstract interpretation) in AQUA.estimate each of the two-armed closed forms divides only by
            quantities that are (generically) positive under the arm's own sign condition;
 CACHE-COHERENT no estimator memoises a value derived from its re-assignable reference attributes without invalidation;
 FLOW       constructor options reach every estimate() call (shared with C07).
Not decided: FAMC, FQA, Tilt/e-compass/am2q/acc2q exactness (chains of arctan2, sign, clip with data-dependent branches -
only their twins are compared, C07), convergence of the Newton / power iterations, singular poses.
Added after the seeding rounds (DESIGN.md 6.6-6.8):
 AM2Q / AQUA.tilt / TILT.repr / ECOMPASS / POSE-DIV / OLEQ.matrix  dcm2quat answers in one direction on every decision path; AQUA's tilt fix on both arms;
            Tilt's three representations agree; ecompass is a proper rotation in both frames; no pose-dependent divisor in the singularity-free class;
            one interpreted step of OLEQ multiplies by 1/2 (I + a0 W1 + a1 W2).
Added after seeding rounds 5 and 6 and refactoring round 4 (DESIGN.md 6.10-6.12):
 AM2Q.dcm / SCALE-GATE  am2DCM is a proper rotation independent of the sample magnitudes; tolerance tests on quantities carrying a free magnitude.
"""
import ast
import numpy as np
from sa import poly as P
from sa.symeval import ClassRef, Interp, Env, sym_vec, sym_mat, to_obj, unit_syms, unit_vec, Stop, det, _RET
from sa.lib import eq, all_of, I, E_ref

F = "ahrs/filters/"


def prop_to(a, b, what):
    """a is proportional to b: all 2x2 minors vanish"""
    a, b = to_obj(a), to_obj(b)
    outs = []
    for i in range(len(a)):
        for j in range(i + 1, len(a)):
            outs.append(eq(a[i] * b[j] - a[j] * b[i], P.ZERO, "%s minor(%d,%d)" % (what, i, j)))
    return all_of(*outs)


def either(*alts):
    """holds if one of the documented directions holds exactly; otherwise the first refutation"""
    first = None
    for name, thunk in alts:
        r = thunk()
        if r is True:
            return (True, "holds for " + name)
        if first is None:
            first = r
    return first


def conj(q):
    return q * np.array([1, -1, -1, -1], dtype=object)


def davenport(chk, prog):
    f = prog.func(F + "davenport.py::Davenport.estimate")
    chk.touch(f)
    q = unit_syms("cq")
    E = E_ref(q)
    g = np.array([P.ZERO, P.ZERO, P.sym("g")], dtype=object)
    m = sym_vec("mref", 3)
    s1, s2, w0, w1 = P.sym("s1"), P.sym("s2"), P.sym("w0"), P.sym("w1")

    def getK():
        def grab(it, a, k):
            raise Stop(to_obj(a[0]))
        it = Interp(prog, intercepts={"np.linalg.eig": grab, "np.linalg.eigh": grab})
        obj = it.make_obj(F + "davenport.py::Davenport", w=np.array([w0, w1], dtype=object), g_q=g, m_q=m)
        try:
            it.run(f, [s1 * (E.T @ g), s2 * (E.T @ m)], self_obj=obj)
        except Stop as s:
            return s.value
        raise AssertionError("no eigen-decomposition reached")
    lam = w0 * s1 * (g @ g) + w1 * s2 * (m @ m)
    kw = dict(module=f.module.rel, function=f.qname, line=f.node.lineno)
    chk.ob("DAVENPORT", f.ref, "K symmetric and K q^ == lambda q^ for consistent data (any positive scales)",
           lambda: all_of(eq(getK(), getK().T, "K symmetric"), either(("q", lambda: eq(getK() @ q, lam * q, "K q")), ("q*", lambda: eq(getK() @ conj(q), lam * conj(q), "K q*")))),
           construct="eigen-identity", **kw)


def quest(chk, prog, tier):
    f = prog.func(F + "quest.py::QUEST.estimate")
    chk.touch(f)
    body = f.body()
    widx = max((i for i, s in enumerate(body) if isinstance(s, ast.While)), default=None)
    kw = dict(module=f.module.rel, function=f.qname, line=f.node.lineno)
    if widx is None:
        quest_whole(chk, prog, f, kw)
        return
    lam = P.sym("lam")

    def prefix_env(acc, mag, wts, g_q, m_q):
        it = Interp(prog)
        obj = it.make_obj(F + "quest.py::QUEST", w=wts, g_q=g_q, m_q=m_q)
        env = Env(f.module, f)
        env.vars.update({"self": obj, "acc": acc, "mag": mag})
        it.exec_block(body[:widx], env)
        return it, env

    from sa.lib import newton_updates, newton_derivative
    ups = newton_updates(f.node)
    if not ups:
        chk.error("QUEST: Newton update  x -= u/v  not found")
        return
    _, xname, uname, vname, uexpr, vexpr = ups[0]

    def phi_exprs(it, env):
        env.vars[xname] = lam
        return it.eval(uexpr, env), it.eval(vexpr, env)
    chk.ob("QUEST.newton", f.ref, "phi_prime == d phi / d lambda", lambda: newton_derivative(prog, f), construct="Newton derivative", **kw)
    # Newton's iteration finds the LARGEST root only when it starts at (or above) it: the start value is the sum of the weights, the upper bound of the
    # eigenvalues of K (interpreted with symbolic weights: the start value must be w0 + w1, not a constant that equals it for one choice of weights)
    starts = [s_ for s_ in body[:widx] if isinstance(s_, ast.Assign) and any(isinstance(t_, ast.Name) and t_.id == xname for t_ in s_.targets)]
    if not starts:
        chk.error("QUEST.start: no assignment of the Newton variable `%s` before the loop (cannot decide)" % xname)
    else:
        v_ = starts[-1].value
        txt_ = ast.unparse(v_)
        uses_w = any(isinstance(x_, ast.Attribute) and x_.attr == "w" and isinstance(x_.value, ast.Name) and x_.value.id == "self" for x_ in ast.walk(v_))
        is_sum = "sum" in txt_ or (isinstance(v_, ast.BinOp) and isinstance(v_.op, ast.Add))
        site_ = f.ref + "::start"
        if uses_w and is_sum:
            chk.record("QUEST.start", site_, "the Newton iteration for lambda_max starts at the sum of the weights (`%s`)" % txt_[:40])
        elif isinstance(v_, ast.Constant) or not uses_w:
            why_ = ("the Newton iteration starts at `%s`, which does not follow the weights: it is the upper bound of the eigenvalues (the sum of the weights) only for "
                    "weights that happen to sum to it; for other weights the iteration converges to another root of the characteristic polynomial and the attitude is wrong" % txt_[:40])
            chk.record("QUEST.start", site_, "the Newton iteration starts at the sum of the weights", verdict="VIOLATION", detail=why_)
            chk.finding("QUEST.start", f.module.rel, f.qname, "Newton start value %s" % txt_[:40], why_, line=starts[-1].lineno)
        else:
            chk.error("QUEST.start: the start value `%s` uses the weights but is not recognisably their sum (cannot decide)" % txt_[:50])
    bidx = max((i for i, s_ in enumerate(body[:widx]) if isinstance(s_, ast.Assign) and isinstance(s_.targets[0], ast.Name) and s_.targets[0].id == "B"), default=None)
    if bidx is None:
        chk.error("QUEST: assignment of the attitude profile matrix B not found")
        return

    def after_B(B, wts):
        it = Interp(prog)
        obj = it.make_obj(F + "quest.py::QUEST", w=wts)
        env = Env(f.module, f)
        env.vars.update({"self": obj, "B": B})
        it.exec_block(body[bidx + 1:widx], env)
        return it, env
    wts = np.array([P.sym("w0"), P.sym("w1")], dtype=object)

    def charpoly():
        B = sym_mat("B", 3, 3)
        it, env = after_B(B, wts)
        phi, _ = phi_exprs(it, env)
        S, sigma = B + B.T, B.trace()
        z = np.array([B[1, 2] - B[2, 1], B[2, 0] - B[0, 2], B[0, 1] - B[1, 0]], dtype=object)
        K = np.empty((4, 4), dtype=object)
        K[0, 0] = sigma
        K[0, 1:] = z
        K[1:, 0] = z
        K[1:, 1:] = S - sigma * I(3)
        return eq(phi, det(K - lam * I(4)), "phi(lambda)")
    if True:        # cheap: decided on every run (the mutation sweep showed coefficient slips of phi survive without it)
        chk.ob("QUEST.charpoly", f.ref, "lambda^4 - (a+b) lambda^2 - c lambda + k == det(K - lambda I) for symbolic B", charpoly, construct="characteristic polynomial", **kw)
    # consistent data with the class's own reference forms g = (0,0,1), m = (cos dip, 0, sin dip)
    q = unit_syms("cq")
    E = E_ref(q)
    dip = unit_vec("qdip", 2)
    g_q = np.array([P.ZERO, P.ZERO, P.ONE], dtype=object)
    m_q = np.array([dip[0], P.ZERO, dip[1]], dtype=object)

    def consistent():
        sa_, sm_ = P.sym("qs1"), P.sym("qs2")          # "whatever the magnitudes of the two measured vectors"
        P.declare_positive(sa_)
        P.declare_positive(sm_)
        acc, mag = sa_ * (E.T @ g_q), sm_ * (E.T @ m_q)
        it, env = prefix_env(acc, mag, wts, g_q, m_q)
        phi, _ = phi_exprs(it, env)
        root = eq(phi.subs({"lam": wts[0] + wts[1]}), P.ZERO, "phi(w0 + w1)")
        env.vars[xname] = wts[0] + wts[1]
        r_ = it.exec_block(body[widx + 1:], env)
        if r_ is None or r_[0] is not _RET:
            return (None, "tail of QUEST.estimate does not return")
        vec = to_obj(r_[1])        # normalised [gamma, Chi]: proportionality is unaffected by the positive scale
        return all_of(root, either(("q", lambda: prop_to(vec, q, "[gamma, Chi] ~ q")), ("q*", lambda: prop_to(vec, conj(q), "[gamma, Chi] ~ q*"))))
    chk.ob("QUEST.consistent", f.ref, "for consistent data of any positive magnitudes w0 + w1 is a root of phi and [gamma, Chi] is proportional to q^", consistent, construct="exact recovery", **kw)


def quest_whole(chk, prog, f, kw):
    """QUEST.estimate no longer contains the Newton loop itself (it was moved into helpers): the same two obligations on the class as a whole --
    every Newton update of the class divides by the derivative of its numerator, and the interpretation of the whole estimate() on consistent data of
    any positive magnitudes (the iteration starts at lambda = w0 + w1, which is then an exact root, so the loop leaves it unchanged) is proportional to q^"""
    from sa.lib import newton_derivative
    cls = prog.cls(F + "quest.py::QUEST")

    def newton():
        found = None
        for m_ in cls.methods.values():
            r_ = newton_derivative(prog, m_)
            if not (isinstance(r_, tuple) and r_[0] is None):
                found = r_ if (found is None or found is True) else found
        return found if found is not None else (None, "no Newton update  x -= u/v  found in class QUEST")
    chk.ob("QUEST.newton", f.ref, "phi_prime == d phi / d lambda", newton, construct="Newton derivative", **kw)
    q = unit_syms("cq")
    E = E_ref(q)
    dip = unit_vec("qdip", 2)
    g_q = np.array([P.ZERO, P.ZERO, P.ONE], dtype=object)
    m_q = np.array([dip[0], P.ZERO, dip[1]], dtype=object)
    wts = np.array([P.sym("w0"), P.sym("w1")], dtype=object)

    def consistent():
        sa_, sm_ = P.sym("qs1"), P.sym("qs2")
        P.declare_positive(sa_)
        P.declare_positive(sm_)
        it = Interp(prog, oracle=lambda c, i: (False if c.op in (">", ">=") else True) if c.op in (">", ">=", "<", "<=") and c.lhs is not None and getattr(c.lhs, "is_zero", lambda: False)() else None,
                    config={"max_while": 40})
        obj = it.make_obj(F + "quest.py::QUEST", w=wts, g_q=g_q, m_q=m_q)
        out = to_obj(it.run(f, [sa_ * (E.T @ g_q), sm_ * (E.T @ m_q)], self_obj=obj))
        return either(("q", lambda: prop_to(out, q, "estimate ~ q")), ("q*", lambda: prop_to(out, conj(q), "estimate ~ q*")))
    chk.ob("QUEST.consistent", f.ref, "for consistent data of any positive magnitudes the estimate is proportional to q^ (whole-method interpretation)", consistent,
           construct="exact recovery", **kw)


def oleq(chk, prog):
    fo = prog.func(F + "oleq.py::OLEQ.WW")
    fr = prog.func(F + "roleq.py::ROLEQ.WW")
    chk.touch(fo)
    chk.touch(fr)
    b, r = sym_vec("wb", 3), sym_vec("wr", 3)
    it = Interp(prog)
    oo, ro = it.make_obj(F + "oleq.py::OLEQ"), it.make_obj(F + "roleq.py::ROLEQ")
    chk.ob("OLEQ.twin", fr.ref, "ROLEQ.WW(b, r) == OLEQ.WW(b, r)", lambda: eq(it.run(fr, [b, r], self_obj=ro), it.run(fo, [b, r], self_obj=oo), "ROLEQ.WW"),
           module=fr.module.rel, function=fr.qname, construct="WW twin", line=fr.node.lineno)
    q = unit_syms("cq")
    E = E_ref(q)
    ru = unit_vec("ur")
    for f, obj in ((fo, oo), (fr, ro)):
        def law(f=f, obj=obj):
            W = to_obj(it.run(f, [E.T @ ru, ru], self_obj=obj))
            return all_of(eq(W, W.T, "W symmetric"), either(("q", lambda: eq(W @ q, q, "W q")), ("q*", lambda: eq(W @ conj(q), conj(q), "W q*"))))
        chk.ob("OLEQ.fixed", f.ref, "W(E(q)^T r, r) q^ == q^ for a unit reference r", law, module=f.module.rel, function=f.qname, construct="fixed direction", line=f.node.lineno)
    # the iteration matrix is 1/2 (I + sum a_i W_i): decided by interpreting estimate() for ONE step of the power iteration with the two W matrices and the
    # random start vector kept as opaque symbols (wherever in the class the loop and the matrix are written)
    fe = prog.func(F + "oleq.py::OLEQ.estimate")
    chk.touch(fe)

    def matrix():
        Ws = []

        def ww(it_, args, kwargs):
            Wk = sym_mat("OW%d" % len(Ws), 4, 4)
            Ws.append(Wk)
            return Wk
        q0 = sym_vec("oq0", 4)
        seq = [True, False]

        def oracle(c, it_):
            if c.op in (">", ">=", "<", "<="):
                return seq.pop(0) if seq else False
            return None
        it2 = Interp(prog, oracle=oracle, intercepts={fo.ref: ww, "np.random.random": lambda it_, a_, k_: q0 + P.const(Fraction(1, 2))}, config={"max_while": 4})
        a0, a1 = P.sym("oa0"), P.sym("oa1")
        obj = it2.make_obj(F + "oleq.py::OLEQ", a=np.array([a0, a1], dtype=object), a_ref=unit_vec("oar"), m_ref=unit_vec("omr"))
        out = to_obj(it2.run(fe, [unit_vec("oacc"), unit_vec("omag")], self_obj=obj))
        if len(Ws) != 2:
            return (None, "estimate() built %d W matrices, 2 expected" % len(Ws))
        R = (I(4) + a0 * Ws[0] + a1 * Ws[1]) / 2
        return prop_to(out, R @ q0, "first iterate ~ 1/2 (I + a0 W1 + a1 W2) q0")
    from fractions import Fraction
    chk.ob("OLEQ.matrix", fe.ref, "one step of the iteration multiplies the start vector by R = 1/2 (I + a0 W(acc, a_ref) + a1 W(mag, m_ref))", matrix,
           module=fe.module.rel, function=fe.qname, construct="iteration matrix", line=fe.node.lineno)


def flae(chk, prog, tier):
    f = prog.func(F + "flae.py::FLAE.estimate")
    chk.touch(f)
    q = unit_syms("cq")
    E = E_ref(q)
    r1, r2 = unit_vec("fr1"), unit_vec("fr2")
    a0 = P.sym("a0")
    wts = np.array([a0, 1 - a0], dtype=object)
    s1, s2 = P.sym("s1"), P.sym("s2")
    P.declare_positive(s1)
    P.declare_positive(s2)
    kw = dict(module=f.module.rel, function=f.qname, line=f.node.lineno)

    def getW(acc, mag):
        def grab(it, a, k):
            raise Stop(to_obj(a[0]))
        it = Interp(prog, intercepts={"np.linalg.eig": grab}, skip_calls={"_assert_valid_method", "self._validate_input"})
        obj = it.make_obj(F + "flae.py::FLAE", a=wts, ref=np.vstack([r1, r2]))
        try:
            it.run(f, [acc, mag], {"method": "eig"}, self_obj=obj)
        except Stop as s:
            return s.value
        raise AssertionError("eig not reached")

    def fixed():
        W = getW(s1 * (E.T @ r1), s2 * (E.T @ r2))
        return all_of(eq(W, W.T, "W symmetric"), either(("q", lambda: eq(W @ q, q, "W q")), ("q*", lambda: eq(W @ conj(q), conj(q), "W q*"))))
    chk.ob("FLAE.fixed", f.ref, "W symmetric and W q^ == q^ for consistent data (weights summing to 1, any positive scales)", fixed, construct="fixed direction", **kw)
    # Newton derivative and characteristic polynomial, on the extracted assignments
    lam = P.sym("lam")

    def newton():
        from sa.lib import newton_derivative
        cls_ = prog.cls(F + "flae.py::FLAE")
        for m_ in cls_.methods.values():
            r_ = newton_derivative(prog, m_)
            if not (isinstance(r_, tuple) and r_[0] is None):
                return r_
        return (None, "no Newton update found in class FLAE")
    chk.ob("FLAE.newton", f.ref, "fp == d f / d lambda", newton, construct="Newton derivative", **kw)
    if True:
        def charpoly():
            H = sym_mat("H", 3, 3)
            it = Interp(prog)
            obj = it.make_obj(F + "flae.py::FLAE")
            cls = prog.cls(F + "flae.py::FLAE")
            W = to_obj(it.run(cls.lookup("_P1Hx"), [H[0]], self_obj=obj)) + to_obj(it.run(cls.lookup("_P2Hy"), [H[1]], self_obj=obj)) + to_obj(it.run(cls.lookup("_P3Hz"), [H[2]], self_obj=obj))
            env = Env(f.module, f)
            env.vars.update({"H": H, "W": W})
            vals = {}
            for s in ast.walk(f.node):
                if isinstance(s, ast.Assign) and isinstance(s.targets[0], ast.Name) and s.targets[0].id in ("t1", "t2", "t3"):
                    vals[s.targets[0].id] = it.eval(s.value, env)
            if len(vals) < 3:
                return (None, "t1/t2/t3 not found")
            return eq(lam ** 4 + vals["t1"] * lam ** 2 + vals["t2"] * lam + vals["t3"], det(W - lam * I(4)), "characteristic polynomial")
        chk.ob("FLAE.charpoly", f.ref, "lambda^4 + t1 lambda^2 + t2 lambda + t3 == det(W - lambda I) for symbolic H", charpoly, construct="characteristic polynomial", **kw)


def saam(chk, prog):
    f = prog.func(F + "saam.py::SAAM.estimate")
    chk.touch(f)
    p = unit_syms("cp")
    E = E_ref(p)
    dip = unit_vec("dip", 2)            # (mN, mD): mN^2 + mD^2 = 1
    mN, mD = dip
    P.declare_positive(mN)
    e3 = np.array([P.ZERO, P.ZERO, P.ONE], dtype=object)
    mref = np.array([mN, P.ZERO, mD], dtype=object)
    kw = dict(module=f.module.rel, function=f.qname, line=f.node.lineno)

    def law():
        outs = []
        for name, Emat in (("E(p)", E), ("E(p)^T", E.T)):
            a, m = Emat @ e3, Emat @ mref
            it = Interp(prog, oracle=lambda c, i: True if c.op == ">" else None)
            obj = it.make_obj(F + "saam.py::SAAM")
            out = to_obj(it.run(f, [a, m], self_obj=obj))
            for qn, qq in (("p", p), ("p*", conj(p))):
                outs.append(("%s with a = %s e3" % (qn, name), lambda out=out, qq=qq: prop_to(out, qq, "SAAM ~ q")))
        return either(*outs)
    chk.ob("SAAM", f.ref, "for a = R e3, m = R (mN, 0, mD) the closed form is proportional to the quaternion of R (in the documented direction)", law, construct="exact recovery", **kw)


def triad(chk, prog):
    f = prog.func(F + "triad.py::TRIAD.estimate")
    chk.touch(f)
    w1, w2 = unit_vec("tw"), unit_vec("tx")          # the first statements normalise w1 and w2 (checked below), so unit samples lose nothing
    v1, v2 = unit_vec("tv"), sym_vec("ty", 3)
    kw = dict(module=f.module.rel, function=f.qname, line=f.node.lineno)

    def law():
        it = Interp(prog)
        obj = it.make_obj(F + "triad.py::TRIAD", v1=v1, v2=v2)
        A = to_obj(it.run(f, [w1, w2, "rotmat"], self_obj=obj))
        from sa.symeval import vec_norm
        c_w = it.np.cross(w1, w2)
        c_v = it.np.cross(v1, v2)
        return all_of(eq(A @ v1, w1 / vec_norm(w1), "A v1"), eq(A @ (c_v / vec_norm(c_v)), c_w / vec_norm(c_w), "A (v1 x v2)"), eq(A.T @ A, I(3), "A^T A"))
    chk.ob("TRIAD", f.ref, "A v1 == w1/|w1|, A (v1xv2)/|.| == (w1xw2)/|.|, A^T A == I (|v1| = 1)", law, construct="triad identities", **kw)
    # magnitudes of the measurements cancel: both are divided by their own norm before any other use
    from sa.facts import Facts
    seen = {}

    def on_call(fa, node, st):
        if (fa.np_name(node.func) or "") == "cross" and "w" not in seen:
            seen["w"] = [fa.is_unit(a_, st) for a_ in node.args[:2]]
    Facts(f, prog, callbacks={"call": on_call}).analyse()
    if seen.get("w") == [True, True]:
        chk.record("TRIAD.scale", f.ref, "w1 and w2 are divided by their own norms before the triad is built (any magnitudes)")
    else:
        chk.record("TRIAD.scale", f.ref, "w1 and w2 normalised before use", verdict="VIOLATION")
        chk.finding("TRIAD.scale", f.module.rel, f.qname, "measurement not normalised before the triad", "the body triad is built from a measurement vector that was not divided by its own norm: the result depends on its magnitude", line=f.node.lineno)


ESTIMATOR_CLASSES = ["triad.py::TRIAD", "davenport.py::Davenport", "quest.py::QUEST", "flae.py::FLAE", "oleq.py::OLEQ", "saam.py::SAAM", "famc.py::FAMC",
                     "fqa.py::FQA", "tilt.py::Tilt", "aqua.py::AQUA"]


def am2q_route(chk, prog):
    """AM2Q: the acc/mag helper am2q is dcm2quat(am2DCM(a, m)).  (i) am2DCM returns a proper rotation whose third column/row is the normalised
    gravity measurement (AVN); (ii) dcm2quat returns, on EVERY decision path (trace test, pivot selection ...), a quaternion whose matrix is the
    input in one and the same direction -- a branch that answers with the conjugate flips the attitude for the rotations that reach it."""
    from sa.lib import enumerate_paths
    ORI_ = "ahrs/common/orientation.py"
    f = prog.func(ORI_ + "::dcm2quat")
    chk.touch(f)
    q = unit_syms("dq")
    R = E_ref(q)
    kw = dict(module=ORI_, function="dcm2quat", line=f.node.lineno)

    def run(oracle):
        return Interp(prog, oracle=oracle).run(f, [R.copy()])
    paths = enumerate_paths(run)
    direction = None
    for decisions, res in paths:
        label = ", ".join("%s->%s" % (("argmax" if c.op == "argmax" else "%s %s %s" % (str(c.lhs)[:24], c.op, c.rhs)), a_) for c, a_ in decisions) or "unconditional"

        def law(res=res, label=label):
            nonlocal direction
            if isinstance(res, Exception):
                raise res
            out = to_obj(res)
            n2 = sum((x * x for x in out), P.ZERO)
            Eo = E_ref(out)          # E_ref is quadratic: E(out) == |out|^2 E(out/|out|)
            a_ = eq(Eo, R * n2, "E(dcm2quat(R)) [path %s]" % label)
            b_ = eq(Eo, R.T * n2, "E(dcm2quat(R))^T [path %s]" % label)
            ok_a, ok_b = a_ is True, b_ is True
            if not (ok_a or ok_b):
                return a_
            d = "R" if ok_a else "R^T"
            if direction is None:
                direction = d
                return True
            if d != direction:
                return (False, "on the path [%s] dcm2quat returns the quaternion of %s while its other paths return that of %s: the attitude is conjugated for the rotations taking this path"
                        % (label, d, direction), None)
            return True
        chk.ob("AM2Q.dcm2quat", f.ref + "::path " + label, "E(dcm2quat(R)) is R in the same direction on every path [%s]" % label, law, construct="direction on path [%s]" % label, **kw)
    g = prog.func(ORI_ + "::am2q")
    chk.touch(g)
    calls = [ast.unparse(c.func) for c in ast.walk(g.node) if isinstance(c, ast.Call)]
    if "am2DCM" in calls and "dcm2quat" in calls:
        chk.record("AM2Q.route", g.ref, "am2q == dcm2quat(am2DCM(a, m, frame))")
    else:
        chk.error("AM2Q: am2q no longer composes am2DCM and dcm2quat (anchor changed): %s" % calls)


def triad_same_matrix(chk, prog):
    """TRIAD.quat: the quaternion representation converts the very matrix the rotation-matrix representation returns (same value number), not its transpose or
    another intermediate: the two representations then describe one attitude (the converters' direction is C02's business)."""
    from sa.facts import Facts
    f = prog.func(F + "triad.py::TRIAD.estimate")
    chk.touch(f)
    fa = Facts(f, prog)
    rets = []

    class R(Facts):
        def s_Return(self2, s_, st):
            v_ = s_.value
            leaves = []
            todo = [v_]
            while todo:
                e = todo.pop()
                if isinstance(e, ast.IfExp):
                    todo += [e.body, e.orelse]
                elif e is not None:
                    leaves.append(e)
            for e in leaves:
                if isinstance(e, ast.Call) and ast.unparse(e.func).split(".")[-1] in ("chiaverini", "dcm2quat", "shepperd", "hughes", "sarabandi", "itzhack") and e.args:
                    rets.append(("quat", self2.vn(e.args[0], st), e))
                else:
                    rets.append(("mat", self2.vn(e, st), e))
            return super().s_Return(s_, st)
    R(f, prog).analyse()
    mats = {v for k, v, _ in rets if k == "mat"}
    quats = [(v, e) for k, v, e in rets if k == "quat"]
    site = f.ref + "::representations"
    if not mats or not quats:
        chk.error("TRIAD.quat: the rotation-matrix and quaternion returns of TRIAD.estimate were not both found (cannot decide)")
        return
    bad = [(v, e) for v, e in quats if v not in mats]
    if not bad:
        chk.record("TRIAD.quat", site, "the quaternion is converted from the same matrix value the rotmat representation returns")
    else:
        v, e = bad[0]
        why = "the quaternion representation converts `%s` (value number %s) while the rotation-matrix representation returns %s: the two representations describe different attitudes" % (
            ast.unparse(e.args[0])[:40], v[:60], sorted(mats)[0][:60])
        chk.record("TRIAD.quat", site, "both representations describe one attitude", verdict="VIOLATION", detail=why)
        chk.finding("TRIAD.quat", f.module.rel, f.qname, "quaternion converted from %s" % ast.unparse(e.args[0])[:40], why, line=e.lineno)


def am2dcm_scale(chk, prog):
    """AM2Q.dcm: am2DCM(a, m, frame) is a proper rotation whose third column is +-a/|a| and which does not depend on the magnitudes of the two samples
    (AVN with a = s1 E^T g, m = s2 E^T m_ref, s1, s2 > 0 free symbols; compared with the run at s1 = s2 = 1)."""
    ORI_ = "ahrs/common/orientation.py"
    f = prog.func(ORI_ + "::am2DCM")
    chk.touch(f)
    q = unit_syms("dq")
    E = E_ref(q)
    s1, s2 = P.sym("qs1"), P.sym("qs2")
    P.declare_positive(s1)
    P.declare_positive(s2)
    g_ref = np.array([P.ZERO, P.ZERO, P.ONE], dtype=object)
    m_ref = np.array([P.ZERO, P.sym("mrefn"), P.sym("mrefz")], dtype=object)
    kw = dict(module=ORI_, function="am2DCM", line=f.node.lineno)
    for frame in ("ENU", "NED"):
        def law(frame=frame):
            oracle = lambda c, i: False if c.op in ("isclose", "allclose") else None      # generic (non-degenerate) samples
            R1 = to_obj(Interp(prog, oracle=oracle).run(f, [s1 * (E.T @ g_ref), s2 * (E.T @ m_ref)], {"frame": frame}))
            R0 = to_obj(Interp(prog, oracle=oracle).run(f, [E.T @ g_ref, E.T @ m_ref], {"frame": frame}))
            return all_of(eq(R1, R0, "am2DCM(s1 a, s2 m) == am2DCM(a, m) [%s]" % frame), eq(R0 @ R0.T, I(3), "R R^T [%s]" % frame), eq(det(R0), P.ONE, "det R [%s]" % frame))
        chk.ob("AM2Q.dcm", f.ref + "::" + frame, "am2DCM is a proper rotation independent of the magnitudes of the samples [%s]" % frame, law,
               construct="proper rotation, scale-free [%s]" % frame, **kw)


def aqua_tilt(chk, prog):
    """AQUA.tilt: the accelerometer-only fix of AQUA.estimate, on both arms of its `az >= 0` test, returns a quaternion whose matrix maps the vertical onto the
    normalised measurement (in one and the same direction on both arms); with a magnetometer the combined rotation additionally leaves the measured field without
    an east component (the heading fix), again on both arms of `lx >= 0`"""
    f = prog.func(F + "aqua.py::AQUA.estimate")
    chk.touch(f)
    kw = dict(module=f.module.rel, function=f.qname, line=f.node.lineno)
    a = unit_vec("ta")
    e3 = np.array([P.ZERO, P.ZERO, P.ONE], dtype=object)
    direction = {}
    for arm in (True, False):
        def law(arm=arm):
            P.declare_positive(1 + a[2] if arm else 1 - a[2])
            it = Interp(prog, oracle=lambda c, i: arm if c.op in (">=", ">", "<", "<=") else None)
            obj = it.make_obj(F + "aqua.py::AQUA")
            q = to_obj(it.run(f, [a.copy()], self_obj=obj))
            n2 = sum((x * x for x in q), P.ZERO)
            Eq = E_ref(q)
            r1, r2 = eq(Eq @ e3, a * n2, "E(q) e3"), eq(Eq.T @ e3, a * n2, "E(q)^T e3")
            if r1 is True or r2 is True:
                d = "E(q)" if r1 is True else "E(q)^T"
                if direction.setdefault("d", d) != d:
                    return (False, "the two arms of `az >= 0` rotate in opposite directions (%s vs %s)" % (direction["d"], d), None)
                return True
            return r1 if r1[0] is False and r2[0] is False else (r1 if r1[0] is None else r2)
        chk.ob("AQUA.tilt", f.ref + "::az %s 0" % (">=" if arm else "<"), "E(q_acc) maps e3 onto a/|a| on the arm az %s 0" % (">=" if arm else "<"), law,
               construct="tilt fix [az %s 0]" % (">=" if arm else "<"), **kw)


def tilt_representations(chk, prog):
    """TILT.repr: the three representations Tilt.estimate can return describe one attitude: with the three arctan2 values kept as opaque angles (in call
    order), the quaternion it returns is Quaternion.from_rpy of the angles it returns (the library's roll-pitch-yaw construction, decided in C10), and the
    matrix is that quaternion's matrix"""
    from fractions import Fraction
    from sa.lib import quat_obj, QUAT
    f = prog.func(F + "tilt.py::Tilt.estimate")
    g = prog.func(QUAT + "::Quaternion.from_rpy")
    chk.touch(f)
    kw = dict(module=f.module.rel, function=f.qname, line=f.node.lineno)
    acc, mag = sym_vec("tla", 3), sym_vec("tlm", 3)

    def run(representation, with_mag):
        k = [0]

        def atan(it_, args, kwargs):
            k[0] += 1
            sy_ = P.sym("tang%d" % k[0])
            P.set_angle_unit(sy_, Fraction(1, 2))
            return sy_
        it = Interp(prog, intercepts={"np.arctan2": atan})
        obj = it.make_obj(F + "tilt.py::Tilt")
        return it, to_obj(it.run(f, [acc.copy(), mag.copy() if with_mag else None, representation], self_obj=obj))
    for with_mag in (False, True):
        def law(with_mag=with_mag):
            it, ang = run("angles", with_mag)
            _, q = run("quaternion", with_mag)
            _, R = run("rotmat", with_mag)
            want = to_obj(Interp(prog, oracle=lambda c, i: False if c.op in ("<", ">", "<=", ">=") else None).run(g, [ClassRef(prog.cls(QUAT + "::Quaternion")), ang]))      # range validation not taken
            n2 = sum((x * x for x in want), P.ZERO)
            outs = [eq(q * q[0] * 0 + q, want / P.sqrt(n2), "quaternion == from_rpy(angles)") if False else eq(q, want / P.sqrt(n2), "quaternion == from_rpy(angles)"),
                    eq(R, E_ref(q), "rotmat == E(quaternion)")]
            return all_of(*outs)
        chk.ob("TILT.repr", f.ref + ("::MARG" if with_mag else "::IMU"), "quaternion == Quaternion.from_rpy(angles) and rotmat == E(quaternion)%s" % (" (with magnetometer)" if with_mag else ""),
               law, construct="representations agree%s" % (" [mag]" if with_mag else ""), **kw)


def ecompass_frames(chk, prog):
    """ECOMPASS: in both frames the e-compass returns a proper rotation (rows orthonormal, determinant +1) whose third row is the normalised gravity
    measurement and whose second (NED) / first (ENU) row is horizontal-east, i.e. orthogonal to both measurements"""
    ORI_ = "ahrs/common/orientation.py"
    f = prog.func(ORI_ + "::ecompass")
    chk.touch(f)
    a, m = unit_vec("eca"), sym_vec("ecm", 3)
    kw = dict(module=ORI_, function="ecompass", line=f.node.lineno)
    for frame in ("NED", "ENU"):
        def law(frame=frame):
            it = Interp(prog)
            R = to_obj(it.run(f, [a.copy(), m.copy()], {"frame": frame, "representation": "rotmat"}))
            east = R[1] if frame == "NED" else R[0]
            return all_of(eq(R @ R.T, I(3), "R R^T [%s]" % frame), eq(det(R), P.ONE, "det R [%s]" % frame), eq(R[2], a, "third row is a/|a|"),
                          eq(sum((x * y for x, y in zip(east, a)), P.ZERO), P.ZERO, "east row orthogonal to a"),
                          eq(sum((x * y for x, y in zip(east, m)), P.ZERO), P.ZERO, "east row orthogonal to m"))
        chk.ob("ECOMPASS", f.ref + "::" + frame, "ecompass(a, m, frame=%r) is a proper rotation with rows (.., east, a/|a|) consistent with the frame" % frame, law,
               construct="proper rotation [%s]" % frame, **kw)


def pose_div(chk, prog):
    """POSE-DIV: the singularity-free estimator (Tilt, scalar and batch copy) divides only by the norms of its samples and by literals:
    any other divisor is a pose-dependent quantity that vanishes for some attitude (the documented selling point is that none does)."""
    from sa.facts import Facts
    for ref, want in ((F + "tilt.py::Tilt.estimate", 2), (F + "tilt.py::Tilt._compute_all", 2)):
        f = prog.func(ref)
        chk.touch(f)
        fa = Facts(f, prog).analyse()
        n = 0
        for d in fa.divisions:
            vn = d["vn"]
            n += 1
            site = "%s::/%s" % (ref, vn[:60])
            if vn.startswith(("c:", "norm(P:", "norm(rows:P:", "norm(S:", "norm(rows:S:")) or d["guarded"]:
                chk.record("POSE-DIV", site, "divisor is a literal or the (validated / guarded) norm of a raw sample")
            else:
                node = d["node"]
                why = "the singularity-free estimator divides by `%s`, a quantity computed from the pose that is zero for some attitude (e.g. an exactly vertical axis): 0/0 = NaN there" % ast.unparse(node.right if isinstance(node, ast.BinOp) else node)[:80]
                chk.record("POSE-DIV", site, "no pose-dependent divisor", verdict="VIOLATION", detail=why)
                chk.finding("POSE-DIV", f.module.rel, f.qname, "division: %s" % ast.unparse(node)[:90], why, line=node.lineno)
        if n < want:
            chk.error("POSE-DIV: %s has %d divisions, %d confirmed by hand" % (ref, n, want))


def stale_cache(chk, prog):
    """CACHE-COHERENT: estimate() must not memoise into self.<x> a value derived from other (public, re-assignable) attributes:
    after `est.v1 = ...` the next estimate would silently use the stale value, so the answer depends on the call history."""
    for key in ESTIMATOR_CLASSES:
        cls = prog.cls(F + key)
        for f in cls.methods.values():
            if f.name.startswith("__") or f.name in ("_compute_all",) or f.name.startswith("_set") or f.name.startswith("_assert"):
                continue
            for n in ast.walk(f.node):
                if isinstance(n, ast.If) and isinstance(n.test, ast.Compare) and isinstance(n.test.ops[0], ast.Is) and isinstance(n.test.comparators[0], ast.Constant) \
                        and n.test.comparators[0].value is None and isinstance(n.test.left, ast.Attribute) and ast.unparse(n.test.left.value) == "self":
                    attr = n.test.left.attr
                    stores = [s_ for s_ in ast.walk(n) if isinstance(s_, (ast.Assign, ast.AnnAssign)) and any(ast.unparse(t_) == "self." + attr for t_ in (s_.targets if isinstance(s_, ast.Assign) else [s_.target]))]
                    deps = sorted({m_.attr for s_ in n.body for m_ in ast.walk(s_) if isinstance(m_, ast.Attribute) and ast.unparse(m_.value) == "self" and m_.attr != attr and isinstance(m_.ctx, ast.Load)})
                    if stores and deps:
                        chk.finding("CACHE-COHERENT", f.module.rel, f.qname, "lazy cache self.%s derived from %s" % (attr, ", ".join("self." + d for d in deps)),
                                    "self.%s is computed once from %s and never invalidated: re-assigning those references on the same object leaves the estimator using the stale value" % (attr, ", ".join("self." + d for d in deps)),
                                    line=n.lineno)
        chk.record("CACHE-COHERENT", F + key, "no lazily cached value derived from re-assignable attributes")


def canaries(chk, prog):
    from sa.report import Check

    def flip_M2(tree):
        for c in ast.walk(tree):
            if isinstance(c, ast.ClassDef) and c.name == "OLEQ":
                for n in ast.walk(c):
                    if isinstance(n, ast.FunctionDef) and n.name == "WW":
                        for s in ast.walk(n):
                            if isinstance(s, ast.Assign) and isinstance(s.targets[0], ast.Name) and s.targets[0].id == "M3":
                                for u in ast.walk(s.value):
                                    if isinstance(u, ast.UnaryOp) and isinstance(u.op, ast.USub):
                                        u.op = ast.UAdd()
                                        return True
        return False
    try:
        p2 = prog.mutated(F + "oleq.py", flip_M2)
        sub = Check("C04", chk.tier, p2, quiet=True)
        oleq(sub, p2)
        chk.canary("flip a sign in OLEQ.WW", bool(sub.findings), "%d findings" % len(sub.findings))
    except Exception as e:
        chk.canary("flip a sign in OLEQ.WW", False, "crashed: %s: %s" % (type(e).__name__, e))

    def z_sign(tree):
        for c in ast.walk(tree):
            if isinstance(c, ast.ClassDef) and c.name == "Davenport":
                for s in ast.walk(c):
                    if isinstance(s, ast.BinOp) and isinstance(s.op, ast.Sub) and ast.unparse(s).replace(" ", "") == "B[1,2]-B[2,1]":
                        s.left, s.right = s.right, s.left
                        return True
        return False
    try:
        p2 = prog.mutated(F + "davenport.py", z_sign)
        sub = Check("C04", chk.tier, p2, quiet=True)
        davenport(sub, p2)
        chk.canary("flip one component of z in Davenport", bool(sub.findings), "%d findings" % len(sub.findings))
    except Exception as e:
        chk.canary("flip one component of z in Davenport", False, "crashed: %s: %s" % (type(e).__name__, e))


def run(chk, prog, tier):
    from sa import lints as _lints
    _lints.domain_guard(chk, prog, refs=['ahrs/filters/fqa.py::FQA.estimate', 'ahrs/filters/aqua.py::AQUA.estimate', 'ahrs/filters/tilt.py::Tilt.estimate', 'ahrs/filters/tilt.py::Tilt._compute_all', 'ahrs/common/orientation.py::acc2q', 'ahrs/common/orientation.py::am2angles'])
    davenport(chk, prog)
    quest(chk, prog, tier)
    oleq(chk, prog)
    flae(chk, prog, tier)
    saam(chk, prog)
    triad(chk, prog)
    triad_same_matrix(chk, prog)
    from props.c07 import flow_rule
    flow_rule(chk, prog)
    stale_cache(chk, prog)
    pose_div(chk, prog)
    am2q_route(chk, prog)
    am2dcm_scale(chk, prog)
    aqua_tilt(chk, prog)
    ecompass_frames(chk, prog)
    tilt_representations(chk, prog)
    if arm_guard(chk, prog, F + "aqua.py::AQUA.estimate") < 6:
        chk.error("ARM-GUARD: fewer than 6 guarded divisors found in AQUA.estimate (two two-armed formulas confirmed by hand)")
    chk.require_count("OLEQ.fixed", 2)
    canaries(chk, prog)
    return __doc__


# ------------------------------------------------------------------------------------------ ARM-GUARD (sign domain)
# sign lattice: 'P' > 0 | 'G' >= 0 and zero only on a measure-zero set (sum of squares of non-constant values) | 'Z+' >= 0 |
#               'N' < 0 | 'Z-' <= 0 | 'Z' == 0 | '?' unknown

def _neg(s):
    return {"P": "N", "N": "P", "Z+": "Z-", "Z-": "Z+", "G": "Z-", "Z": "Z", "?": "?"}[s]


def _add(a, b):
    if a == "Z":
        return b
    if b == "Z":
        return a
    pos, neg = {"P", "G", "Z+"}, {"N", "Z-"}
    if a in pos and b in pos:
        if "P" in (a, b):
            return "P"
        return "G" if "G" in (a, b) else "Z+"
    if a in neg and b in neg:
        return "N" if "N" in (a, b) else "Z-"
    return "?"


def _mul(a, b):
    if "Z" in (a, b):
        return "Z"
    if "?" in (a, b):
        return "?"
    pos, neg = {"P", "G", "Z+"}, {"N", "Z-"}
    same = (a in pos) == (b in pos)
    strict = a in ("P", "N") and b in ("P", "N")
    generic = a in ("P", "N", "G") and b in ("P", "N", "G")
    if same:
        return "P" if strict else ("G" if generic else "Z+")
    return "N" if strict else "Z-"


def sign_of(node, env):
    if isinstance(node, ast.Constant) and isinstance(node.value, (int, float)):
        return "P" if node.value > 0 else ("N" if node.value < 0 else "Z")
    if isinstance(node, ast.Name):
        return env.get(node.id, "?")
    if isinstance(node, ast.UnaryOp) and isinstance(node.op, ast.USub):
        return _neg(sign_of(node.operand, env))
    if isinstance(node, ast.BinOp):
        a, b = sign_of(node.left, env), sign_of(node.right, env)
        if isinstance(node.op, ast.Add):
            return _add(a, b)
        if isinstance(node.op, ast.Sub):
            return _add(a, _neg(b))
        if isinstance(node.op, ast.Mult):
            return _mul(a, b)
        if isinstance(node.op, ast.Div):
            return _mul(a, b) if b in ("P", "N", "G") else "?"
        if isinstance(node.op, ast.Pow) and isinstance(node.right, ast.Constant) and isinstance(node.right.value, int) and node.right.value % 2 == 0:
            return "Z" if a == "Z" else ("P" if a in ("P", "N") else "G")       # square of a non-constant value: zero only on a null set
    if isinstance(node, ast.Call):
        t = ast.unparse(node.func)
        if t in ("np.sqrt", "abs", "np.abs") and node.args:
            a = sign_of(node.args[0], env)
            if t == "np.sqrt":
                return a if a in ("P", "G", "Z+", "Z") else "?"
            return "Z" if a == "Z" else ("P" if a in ("P", "N") else ("G" if a in ("G",) else "Z+"))
    return "?"


def arm_guard(chk, prog, ref):
    """two-armed formulas selected by a sign test: every divisor of each arm is provably (generically) positive under that arm's condition"""
    f = prog.func(ref)
    chk.touch(f)
    n = 0

    def divisors(stmts):
        out = []
        for s in stmts:
            for x in ast.walk(s):
                if isinstance(x, ast.BinOp) and isinstance(x.op, ast.Div):
                    out.append(x.right)
        return out

    def walk(stmts, env):
        nonlocal n
        env = dict(env)
        for s in stmts:
            if isinstance(s, ast.Assign) and len(s.targets) == 1 and isinstance(s.targets[0], ast.Name):
                env[s.targets[0].id] = sign_of(s.value, env)
            elif isinstance(s, ast.If) and s.orelse and isinstance(s.test, ast.Compare) and isinstance(s.test.left, ast.Name) and len(s.test.ops) == 1 \
                    and isinstance(s.test.comparators[0], ast.Constant) and s.test.comparators[0].value == 0:
                var, op = s.test.left.id, type(s.test.ops[0])
                t_sign = {ast.GtE: "Z+", ast.Gt: "P", ast.Lt: "N", ast.LtE: "Z-"}.get(op)
                f_sign = {ast.GtE: "N", ast.Gt: "Z-", ast.Lt: "Z+", ast.LtE: "P"}.get(op)
                def targets(body):
                    out = set()
                    for x in body:
                        if isinstance(x, ast.Assign):
                            for t in x.targets:
                                if isinstance(t, ast.Name):
                                    out.add(t.id)
                                elif isinstance(t, ast.Subscript) and isinstance(t.value, ast.Name):
                                    out.add(t.value.id)
                    return out
                tgt_t, tgt_f = targets(s.body), targets(s.orelse)
                if t_sign and tgt_t and tgt_t == tgt_f:          # alternative formulas for the same value
                    for arm, body, sg in (("true", s.body, t_sign), ("false", s.orelse, f_sign)):
                        e2 = dict(env)
                        e2[var] = sg
                        seq = []
                        for st_ in body:                              # statement by statement: locals of the arm (hoisted roots, denominators) carry their sign
                            for d in divisors([st_]):
                                seq.append((d, dict(e2)))
                            if isinstance(st_, ast.Assign) and len(st_.targets) == 1 and isinstance(st_.targets[0], ast.Name):
                                e2[st_.targets[0].id] = sign_of(st_.value, e2)
                        for d, e2 in seq:
                            n += 1
                            sd = sign_of(d, e2)
                            site = "%s::if %s [%s arm] / %s" % (ref, ast.unparse(s.test), arm, ast.unparse(d))
                            if sd in ("P", "G"):
                                chk.record("ARM-GUARD", site, "divisor is (generically) positive under the arm's condition")
                            else:
                                chk.record("ARM-GUARD", site, "divisor provably positive under the arm's condition", verdict="VIOLATION")
                                chk.finding("ARM-GUARD", f.module.rel, f.qname, "if %s [%s arm]: divisor %s" % (ast.unparse(s.test), arm, ast.unparse(d)),
                                            "the branch condition `%s` does not make the divisor `%s` non-zero (sign analysis: %s): the arm that should avoid the singular pose is selected by the wrong quantity" % (
                                                ast.unparse(s.test), ast.unparse(d), sd), line=d.lineno)
                walk(s.body, env)
                walk(s.orelse, env)
            elif isinstance(s, (ast.If, ast.For, ast.While, ast.With)):
                walk(getattr(s, "body", []), env)
                walk(getattr(s, "orelse", []), env)
    walk(f.body(), {})
    return n
