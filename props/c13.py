"""C13 — a dropped-out (all-zero) sensor sample never corrupts a recursive filter.

Decided (FACTS: forward must-analysis with value numbering, path-sensitive guards):
 GUARD-DIV   in the per-sample code of the nine recursive filters every division whose divisor
             value-numbers to the norm of a sensor sample (a parameter other than the attitude) is
             reached only on paths where that norm is known non-zero (early return/raise on ``n == 0``,
             nesting under ``n > 0``, ``not n > 0``, vectorised ``np.where(n == 0)[0].size > 0`` ...);
 UNIT-RET    every return path of the per-sample entry points, including the early returns taken on a null sample,
             returns a value carrying the must-fact UNIT (same rule as C03);
 CONFIG-FROZEN  a per-sample method never assigns a *configuration* attribute (gains, references): a dropout
             fallback that re-tunes the filter would make later estimates differ from the no-dropout run.
Not decided: that estimates return "to within normal tolerance" after the dropout (quantitative).
Added after the seeding rounds (DESIGN.md 6.6-6.8):
 DROPOUT-EXIT / RECOMPUTED  the zero side of every zero test on a sample norm raises or returns; AQUA.alpha never feeds back into itself.
 SEED-GUARD  (session 5) the dropout may be the first sample: the producer of the initial attitude of every batch method (ecompass, acc2q, am2q, AQUA.estimate,
             OLEQ.estimate) guards its divisions by sample norms, a None answer is tested by the caller, or else every per-sample consumer validates its a-priori quaternion first.
Added after seeding rounds 5 and 6 and refactoring round 4 (DESIGN.md 6.10-6.12):
 ROLEQ.attitude_propagation among the UNIT-RET entries (discharges the unit assumption of the dropout arm).
"""
import ast
LINT_EXTRA_FILES = ("ahrs/common/orientation.py", "ahrs/utils/core.py")      # acc2q / am2q / ecompass helpers the filters start from; the shared input validators
from sa.facts import Facts
from sa.model import stmt_text

F = "ahrs/filters/"
# per-sample functions of the recursive filters (entry points and the helpers that receive raw samples)
SITES = [
    (F + "madgwick.py::Madgwick.updateIMU", 1), (F + "madgwick.py::Madgwick.updateMARG", 2),
    (F + "mahony.py::Mahony.updateIMU", 1), (F + "mahony.py::Mahony.updateMARG", 2),
    (F + "ekf.py::EKF.update", 2),
    (F + "ukf.py::UKF.update", 1),
    (F + "aqua.py::AQUA.estimate", 2), (F + "aqua.py::AQUA.updateIMU", 1), (F + "aqua.py::AQUA.updateMARG", 2),
    (F + "fourati.py::Fourati.update", 2),
    (F + "roleq.py::ROLEQ.oleq", 2), (F + "roleq.py::ROLEQ.update", 0),
    (F + "fkf.py::FKF.measurement_quaternion_acc_mag", 2),
    (F + "complementary.py::Complementary.am_estimation", 4),
]
ATTITUDE_PARAMS = {"q", "q0", "q_1", "q_omega", "q_am", "dt", "self", "Pk_1", "Phi", "Sigma_eps", "Sigma_v"}
# carried state per class (confirmed by reading); everything else assigned in __init__ from options is configuration
CARRIED = {"Mahony": {"b"}, "EKF": {"P", "R", "z"}, "UKF": {"P"}, "FKF": {"Pk"}, "AQUA": {"alpha"}, "Madgwick": set(),
           "Fourati": set(), "ROLEQ": set(), "Complementary": set()}
# AQUA.alpha: the adaptive gain is recomputed from every sample when adaptive=True (documented), so it is state.
# EKF.R: rebuilt from self.noises on every update (value depends only on whether mag is given).


def sample_norm(vn, func):
    """divisor value number is the norm of something derived only from raw sensor parameters"""
    if not vn.startswith("norm("):
        return None
    inner = vn[5:-1]
    params = [p for p in func.params if p not in ATTITUDE_PARAMS]
    hits = [p for p in params if ("P:" + p) in inner]
    if not hits:
        return None
    # raw sample (possibly copied / indexed), not a computed quantity such as a gradient
    stripped = inner
    for p in hits:
        stripped = stripped.replace("P:" + p, "")
    if any(tok in stripped for tok in ("Sub(", "Add(", "Mult(", "Div(", "cross", "MatMult(", "call", "?")):
        return None
    return hits


SITE_REFS = {r for r, _ in SITES}


def analyse_site(chk, prog, ref, min_divs, only_config=False):
    f = prog.func(ref)
    chk.touch(f)
    state_writes = []
    helper_calls = []

    def self_write(fa, attr, stmt, st):
        state_writes.append((attr, stmt, st["F"]))

    def make_on_call(depth):
        def on_call(fa, node, st):
            # a private helper of the same class receives the caller's value numbers and facts (one continuation per call site)
            if depth < 2 and isinstance(node.func, ast.Attribute) and isinstance(node.func.value, ast.Name) and node.func.value.id == fa.self_name and f.cls is not None:
                g = f.cls.methods.get(node.func.attr)
                if g is None or g.ref in SITE_REFS or g is fa.func:
                    return
                params = [p for p in g.params[1:]]
                seed = {p: "P:%s.%s" % (g.name, p) for p in params}
                for p, a in zip(params, node.args):
                    if not isinstance(a, ast.Starred):
                        seed[p] = fa.vn(a, st)
                for k in node.keywords:
                    if k.arg in seed:
                        seed[k.arg] = fa.vn(k.value, st)
                helper_calls.append((g, seed, st["F"], depth + 1))
        return on_call
    fa = Facts(f, prog, unit_params=["q"], callbacks={"self_write": self_write, "call": make_on_call(0)}).analyse()
    divisions = list(fa.divisions)
    seen_h = set()
    while helper_calls:
        g, seed, facts_in, depth = helper_calls.pop()
        key = (g.ref, tuple(sorted(seed.items())), facts_in)
        if key in seen_h:
            continue
        seen_h.add(key)
        chk.touch(g)
        sub = Facts(g, prog, callbacks={"self_write": self_write, "call": make_on_call(depth)}, seed=seed, seed_facts=facts_in).analyse()
        divisions.extend(sub.divisions)
    n = 0
    norms_used = set()
    for d in ([] if only_config else divisions):
        hits = sample_norm(d["vn"], f)
        if not hits:
            continue
        n += 1
        norms_used.add(d["vn"])
        node = d["node"]
        text = stmt_text(node) if isinstance(node, ast.stmt) else ast.unparse(node)
        site = "%s::/%s" % (ref, d["vn"])
        if d["guarded"]:
            chk.record("GUARD-DIV", site, "division by %s only where it is known non-zero" % d["vn"])
        else:
            chk.record("GUARD-DIV", site, "division by %s only where it is known non-zero" % d["vn"], verdict="VIOLATION",
                       detail="no dominating zero-norm guard for `%s`" % text)
            chk.finding("GUARD-DIV", f.module.rel, f.qname, "unguarded division: %s" % text,
                        "division by the norm of the sensor sample `%s` is reachable with a zero norm (all-zero dropout sample gives 0/0 = NaN)" % ", ".join(hits),
                        line=node.lineno)
    if n < min_divs and not only_config:
        chk.error("GUARD-DIV: %s has %d sample-norm divisions, %d confirmed by hand" % (ref, n, min_divs))
    # carried-state writes happen after all guards of norms this function divides by
    cls = f.cls.name if f.cls else None
    ctor_attrs = set()
    if f.cls is not None:
        for g_ in f.cls.methods.values():
            if g_.name == "__init__" or g_.name.startswith("_set"):
                ctor_attrs |= {x.attr for x in ast.walk(g_.node) if isinstance(x, ast.Attribute) and isinstance(x.ctx, ast.Store) and isinstance(x.value, ast.Name) and x.value.id == "self"}
    for attr, stmt, facts in state_writes:
        if cls in CARRIED and attr not in CARRIED[cls] and attr not in ctor_attrs:
            # an attribute the constructor never sets is not configuration: a scratch slot of the per-sample code (its staleness is STALE-DERIVED's business)
            chk.record("CONFIG-FROZEN", "%s::self.%s" % (ref, attr), "assigned attribute is not one the constructor configures (scratch slot)")
            continue
        if cls in CARRIED and attr not in CARRIED[cls]:
            chk.record("CONFIG-FROZEN", "%s::self.%s" % (ref, attr), "per-sample code does not assign configuration", verdict="VIOLATION")
            chk.finding("CONFIG-FROZEN", f.module.rel, f.qname, "self.%s assigned: %s" % (attr, stmt_text(stmt)),
                        "per-sample method assigns self.%s, which is configuration (not in the carried-state table %s): a dropout/fallback path changes how every later sample is processed" % (attr, sorted(CARRIED[cls])),
                        line=stmt.lineno)
        elif cls in CARRIED:
            chk.record("CONFIG-FROZEN", "%s::self.%s" % (ref, attr), "assigned attribute is carried state (table)")
    chk.count("CONFIG-FROZEN")
    return fa


# attributes that per-sample code re-derives from the current sample alone (documented as such): their new value may not depend on their old one,
# otherwise the same call with the same arguments gives a different result each time (the gain compounds / decays)
RECOMPUTED = {"AQUA": {"alpha": ("updateIMU", "updateMARG")}}


def recomputed_rule(chk, prog):
    for cname, attrs in RECOMPUTED.items():
        cls = prog.cls(F + "%s.py::%s" % (cname.lower(), cname))
        for attr, meths in attrs.items():
            n = 0
            for m in cls.methods.values():
                hits = []

                def sw(fa, a_, stmt, st, hits=hits):
                    if a_ == attr:
                        hits.append((stmt, st.get("s:" + attr) or ""))
                if not any(isinstance(x, ast.Attribute) and isinstance(x.ctx, ast.Store) and x.attr == attr for x in ast.walk(m.node)) or m.name == "__init__":
                    continue
                Facts(m, prog, callbacks={"self_write": sw}).analyse()
                for stmt, vn in hits:
                    n += 1
                    site = "%s::self.%s = %s" % (m.ref, attr, vn[:50])
                    if ("S:" + attr) in vn:
                        why = "the new value of self.%s is computed from its previous value (%s): repeated calls with the same arguments compound it, so the result of a call depends on how " \
                              "many calls came before" % (attr, vn[:80])
                        chk.record("RECOMPUTED", site, "self.%s is a function of the current sample only" % attr, verdict="VIOLATION", detail=why)
                        chk.finding("RECOMPUTED", m.module.rel, m.qname, "self.%s fed back into its own update" % attr, why, line=stmt.lineno)
                    else:
                        chk.record("RECOMPUTED", site, "self.%s is re-derived from the current sample only" % attr)
            if n < 1:
                chk.error("RECOMPUTED: %s.%s is no longer assigned by any per-sample method (2 sites confirmed by hand)" % (cname, attr))


def dropout_exit(chk, prog, ref):
    """DROPOUT-EXIT: a test whether the norm of a raw sensor sample is zero must end, on its zero side, in `raise` or `return` (refuse the sample or skip the
    correction).  A zero side that merely produces a substitute value and carries on (`a = acc/n if n > 0 else <something>`) feeds a made-up measurement to
    the correction, which drags the estimate towards it for as long as the dropout lasts."""
    f = prog.func(ref)
    tests = []

    class G(Facts):
        def split(self2, test, st):
            vn = None
            t = test
            neg = False
            while isinstance(t, ast.UnaryOp) and isinstance(t.op, ast.Not):
                t, neg = t.operand, not neg
            if isinstance(t, ast.Compare) and len(t.ops) == 1 and isinstance(t.comparators[0], ast.Constant) and t.comparators[0].value == 0:
                v = self2.vn(t.left, st)
                if sample_norm(v, f):
                    op = type(t.ops[0])
                    zero_when_true = (op is ast.Eq) != neg if op in (ast.Eq,) else ((op in (ast.Gt, ast.NotEq)) == neg if op in (ast.Gt, ast.NotEq) else None)
                    if zero_when_true is not None:
                        tests.append((test, zero_when_true, v))
            return super().split(test, st)
    G(f, prog).analyse()
    seen = set()
    n = 0
    for node in ast.walk(f.node):
        for test, zero_when_true, v in tests:
            if id(test) in seen:
                continue
            if isinstance(node, ast.If) and node.test is test:
                seen.add(id(test))
                n += 1
                arm = node.body if zero_when_true else node.orelse
                site = "%s::if %s" % (ref, ast.unparse(test)[:50])
                if not arm:
                    # `if n > 0: <correction>` with nothing on the zero side: the correction is skipped
                    chk.record("DROPOUT-EXIT", site, "the correction is nested under the non-zero side: a null sample skips it")
                    continue
                last = arm[-1]
                if isinstance(last, (ast.Raise, ast.Return, ast.Continue)):
                    chk.record("DROPOUT-EXIT", site, "zero side ends in %s" % type(last).__name__.lower())
                else:
                    why = "the zero side of `%s` neither raises nor returns: the method goes on with a substitute for the missing sample" % ast.unparse(test)[:60]
                    chk.record("DROPOUT-EXIT", site, "zero side refuses or skips", verdict="VIOLATION", detail=why)
                    chk.finding("DROPOUT-EXIT", f.module.rel, f.qname, "zero side of %s" % ast.unparse(test)[:50], why, line=node.lineno)
            elif isinstance(node, ast.IfExp) and node.test is test:
                seen.add(id(test))
                n += 1
                sub = node.body if zero_when_true else node.orelse
                site = "%s::%s" % (ref, ast.unparse(node)[:60])
                why = "`%s` replaces a null sample by `%s` and carries on: the correction is computed from a made-up measurement instead of being skipped or refused" % (
                    ast.unparse(node)[:70], ast.unparse(sub)[:30])
                chk.record("DROPOUT-EXIT", site, "a null sample is refused or skipped, never substituted", verdict="VIOLATION", detail=why)
                chk.finding("DROPOUT-EXIT", f.module.rel, f.qname, "substitute for a null sample: %s" % ast.unparse(node)[:60], why, line=node.lineno)
    return n



# ---------------------------------------------------------------------------------------------------------------------------------------------------
# SEED-GUARD: the dropout may be the FIRST sample.  The batch methods seed the recursion with an attitude computed from row 0 of the sensors; a null row 0
# must be refused (or replaced by a valid attitude) before the recursion starts, otherwise every later row inherits the NaN.
BATCH = [F + "madgwick.py::Madgwick._compute_all", F + "mahony.py::Mahony._compute_all", F + "ekf.py::EKF._compute_all", F + "ukf.py::UKF._compute_all",
         F + "aqua.py::AQUA._compute_all", F + "fourati.py::Fourati._compute_all", F + "roleq.py::ROLEQ._compute_all", F + "fkf.py::FKF._compute_all"]
SENSOR_NAMES = {"acc", "mag"}


def _row0_sensor(node):
    """`self.acc[0]`, `acc[0]`, `self.mag[0, :]` ..."""
    if not isinstance(node, ast.Subscript):
        return False
    sl = node.slice
    if isinstance(sl, ast.Tuple) and sl.elts:
        sl = sl.elts[0]
    if not (isinstance(sl, ast.Constant) and sl.value == 0):
        return False
    v = node.value
    return (isinstance(v, ast.Name) and v.id in SENSOR_NAMES) or (isinstance(v, ast.Attribute) and v.attr in SENSOR_NAMES)


def _may_return_none(f):
    rets = [n for n in ast.walk(f.node) if isinstance(n, ast.Return)]
    valued = [r for r in rets if r.value is not None and not (isinstance(r.value, ast.Constant) and r.value.value is None)]
    return bool(valued) and len(valued) != len(rets)


def null_safe(chk, prog, f, _seen=None):
    """every division by the norm of a raw parameter of `f` (and of the module-level / own-class helpers it hands its parameters to) is guarded.
    returns (ok, first offending text)"""
    from sa.callgraph import call_sites
    _seen = _seen if _seen is not None else set()
    if f.ref in _seen:
        return True, None
    _seen.add(f.ref)
    chk.touch(f)
    fa = Facts(f, prog).analyse()
    for d in fa.divisions:
        if sample_norm(d["vn"], f) and not d["guarded"]:
            node = d["node"]
            return False, "%s: `%s`" % (f.qname, (stmt_text(node) if isinstance(node, ast.stmt) else ast.unparse(node))[:70])
    params = set(p for p in f.params if p not in ATTITUDE_PARAMS)
    for node, callee, _ in call_sites(f):
        if not isinstance(node, ast.Call) or callee.module.rel.startswith("ahrs/common/quaternion") or callee.name in ("__init__", "__new__"):
            continue
        if any(isinstance(x, ast.Name) and x.id in params for a in list(node.args) + [k.value for k in node.keywords] for x in ast.walk(a)):
            ok, why = null_safe(chk, prog, callee, _seen)
            if not ok:
                return False, why
    return True, None


def _validates_first(g):
    """the per-sample method validates its a-priori quaternion before anything can leave the method: `q = Quaternion(q)` (the constructor refuses NaN and
    null) or `if not np.isclose(np.linalg.norm(q), 1...): raise` precedes every `return`."""
    if len(g.params) < 2:
        return False
    q = g.params[1]
    for s in g.body():
        if isinstance(s, ast.Assign) and isinstance(s.value, ast.Call) and ast.unparse(s.value.func).split(".")[-1] == "Quaternion" and s.value.args \
                and isinstance(s.value.args[0], ast.Name) and s.value.args[0].id == q \
                and not any(k.arg == "versor" and not (isinstance(k.value, ast.Constant) and k.value.value is True) for k in s.value.keywords):
            return True
        if isinstance(s, ast.If) and s.body and isinstance(s.body[-1], ast.Raise):
            t = ast.unparse(s.test)
            if "isclose" in t and "norm(%s)" % q in t and isinstance(s.test, ast.UnaryOp) and isinstance(s.test.op, ast.Not):
                return True
        if any(isinstance(x, ast.Return) for x in ast.walk(s)):
            return False
    return False


def seed_guard(chk, prog):
    from sa.callgraph import call_sites
    n = 0
    for ref in BATCH:
        f = prog.func(ref)
        chk.touch(f)
        calls = {id(node): callee for node, callee, _ in call_sites(f) if isinstance(node, ast.Call)}
        # blocks of statements (to look for a None test between the call and the store)
        blocks = [b for x in ast.walk(f.node) for b in (getattr(x, "body", None), getattr(x, "orelse", None)) if isinstance(b, list) and b]
        for block in blocks:
            for i, s in enumerate(block):
                if not isinstance(s, ast.Assign):
                    continue
                seeds = [c for c in ast.walk(s.value) if isinstance(c, ast.Call) and any(_row0_sensor(a) for a in c.args)]
                if not seeds:
                    continue
                tgt = s.targets[0]
                store_q0 = isinstance(tgt, ast.Subscript) and isinstance(tgt.slice, ast.Constant) and tgt.slice.value == 0
                local = tgt.id if isinstance(tgt, ast.Name) else None
                if not (store_q0 or local):
                    continue
                for c in seeds:
                    callee = calls.get(id(c))
                    site = "%s::%s" % (ref, ast.unparse(c)[:60])
                    n += 1
                    if callee is None:
                        chk.error("SEED-GUARD: the producer of the initial attitude `%s` in %s cannot be resolved" % (ast.unparse(c)[:60], ref))
                        continue
                    ok, why = null_safe(chk, prog, callee)
                    may_none = _may_return_none(callee)
                    if ok and may_none:
                        # the producer answers a null sample with None: the caller has to test it before it reaches the array
                        tested = False
                        if local:
                            for later in block[i + 1:]:
                                if isinstance(later, ast.If) and isinstance(later.test, ast.Compare) and isinstance(later.test.left, ast.Name) and later.test.left.id == local \
                                        and isinstance(later.test.ops[0], ast.Is) and isinstance(later.test.comparators[0], ast.Constant) and later.test.comparators[0].value is None \
                                        and later.body and isinstance(later.body[-1], (ast.Raise, ast.Return)):
                                    tested = True
                                    break
                                if any(isinstance(x, ast.Name) and x.id == local and isinstance(x.ctx, ast.Load) for x in ast.walk(later)):
                                    break
                        if tested:
                            chk.record("SEED-GUARD", site, "the producer returns None for a null first sample and the caller refuses None before seeding the recursion")
                        else:
                            why2 = "`%s` returns None for a null first sample; stored into the quaternion array it becomes NaN, nothing tests it, and every later row of the " \
                                   "batch run inherits the NaN" % callee.qname
                            chk.record("SEED-GUARD", site, "a null first sample never seeds the recursion with NaN", verdict="VIOLATION", detail=why2)
                            chk.finding("SEED-GUARD", f.module.rel, f.qname, "unchecked None seed: %s" % ast.unparse(c)[:60], why2, line=s.lineno)
                        continue
                    if ok:
                        chk.record("SEED-GUARD", site, "the producer of the initial attitude guards every division by a sample norm (null first sample refused or answered with a valid attitude)")
                        continue
                    # producer not null-safe: the consumer of Q[t-1] must validate it before anything is returned
                    consumers = []
                    inline_loop = False
                    for loop in [x for x in ast.walk(f.node) if isinstance(x, ast.For)]:
                        found = False
                        for cc in ast.walk(loop):
                            if isinstance(cc, ast.Call) and id(cc) in calls and cc.args and isinstance(cc.args[0], ast.Subscript) and "t-1" in ast.unparse(cc.args[0]).replace(" ", "") \
                                    and calls[id(cc)].cls is f.cls:
                                consumers.append(calls[id(cc)])
                                found = True
                        if not found and any(isinstance(x, ast.Subscript) and "t-1" in ast.unparse(x).replace(" ", "") for x in ast.walk(loop)):
                            inline_loop = True
                    if consumers and not inline_loop and all(_validates_first(g) for g in consumers):
                        chk.record("SEED-GUARD", site, "producer divides by an unguarded norm (%s) but every per-sample consumer (%s) validates its a-priori quaternion before it can return" % (
                            why, ", ".join(sorted({g.qname for g in consumers}))))
                    else:
                        why2 = "the initial attitude comes from %s, which divides by the norm of the first sample without a zero guard; the recursion %s does not validate the " \
                               "a-priori quaternion before using it, so a null first row makes every row of the batch run NaN" % (
                                   why, "(inline loop)" if inline_loop or not consumers else "(" + ", ".join(sorted({g.qname for g in consumers if not _validates_first(g)})) + ")")
                        chk.record("SEED-GUARD", site, "a null first sample never seeds the recursion with NaN", verdict="VIOLATION", detail=why2)
                        chk.finding("SEED-GUARD", f.module.rel, f.qname, "NaN seed: %s" % ast.unparse(c)[:60], why2, line=s.lineno)
    if n < 10:
        chk.error("SEED-GUARD: %d initial-attitude producers found in the batch methods, 12 confirmed by hand" % n)
    chk.count("SEED-GUARD")


def fkf_loop(chk, prog):
    """FKF._compute_all: the per-sample helper is called with raw rows; the helper must guard (checked above)."""
    f = prog.func(F + "fkf.py::FKF._compute_all")
    chk.touch(f)


def canaries(chk, prog):
    from sa.report import Check

    def drop_guard(cls, meth, guard_var):
        def tr(tree):
            for c in ast.walk(tree):
                if isinstance(c, ast.ClassDef) and c.name == cls:
                    for fn in c.body:
                        if isinstance(fn, ast.FunctionDef) and fn.name == meth:
                            for n in ast.walk(fn):
                                if isinstance(n, ast.If) and guard_var in ast.unparse(n.test) and isinstance(n.test, ast.Compare) \
                                        and isinstance(n.test.ops[0], ast.Eq):
                                    n.test = ast.Constant(False)
                                    return True
            return False
        return tr
    for name, rel, ref, tr in (
            ("delete the a_norm == 0 guard in EKF.update", F + "ekf.py", F + "ekf.py::EKF.update", drop_guard("EKF", "update", "a_norm")),
            ("delete the m_norm == 0 guard in AQUA.updateMARG", F + "aqua.py", F + "aqua.py::AQUA.updateMARG", drop_guard("AQUA", "updateMARG", "m_norm")),
            ("delete the a_norm == 0 guard in Fourati.update", F + "fourati.py", F + "fourati.py::Fourati.update", drop_guard("Fourati", "update", "a_norm"))):
        try:
            p2 = prog.mutated(rel, tr)
            sub = Check("C13", chk.tier, p2, quiet=True)
            analyse_site(sub, p2, ref, 0)
            chk.canary(name, any(f.rule == "GUARD-DIV" for f in sub.findings), "%d findings" % len(sub.findings))
        except Exception as e:
            chk.canary(name, False, "canary crashed: %s: %s" % (type(e).__name__, e))


def seed_canaries(chk, prog):
    """SEED-GUARD must fire when the null guard of ecompass or ROLEQ's None test is taken out (the two defects repaired in /repo, re-introduced on a mutated copy)"""
    from sa.report import Check

    def no_ecompass_guard(tree):
        for fn in tree.body:
            if isinstance(fn, ast.FunctionDef) and fn.name == "ecompass":
                for n in ast.walk(fn):
                    if isinstance(n, ast.If) and "_norm == 0" in ast.unparse(n.test) and n.body and isinstance(n.body[-1], ast.Raise):
                        n.test = ast.Constant(False)
                        return True
        return False

    def no_none_test(tree):
        for c in ast.walk(tree):
            if isinstance(c, ast.ClassDef) and c.name == "ROLEQ":
                for n in ast.walk(c):
                    if isinstance(n, ast.If) and isinstance(n.test, ast.Compare) and isinstance(n.test.ops[0], ast.Is) and n.body and isinstance(n.body[-1], ast.Raise) \
                            and isinstance(n.test.comparators[0], ast.Constant) and n.test.comparators[0].value is None and isinstance(n.test.left, ast.Name) and n.test.left.id == "q0":
                        n.test = ast.Constant(False)
                        return True
        return False
    for name, rel, tr, where in (("delete the null-sample guard of ecompass", "ahrs/common/orientation.py", no_ecompass_guard, "FKF._compute_all"),
                                 ("delete ROLEQ's test of the None seed", F + "roleq.py", no_none_test, "ROLEQ._compute_all")):
        try:
            p2 = prog.mutated(rel, tr)
            sub = Check("C13", chk.tier, p2, quiet=True)
            seed_guard(sub, p2)
            chk.canary(name, any(f_.rule == "SEED-GUARD" and f_.function == where for f_ in sub.findings), "%d findings" % len(sub.findings))
        except Exception as e:
            chk.canary(name, False, "canary crashed: %s: %s" % (type(e).__name__, e))


RECURSIVE_ENTRIES = {"madgwick.py::Madgwick.updateIMU", "madgwick.py::Madgwick.updateMARG", "mahony.py::Mahony.updateIMU",
                     "mahony.py::Mahony.updateMARG", "ekf.py::EKF.update", "ukf.py::UKF.update", "aqua.py::AQUA.updateIMU",
                     "aqua.py::AQUA.updateMARG", "fourati.py::Fourati.update", "roleq.py::ROLEQ.update", "roleq.py::ROLEQ.oleq",
                     "roleq.py::ROLEQ.attitude_propagation",      # discharges the assumption "q_omega is unit" under which ROLEQ.oleq's dropout arm returns it
                     "fkf.py::FKF.kalman_update"}


def run(chk, prog, tier):
    for ref, n in SITES:
        analyse_site(chk, prog, ref, n)
        dropout_exit(chk, prog, ref)
    # every return path of the per-sample entry points - in particular the dropout arms - is a unit quaternion
    from props.c03 import unit_ret
    unit_ret(chk, prog, only=RECURSIVE_ENTRIES)
    chk.require_count("UNIT-RET", 25)
    fkf_loop(chk, prog)
    # what the filters do WITH a null accelerometer sample: advance by the gyroscope's first-order step in their own convention (C08's rule, shared): a dropout arm
    # that freezes the attitude or integrates the wrong way round never "returns to tolerance" after the dropout
    from props.c08 import dead_reckoning as _dr, dead_reckoning_marg as _drm
    _dr(chk, prog)
    _drm(chk, prog)
    recomputed_rule(chk, prog)
    seed_guard(chk, prog)
    chk.require_count("GUARD-DIV", 20)
    canaries(chk, prog)
    seed_canaries(chk, prog)
    return __doc__
