"""C13 — a dropped-out (all-zero) sensor sample never corrupts a recursive filter.

Decided (FACTS: forward must-analysis with value numbering, path-sensitive guards):
 GUARD-DIV   in the per-sample code of the nine recursive filters every division whose divisor
             value-numbers to the norm of a sensor sample (a parameter other than the attitude) is
             reached only on paths where that norm is known non-zero (early return/raise on ``n == 0``,
             nesting under ``n > 0``, ``not n > 0``, vectorised ``np.where(n == 0)[0].size > 0`` ...);
 UNIT-RET    every return path of the per-sample entry points, including the early returns taken on a null sample,
             returns a value carrying the must-fact UNIT (same rule as C03);
 CONFIG-FROZEN  a per-sample method never assigns a *configuration* attribute (gains, references): a dropout
             fallback that re-tunes the filter would make later estimates differ from the no-dropout run.
Not decided: that estimates return "to within normal tolerance" after the dropout (quantitative).
Added after the seeding rounds (DESIGN.md 6.6-6.8):
 DROPOUT-EXIT / RECOMPUTED  the zero side of every zero test on a sample norm raises or returns; AQUA.alpha never feeds back into itself.
Added after seeding rounds 5 and 6 and refactoring round 4 (DESIGN.md 6.10-6.12):
 ROLEQ.attitude_propagation among the UNIT-RET entries (discharges the unit assumption of the dropout arm).
"""
import ast
LINT_EXTRA_FILES = ("ahrs/common/orientation.py", "ahrs/utils/core.py")      # acc2q / am2q / ecompass helpers the filters start from; the shared input validators
from sa.facts import Facts
from sa.model import stmt_text

F = "ahrs/filters/"
# per-sample functions of the recursive filters (entry points and the helpers that receive raw samples)
SITES = [
    (F + "madgwick.py::Madgwick.updateIMU", 1), (F + "madgwick.py::Madgwick.updateMARG", 2),
    (F + "mahony.py::Mahony.updateIMU", 1), (F + "mahony.py::Mahony.updateMARG", 2),
    (F + "ekf.py::EKF.update", 2),
    (F + "ukf.py::UKF.update", 1),
    (F + "aqua.py::AQUA.estimate", 2), (F + "aqua.py::AQUA.updateIMU", 1), (F + "aqua.py::AQUA.updateMARG", 2),
    (F + "fourati.py::Fourati.update", 2),
    (F + "roleq.py::ROLEQ.oleq", 2), (F + "roleq.py::ROLEQ.update", 0),
    (F + "fkf.py::FKF.measurement_quaternion_acc_mag", 2),
    (F + "complementary.py::Complementary.am_estimation", 4),
]
ATTITUDE_PARAMS = {"q", "q0", "q_1", "q_omega", "q_am", "dt", "self", "Pk_1", "Phi", "Sigma_eps", "Sigma_v"}
# carried state per class (confirmed by reading); everything else assigned in __init__ from options is configuration
CARRIED = {"Mahony": {"b"}, "EKF": {"P", "R", "z"}, "UKF": {"P"}, "FKF": {"Pk"}, "AQUA": {"alpha"}, "Madgwick": set(),
           "Fourati": set(), "ROLEQ": set(), "Complementary": set()}
# AQUA.alpha: the adaptive gain is recomputed from every sample when adaptive=True (documented), so it is state.
# EKF.R: rebuilt from self.noises on every update (value depends only on whether mag is given).


def sample_norm(vn, func):
    """divisor value number is the norm of something derived only from raw sensor parameters"""
    if not vn.startswith("norm("):
        return None
    inner = vn[5:-1]
    params = [p for p in func.params if p not in ATTITUDE_PARAMS]
    hits = [p for p in params if ("P:" + p) in inner]
    if not hits:
        return None
    # raw sample (possibly copied / indexed), not a computed quantity such as a gradient
    stripped = inner
    for p in hits:
        stripped = stripped.replace("P:" + p, "")
    if any(tok in stripped for tok in ("Sub(", "Add(", "Mult(", "Div(", "cross", "MatMult(", "call", "?")):
        return None
    return hits


SITE_REFS = {r for r, _ in SITES}


def analyse_site(chk, prog, ref, min_divs, only_config=False):
    f = prog.func(ref)
    chk.touch(f)
    state_writes = []
    helper_calls = []

    def self_write(fa, attr, stmt, st):
        state_writes.append((attr, stmt, st["F"]))

    def make_on_call(depth):
        def on_call(fa, node, st):
            # a private helper of the same class receives the caller's value numbers and facts (one continuation per call site)
            if depth < 2 and isinstance(node.func, ast.Attribute) and isinstance(node.func.value, ast.Name) and node.func.value.id == fa.self_name and f.cls is not None:
                g = f.cls.methods.get(node.func.attr)
                if g is None or g.ref in SITE_REFS or g is fa.func:
                    return
                params = [p for p in g.params[1:]]
                seed = {p: "P:%s.%s" % (g.name, p) for p in params}
                for p, a in zip(params, node.args):
                    if not isinstance(a, ast.Starred):
                        seed[p] = fa.vn(a, st)
                for k in node.keywords:
                    if k.arg in seed:
                        seed[k.arg] = fa.vn(k.value, st)
                helper_calls.append((g, seed, st["F"], depth + 1))
        return on_call
    fa = Facts(f, prog, unit_params=["q"], callbacks={"self_write": self_write, "call": make_on_call(0)}).analyse()
    divisions = list(fa.divisions)
    seen_h = set()
    while helper_calls:
        g, seed, facts_in, depth = helper_calls.pop()
        key = (g.ref, tuple(sorted(seed.items())), facts_in)
        if key in seen_h:
            continue
        seen_h.add(key)
        chk.touch(g)
        sub = Facts(g, prog, callbacks={"self_write": self_write, "call": make_on_call(depth)}, seed=seed, seed_facts=facts_in).analyse()
        divisions.extend(sub.divisions)
    n = 0
    norms_used = set()
    for d in ([] if only_config else divisions):
        hits = sample_norm(d["vn"], f)
        if not hits:
            continue
        n += 1
        norms_used.add(d["vn"])
        node = d["node"]
        text = stmt_text(node) if isinstance(node, ast.stmt) else ast.unparse(node)
        site = "%s::/%s" % (ref, d["vn"])
        if d["guarded"]:
            chk.record("GUARD-DIV", site, "division by %s only where it is known non-zero" % d["vn"])
        else:
            chk.record("GUARD-DIV", site, "division by %s only where it is known non-zero" % d["vn"], verdict="VIOLATION",
                       detail="no dominating zero-norm guard for `%s`" % text)
            chk.finding("GUARD-DIV", f.module.rel, f.qname, "unguarded division: %s" % text,
                        "division by the norm of the sensor sample `%s` is reachable with a zero norm (all-zero dropout sample gives 0/0 = NaN)" % ", ".join(hits),
                        line=node.lineno)
    if n < min_divs and not only_config:
        chk.error("GUARD-DIV: %s has %d sample-norm divisions, %d confirmed by hand" % (ref, n, min_divs))
    # carried-state writes happen after all guards of norms this function divides by
    cls = f.cls.name if f.cls else None
    ctor_attrs = set()
    if f.cls is not None:
        for g_ in f.cls.methods.values():
            if g_.name == "__init__" or g_.name.startswith("_set"):
                ctor_attrs |= {x.attr for x in ast.walk(g_.node) if isinstance(x, ast.Attribute) and isinstance(x.ctx, ast.Store) and isinstance(x.value, ast.Name) and x.value.id == "self"}
    for attr, stmt, facts in state_writes:
        if cls in CARRIED and attr not in CARRIED[cls] and attr not in ctor_attrs:
            # an attribute the constructor never sets is not configuration: a scratch slot of the per-sample code (its staleness is STALE-DERIVED's business)
            chk.record("CONFIG-FROZEN", "%s::self.%s" % (ref, attr), "assigned attribute is not one the constructor configures (scratch slot)")
            continue
        if cls in CARRIED and attr not in CARRIED[cls]:
            chk.record("CONFIG-FROZEN", "%s::self.%s" % (ref, attr), "per-sample code does not assign configuration", verdict="VIOLATION")
            chk.finding("CONFIG-FROZEN", f.module.rel, f.qname, "self.%s assigned: %s" % (attr, stmt_text(stmt)),
                        "per-sample method assigns self.%s, which is configuration (not in the carried-state table %s): a dropout/fallback path changes how every later sample is processed" % (attr, sorted(CARRIED[cls])),
                        line=stmt.lineno)
        elif cls in CARRIED:
            chk.record("CONFIG-FROZEN", "%s::self.%s" % (ref, attr), "assigned attribute is carried state (table)")
    chk.count("CONFIG-FROZEN")
    return fa


# attributes that per-sample code re-derives from the current sample alone (documented as such): their new value may not depend on their old one,
# otherwise the same call with the same arguments gives a different result each time (the gain compounds / decays)
RECOMPUTED = {"AQUA": {"alpha": ("updateIMU", "updateMARG")}}


def recomputed_rule(chk, prog):
    for cname, attrs in RECOMPUTED.items():
        cls = prog.cls(F + "%s.py::%s" % (cname.lower(), cname))
        for attr, meths in attrs.items():
            n = 0
            for m in cls.methods.values():
                hits = []

                def sw(fa, a_, stmt, st, hits=hits):
                    if a_ == attr:
                        hits.append((stmt, st.get("s:" + attr) or ""))
                if not any(isinstance(x, ast.Attribute) and isinstance(x.ctx, ast.Store) and x.attr == attr for x in ast.walk(m.node)) or m.name == "__init__":
                    continue
                Facts(m, prog, callbacks={"self_write": sw}).analyse()
                for stmt, vn in hits:
                    n += 1
                    site = "%s::self.%s = %s" % (m.ref, attr, vn[:50])
                    if ("S:" + attr) in vn:
                        why = "the new value of self.%s is computed from its previous value (%s): repeated calls with the same arguments compound it, so the result of a call depends on how " \
                              "many calls came before" % (attr, vn[:80])
                        chk.record("RECOMPUTED", site, "self.%s is a function of the current sample only" % attr, verdict="VIOLATION", detail=why)
                        chk.finding("RECOMPUTED", m.module.rel, m.qname, "self.%s fed back into its own update" % attr, why, line=stmt.lineno)
                    else:
                        chk.record("RECOMPUTED", site, "self.%s is re-derived from the current sample only" % attr)
            if n < 1:
                chk.error("RECOMPUTED: %s.%s is no longer assigned by any per-sample method (2 sites confirmed by hand)" % (cname, attr))


def dropout_exit(chk, prog, ref):
    """DROPOUT-EXIT: a test whether the norm of a raw sensor sample is zero must end, on its zero side, in `raise` or `return` (refuse the sample or skip the
    correction).  A zero side that merely produces a substitute value and carries on (`a = acc/n if n > 0 else <something>`) feeds a made-up measurement to
    the correction, which drags the estimate towards it for as long as the dropout lasts."""
    f = prog.func(ref)
    tests = []

    class G(Facts):
        def split(self2, test, st):
            vn = None
            t = test
            neg = False
            while isinstance(t, ast.UnaryOp) and isinstance(t.op, ast.Not):
                t, neg = t.operand, not neg
            if isinstance(t, ast.Compare) and len(t.ops) == 1 and isinstance(t.comparators[0], ast.Constant) and t.comparators[0].value == 0:
                v = self2.vn(t.left, st)
                if sample_norm(v, f):
                    op = type(t.ops[0])
                    zero_when_true = (op is ast.Eq) != neg if op in (ast.Eq,) else ((op in (ast.Gt, ast.NotEq)) == neg if op in (ast.Gt, ast.NotEq) else None)
                    if zero_when_true is not None:
                        tests.append((test, zero_when_true, v))
            return super().split(test, st)
    G(f, prog).analyse()
    seen = set()
    n = 0
    for node in ast.walk(f.node):
        for test, zero_when_true, v in tests:
            if id(test) in seen:
                continue
            if isinstance(node, ast.If) and node.test is test:
                seen.add(id(test))
                n += 1
                arm = node.body if zero_when_true else node.orelse
                site = "%s::if %s" % (ref, ast.unparse(test)[:50])
                if not arm:
                    # `if n > 0: <correction>` with nothing on the zero side: the correction is skipped
                    chk.record("DROPOUT-EXIT", site, "the correction is nested under the non-zero side: a null sample skips it")
                    continue
                last = arm[-1]
                if isinstance(last, (ast.Raise, ast.Return, ast.Continue)):
                    chk.record("DROPOUT-EXIT", site, "zero side ends in %s" % type(last).__name__.lower())
                else:
                    why = "the zero side of `%s` neither raises nor returns: the method goes on with a substitute for the missing sample" % ast.unparse(test)[:60]
                    chk.record("DROPOUT-EXIT", site, "zero side refuses or skips", verdict="VIOLATION", detail=why)
                    chk.finding("DROPOUT-EXIT", f.module.rel, f.qname, "zero side of %s" % ast.unparse(test)[:50], why, line=node.lineno)
            elif isinstance(node, ast.IfExp) and node.test is test:
                seen.add(id(test))
                n += 1
                sub = node.body if zero_when_true else node.orelse
                site = "%s::%s" % (ref, ast.unparse(node)[:60])
                why = "`%s` replaces a null sample by `%s` and carries on: the correction is computed from a made-up measurement instead of being skipped or refused" % (
                    ast.unparse(node)[:70], ast.unparse(sub)[:30])
                chk.record("DROPOUT-EXIT", site, "a null sample is refused or skipped, never substituted", verdict="VIOLATION", detail=why)
                chk.finding("DROPOUT-EXIT", f.module.rel, f.qname, "substitute for a null sample: %s" % ast.unparse(node)[:60], why, line=node.lineno)
    return n


def fkf_loop(chk, prog):
    """FKF._compute_all: the per-sample helper is called with raw rows; the helper must guard (checked above)."""
    f = prog.func(F + "fkf.py::FKF._compute_all")
    chk.touch(f)


def canaries(chk, prog):
    from sa.report import Check

    def drop_guard(cls, meth, guard_var):
        def tr(tree):
            for c in ast.walk(tree):
                if isinstance(c, ast.ClassDef) and c.name == cls:
                    for fn in c.body:
                        if isinstance(fn, ast.FunctionDef) and fn.name == meth:
                            for n in ast.walk(fn):
                                if isinstance(n, ast.If) and guard_var in ast.unparse(n.test) and isinstance(n.test, ast.Compare) \
                                        and isinstance(n.test.ops[0], ast.Eq):
                                    n.test = ast.Constant(False)
                                    return True
            return False
        return tr
    for name, rel, ref, tr in (
            ("delete the a_norm == 0 guard in EKF.update", F + "ekf.py", F + "ekf.py::EKF.update", drop_guard("EKF", "update", "a_norm")),
            ("delete the m_norm == 0 guard in AQUA.updateMARG", F + "aqua.py", F + "aqua.py::AQUA.updateMARG", drop_guard("AQUA", "updateMARG", "m_norm")),
            ("delete the a_norm == 0 guard in Fourati.update", F + "fourati.py", F + "fourati.py::Fourati.update", drop_guard("Fourati", "update", "a_norm"))):
        try:
            p2 = prog.mutated(rel, tr)
            sub = Check("C13", chk.tier, p2, quiet=True)
            analyse_site(sub, p2, ref, 0)
            chk.canary(name, any(f.rule == "GUARD-DIV" for f in sub.findings), "%d findings" % len(sub.findings))
        except Exception as e:
            chk.canary(name, False, "canary crashed: %s: %s" % (type(e).__name__, e))


RECURSIVE_ENTRIES = {"madgwick.py::Madgwick.updateIMU", "madgwick.py::Madgwick.updateMARG", "mahony.py::Mahony.updateIMU",
                     "mahony.py::Mahony.updateMARG", "ekf.py::EKF.update", "ukf.py::UKF.update", "aqua.py::AQUA.updateIMU",
                     "aqua.py::AQUA.updateMARG", "fourati.py::Fourati.update", "roleq.py::ROLEQ.update", "roleq.py::ROLEQ.oleq",
                     "roleq.py::ROLEQ.attitude_propagation",      # discharges the assumption "q_omega is unit" under which ROLEQ.oleq's dropout arm returns it
                     "fkf.py::FKF.kalman_update"}


def run(chk, prog, tier):
    for ref, n in SITES:
        analyse_site(chk, prog, ref, n)
        dropout_exit(chk, prog, ref)
    # every return path of the per-sample entry points - in particular the dropout arms - is a unit quaternion
    from props.c03 import unit_ret
    unit_ret(chk, prog, only=RECURSIVE_ENTRIES)
    chk.require_count("UNIT-RET", 25)
    fkf_loop(chk, prog)
    # what the filters do WITH a null accelerometer sample: advance by the gyroscope's first-order step in their own convention (C08's rule, shared): a dropout arm
    # that freezes the attitude or integrates the wrong way round never "returns to tolerance" after the dropout
    from props.c08 import dead_reckoning as _dr, dead_reckoning_marg as _drm
    _dr(chk, prog)
    _drm(chk, prog)
    recomputed_rule(chk, prog)
    chk.require_count("GUARD-DIV", 20)
    canaries(chk, prog)
    return __doc__
