"""C19 — public functions never modify the caller's arrays and are repeatable.

Decided (ALIAS: flow-sensitive may-alias/ownership analysis with bottom-up callee summaries):
 NO-PARAM-WRITE   no in-place write (augmented assignment, subscript store, out=, in-place ndarray
                  method, np.copyto..., or a callee that does one of these) reaches an object that may
                  alias an array-typed parameter or a **kwargs value of a public callable;
 NO-CTOR-ARG-WRITE no method writes in place into a self attribute that may still alias a constructor
                  argument (state leaking into the caller's array, e.g. ``self.b += ...`` with b = b0);
 SELF-PURE        value classes (Quaternion, QuaternionArray, DCM): only the explicit in-place API writes
                  the object's own storage;
 REPEATABLE       no public non-random callable reaches an RNG/clock source, and none keeps a
                  function-level cache (lru_cache) or mutable default argument.
Not decided: rows obtained by pure-integer indexing / tuple unpacking / iteration are treated as
immutable elements (true for the rank-1 inputs the API documents).
Added after the seeding rounds (DESIGN.md 6.6-6.8):
 CONFIG-FROZEN / RECOMPUTED (shared with C13): per-sample methods never re-tune the filter.
Added after seeding rounds 5 and 6 and refactoring round 4 (DESIGN.md 6.10-6.12):
 GLOBAL-WRITE / GLOBAL-RETURN  no in-place write into, and no hand-out of, module-level arrays.
"""
import ast
from sa.flow import Alias, ann_is_scalar
from sa.model import stmt_text

VALUE_CLASSES = {"Quaternion": ("A",), "QuaternionArray": ("array",), "DCM": ("A",)}
# explicit in-place API on self-owned storage (one line of reason each)
INPLACE_API = {
    "Quaternion.normalize": "documented in-place normalisation",
    "QuaternionArray.remove_jumps": "documented in-place sign correction",
    "QuaternionArray.rotate_by": "inplace=True option",
    "QuaternionArray.slerp_nan": "inplace=True option (also calls remove_jumps)",
    "QuaternionArray.from_DCM": "inplace=True option re-binds the storage",
    "Quaternion.__new__": "constructor", "QuaternionArray.__new__": "constructor", "DCM.__new__": "constructor",
    "Quaternion.__array_finalize__": "numpy protocol", "QuaternionArray.__array_finalize__": "numpy protocol",
}
RNG_OK = {  # intended random sources
    "random_attitudes": "documented random generator", "q_random": "documented random generator",
    "Quaternion.random": "documented", "Quaternion.__new__": "random=True option", "QuaternionArray.__new__": "integer argument draws random attitudes",
    "rot_seq": "angles=None draws random angles (documented)", "OLEQ.estimate": "random start vector (property C06 allows it under a fixed seed)",
    "Sensors": "synthetic data generator",
    "WMM": "date=None defaults to today (documented default)",
}


def is_public(f):
    if f.name.startswith("__") and f.name.endswith("__"):
        return f.name in ("__init__", "__new__", "__add__", "__sub__", "__mul__", "__matmul__", "__pow__", "__call__")
    if f.name.startswith("_"):
        return False
    if f.cls is not None and f.cls.name.startswith("_"):
        return False
    return True


def array_params(f):
    """names of parameters that may be arrays (annotation not purely scalar)"""
    a = f.node.args
    out = {}
    for p in a.posonlyargs + a.args + a.kwonlyargs:
        sc = ann_is_scalar(p.annotation)
        if sc is True:
            continue
        out[p.arg] = sc
    return out


def uses_as_array(f, name):
    for n in ast.walk(f.node):
        if isinstance(n, ast.Subscript) and isinstance(n.value, ast.Name) and n.value.id == name:
            return True
        if isinstance(n, ast.Attribute) and isinstance(n.value, ast.Name) and n.value.id == name and n.attr in ("shape", "ndim", "T", "size"):
            return True
        if isinstance(n, ast.Call) and ast.unparse(n.func).startswith("np.") and any(isinstance(a, ast.Name) and a.id == name for a in n.args):
            return True
    return False


def run_alias(chk, prog, alias=None):
    alias = alias or Alias(prog)
    n_public = 0
    for f in sorted(prog.all_funcs(), key=lambda f: f.ref):
        if not is_public(f) or f.is_setter:
            continue
        n_public += 1
        chk.touch(f)
        s = alias.summary(f)
        ap = array_params(f)
        n_w = 0
        for ph, recs in sorted(s.mut.items(), key=lambda kv: str(kv[0])):
            if ph[0] == "param":
                if ph[1] not in ap:
                    continue
                if ap[ph[1]] is None and not uses_as_array(f, ph[1]) and not any(r["path"] for r in recs):
                    # unannotated and never used as an array: rebinding of a scalar
                    continue
                who = "parameter `%s`" % ph[1]
            elif ph[0] == "kw":
                who = "keyword argument `%s`" % ph[1]
            else:
                continue
            for r in recs:
                n_w += 1
                inner = r["path"][-1] if r["path"] else r
                via = " via " + " -> ".join(p["func"].split("::")[1] for p in r["path"]) if r["path"] else ""
                chk.finding("NO-PARAM-WRITE", f.module.rel, f.qname,
                            "%s: %s" % (ph[1], inner["stmt"]),
                            "in-place write reaches the caller's %s%s (%s)" % (who, via, r["what"]), line=inner.get("line") or r["line"])
        chk.record("NO-PARAM-WRITE", f.ref, "no in-place write reaches a parameter of %s" % f.qname,
                   verdict="HOLDS" if not n_w else "VIOLATION")
    chk.counts["public_callables"] = n_public
    # constructor-argument aliasing through self cells
    n_cls = 0
    for m in prog.modules.values():
        for c in m.classes.values():
            ret, cells, mut, ctor = alias.ctor_summary(c)
            if ctor is None:
                continue
            n_cls += 1
            leaked = {a: [v for v in vals if v[0] in ("param", "kw")] for a, vals in cells.items()}
            leaked = {a: v for a, v in leaked.items() if v}
            for f in c.methods.values():
                if f.name in ("__init__", "__new__"):
                    continue
                s = alias.summary(f)
                for ph, recs in s.mut.items():
                    if ph[0] == "cell" and ph[1] in leaked:
                        ap = array_params(ctor)
                        srcs = [v for v in leaked[ph[1]] if v[0] == "kw" or v[1] in ap]
                        if not srcs:
                            continue
                        for r in recs:
                            inner = r["path"][-1] if r["path"] else r
                            chk.finding("NO-CTOR-ARG-WRITE", m.rel, f.qname, "self.%s: %s" % (ph[1], inner["stmt"]),
                                        "in-place write into self.%s, which may still alias the constructor argument %s" % (
                                            ph[1], ", ".join("`%s`" % v[1] for v in srcs)), line=inner.get("line"))
                chk.count("NO-CTOR-ARG-WRITE")
            # SELF-PURE for value classes
            if c.name in VALUE_CLASSES:
                for f in c.methods.values():
                    if f.qname in INPLACE_API:
                        continue
                    s = alias.summary(f)
                    for ph, recs in s.mut.items():
                        if ph[0] == "cell" and ph[1] in VALUE_CLASSES[c.name]:
                            for r in recs:
                                inner = r["path"][-1] if r["path"] else r
                                chk.finding("SELF-PURE", m.rel, f.qname, "self.%s: %s" % (ph[1], inner["stmt"]),
                                            "%s is not part of the in-place API but writes the object's own storage self.%s: a second call sees different data" % (f.qname, ph[1]),
                                            line=inner.get("line"))
                    chk.count("SELF-PURE")
    shared_state(chk, prog, alias)
    # no function writes in place into a module-level object (a default array, a table): the next call - of any instance - starts from the modified value
    for f in sorted(prog.all_funcs(), key=lambda f: f.ref):
        s = alias.summary(f)
        for ph, recs in s.mut.items():
            if ph[0] == "global":
                for r in recs:
                    inner = r["path"][-1] if r["path"] else r
                    chk.finding("GLOBAL-WRITE", f.module.rel, f.qname, "%s: %s" % (ph[2], inner["stmt"]),
                                "in-place write into the module-level object %s: the value every later call (and every other instance) starts from is changed, so repeating a call "
                                "with the same arguments can give a different result" % ph[2], line=inner.get("line"))
        chk.count("GLOBAL-WRITE")
        # ... and no public function hands a module-level array out as its result: the caller owns what it is returned, and an in-place update of it would change
        # what the next call - same arguments - returns
        if is_public(f):
            for ph in s.ret:
                if ph[0] == "global":
                    chk.finding("GLOBAL-RETURN", f.module.rel, f.qname, "returns the module-level object %s" % ph[2],
                                "`%s` can return the module-level array `%s` itself (not a copy): every call taking that path returns the SAME object, so a caller that modifies its "
                                "result changes what later calls with the same arguments return" % (f.qname, ph[2]), line=f.node.lineno)
            chk.count("GLOBAL-RETURN")
    chk.counts["classes"] = n_cls
    chk.counts["calls_resolved"] = alias.resolved_calls
    chk.counts["calls_unresolved"] = alias.unresolved_calls
    return alias


def shared_state(chk, prog, alias, modules=None):
    """SHARED-STATE: a class-level mutable attribute (dict/list/array literal) that a method writes in place and the
    constructor never re-binds per instance is state shared by all instances (and by repeated calls)."""
    from sa.flow import _is_mutable_literal
    for m in prog.modules.values():
        if modules is not None and m.rel not in modules:
            continue
        for c in m.classes.values():
            mutable = {a for a, v in c.attrs.items() if _is_mutable_literal(v)}
            if not mutable:
                chk.count("SHARED-STATE")
                continue
            ret, cells, mut, ctor = alias.ctor_summary(c)
            for f in c.methods.values():
                s = alias.summary(f)
                for ph, recs in s.mut.items():
                    if ph[0] == "cell" and ph[1] in mutable and ph[1] not in cells:
                        for r in recs:
                            inner = r["path"][-1] if r["path"] else r
                            chk.finding("SHARED-STATE", m.rel, f.qname, "%s.%s: %s" % (c.name, ph[1], inner["stmt"]),
                                        "class-level mutable attribute %s.%s is written in place: the value is shared by every instance and survives between calls" % (c.name, ph[1]),
                                        line=inner.get("line"))
            chk.count("SHARED-STATE")


RNG_PREFIXES = ("np.random.", "random.", "time.", "datetime.datetime.now", "datetime.date.today", "datetime.datetime.today")


def run_repeatable(chk, prog):
    """no hidden per-function state: caches, mutable defaults; RNG only where intended"""
    for f in sorted(prog.all_funcs(), key=lambda f: f.ref):
        for d in f.node.decorator_list:
            t = ast.unparse(d)
            if "cache" in t:
                # a memoised function whose every result is immutable shares nothing a caller could change: the returned local was frozen
                # (X.flags.writeable = False / X.setflags(write=False)) or the result is a scalar / tuple / string
                frozen = set()
                for x in ast.walk(f.node):
                    if isinstance(x, ast.Assign) and len(x.targets) == 1 and ast.unparse(x.targets[0]).endswith(".flags.writeable") and isinstance(x.value, ast.Constant) \
                            and x.value.value is False and isinstance(x.targets[0].value.value, ast.Name):
                        frozen.add(x.targets[0].value.value.id)
                    if isinstance(x, ast.Call) and isinstance(x.func, ast.Attribute) and x.func.attr == "setflags" and isinstance(x.func.value, ast.Name) \
                            and any(k.arg == "write" and isinstance(k.value, ast.Constant) and k.value.value is False for k in x.keywords):
                        frozen.add(x.func.value.id)
                rets = [r.value for r in ast.walk(f.node) if isinstance(r, ast.Return) and r.value is not None]

                def immutable(v):
                    if isinstance(v, ast.Name):
                        return v.id in frozen
                    if isinstance(v, ast.Constant):
                        return True
                    if isinstance(v, ast.Tuple):
                        return all(immutable(e) for e in v.elts)
                    return isinstance(v, ast.Call) and isinstance(v.func, ast.Name) and v.func.id in ("float", "int", "str", "bool", "tuple", "complex")
                if rets and all(immutable(v) for v in rets) and "cached_property" not in t:
                    chk.record("REPEATABLE.cache", "%s::@%s" % (f.ref, t.split("(")[0]), "memoised function returns immutable results only (frozen array / scalar / tuple)")
                    continue
                chk.finding("REPEATABLE.cache", f.module.rel, f.qname, "@" + t.split("(")[0],
                            "memoising decorator on a function returning arrays: callers share (and may mutate) one result object", line=f.node.lineno)
        a = f.node.args
        for d in list(a.defaults) + [x for x in a.kw_defaults if x is not None]:
            if isinstance(d, (ast.List, ast.Dict, ast.Set)) or (isinstance(d, ast.Call) and ast.unparse(d.func).startswith("np.")):
                chk.finding("REPEATABLE.default", f.module.rel, f.qname, "default " + stmt_text(d),
                            "mutable default argument is shared between calls", line=f.node.lineno)
        chk.count("REPEATABLE")
        if not is_public(f):
            continue
        owner = f.qname if f.qname in RNG_OK else (f.cls.name if f.cls is not None and f.cls.name in RNG_OK else None)
        if owner:
            continue
        for n in ast.walk(f.node):
            if isinstance(n, ast.Call):
                t = ast.unparse(n.func)
                if t.startswith(RNG_PREFIXES) and not t.startswith("np.random.default_rng"):
                    chk.finding("REPEATABLE.rng", f.module.rel, f.qname, stmt_text(n),
                                "public callable draws from an RNG/clock but is not in the table of intended random sources", line=n.lineno)


def canaries(chk, prog):
    from sa.report import Check
    ORI = "ahrs/common/orientation.py"

    def add_inplace(tree):
        for n in tree.body:
            if isinstance(n, ast.FunctionDef) and n.name == "q_prod":
                n.body.insert(1, ast.parse("p /= np.linalg.norm(p)").body[0])
                return True
        return False

    def asarray_then_write(tree):
        for n in tree.body:
            if isinstance(n, ast.FunctionDef) and n.name == "q_conj":
                n.body.insert(1, ast.parse("q = np.asarray(q)\nq[1:] *= -1").body[0])
                n.body.insert(2, ast.parse("q[1:] *= -1").body[0])
                # neutralise the defensive copy
                for m in ast.walk(n):
                    if isinstance(m, ast.Call) and ast.unparse(m.func) == "np.copy":
                        m.func = ast.parse("np.asarray").body[0].value
                return True
        return False

    def helper_forward(tree):
        for n in tree.body:
            if isinstance(n, ast.FunctionDef) and n.name == "q2rpy":
                n.body.insert(1, ast.parse("_canary_scale(q)").body[0])
                tree.body.append(ast.parse("def _canary_scale(x):\n    x[0] *= 2.0\n").body[0])
                return True
        return False
    for name, tr, fn in (("add `p /= norm(p)` to q_prod", add_inplace, "q_prod"),
                         ("replace np.copy by np.asarray before an in-place op in q_conj", asarray_then_write, "q_conj"),
                         ("forward a parameter to a mutating helper from q2rpy", helper_forward, "q2rpy")):
        try:
            p2 = prog.mutated(ORI, tr)
            sub = Check("C19", chk.tier, p2, quiet=True)
            run_alias(sub, p2)
            hit = [f for f in sub.findings if f.function == fn and f.rule == "NO-PARAM-WRITE"]
            chk.canary(name, bool(hit), "%d findings in %s" % (len(hit), fn))
        except Exception as e:
            chk.canary(name, False, "canary crashed: %s: %s" % (type(e).__name__, e))


def run(chk, prog, tier):
    # per-sample methods never re-tune the filter: assigning a configuration attribute makes the same call give a different result afterwards (rule of C13)
    from props.c13 import SITES as _SITES, analyse_site as _site
    for _ref, _n in _SITES:
        _site(chk, prog, _ref, 0, only_config=True)
    from props.c13 import recomputed_rule
    recomputed_rule(chk, prog)
    run_alias(chk, prog)
    run_repeatable(chk, prog)
    if chk.counts.get("public_callables", 0) < 200:
        chk.error("only %d public callables found (258 confirmed by hand on the pinned tree)" % chk.counts.get("public_callables", 0))
    canaries(chk, prog)
    return __doc__
