"""C07 — array (vectorised) entry points equal the scalar entry points row by row.

Decided (AVN twin comparison: the batch copy is interpreted on a two-row array of independent symbols and each output
row must be identical, as an exact expression, to the scalar copy applied to that row; clip() is transparent):
 TWIN.class     Quaternion vs QuaternionArray: w, x, y, z, v, conjugate, to_DCM, to_angles for both storage orders,
                from_rpy; constructor option order= honoured on both classes;
 TWIN.dcm2quat  hughes and chiaverini 3x3 vs Nx3x3 arms;
 TWIN.estimator Tilt._compute_all vs Tilt.estimate (quaternion and angles, with and without mag), SAAM._compute_all vs
                SAAM.estimate, Complementary.am_estimation 1-D vs 2-D, am2angles vs Tilt angles;
 TWIN.metric    single vs batch arms of the metrics (see C18) and rmse;
 FLOW           every option the N-sample arm of a batch routine forwards to estimate() is also forwarded by its
                one-sample arm (method, representation, frame ...);
 DISPATCH       QuaternionArray.from_DCM, Quaternion.from_DCM and DCM.to_quaternion map the same five method names to the
                same callees with the same option keywords and defaults.
Not decided: bitwise equality; estimators whose batch path is a Python loop over estimate() are covered by C03's COUNT.
Added after the seeding rounds (DESIGN.md 6.6-6.8):
 ROWWISE / TWIN.from_DCM / TWIN.band  per-sample calls take and fill row t; the array constructor equals the scalar one on each pivot arm (sample-selected paths);
            the two arms of the closed-form converters gate their shortcuts on the same angle band.
Added after refactoring round 3 (DESIGN.md 6.9):
 ROWWISE.route  a batch estimator whose N-sample arm has no per-row estimate() call and is not twin-proved (Tilt, SAAM) gets no verdict (exit 2) instead of a silent pass.
Added after seeding rounds 5 and 6 and refactoring round 4 (DESIGN.md 6.10-6.12):
 ROWWISE.route pins; the scalar and array to_angles make the same tolerance tests (on unit rows).
"""
import ast
import numpy as np
from sa import poly as P
from sa.desugar import desugared
from sa.model import stmt_text
from sa.symeval import Interp, sym_vec, sym_mat, to_obj, unit_syms, ClassRef
from sa.lib import eq, all_of, QUAT, ORI, DCM, quat_obj, E_ref

F = "ahrs/filters/"


def rng(c, it):
    if c.op in ("<", ">", "<=", ">="):
        return False
    return None


def class_twins(chk, prog):
    a, b = sym_vec("ta", 4), sym_vec("tb", 4)
    Q = np.vstack([a, b])
    for sv, tag in ((True, "order=H"), (False, "order=S")):
        it = Interp(prog, oracle=rng)
        arr = quat_obj(it, Q, scalar_vector=sv, cls="QuaternionArray")
        rows = [quat_obj(it, a, scalar_vector=sv), quat_obj(it, b, scalar_vector=sv)]
        for nm in ("w", "x", "y", "z", "v"):
            f = prog.func(QUAT + "::QuaternionArray." + nm)
            chk.touch(f)
            chk.ob("TWIN.class", "%s [%s]" % (f.ref, tag), "QuaternionArray.%s[i] == Quaternion(row i).%s [%s]" % (nm, nm, tag),
                   lambda nm=nm, arr=arr, rows=rows, it=it: all_of(*[eq(to_obj(it.getattr(arr, nm, None))[i], it.getattr(rows[i], nm, None), "%s[%d]" % (nm, i)) for i in range(2)]),
                   module=QUAT, function="QuaternionArray." + nm, construct="accessor %s [%s]" % (nm, tag), line=f.node.lineno)
        f = prog.func(QUAT + "::QuaternionArray.conjugate")
        chk.touch(f)
        chk.ob("TWIN.class", "%s [%s]" % (f.ref, tag), "QuaternionArray.conjugate()[i] == Quaternion(row i).conjugate [%s]" % tag,
               lambda arr=arr, rows=rows, it=it, f=f: all_of(*[eq(to_obj(it.run(f, [], self_obj=arr))[i], it.getattr(rows[i], "conjugate", None), "conjugate[%d]" % i) for i in range(2)]),
               module=QUAT, function="QuaternionArray.conjugate", construct="conjugate [%s]" % tag, line=f.node.lineno)
        f = prog.func(QUAT + "::QuaternionArray.to_angles")
        g = prog.func(QUAT + "::Quaternion.to_angles")
        chk.touch(f)
        # to_angles / to_DCM need versors: use unit rows
        ua, ub = unit_syms("tu"), unit_syms("tv")
        if not sv:
            ua, ub = np.roll(ua, -1), np.roll(ub, -1)
        arr_u = quat_obj(it, np.vstack([ua, ub]), scalar_vector=sv, cls="QuaternionArray")

        def angles_twin(arr_u=arr_u, ua=ua, ub=ub, it=it, f=f, g=g, sv=sv):
            from sa.symeval import Interp as _I
            mark = len(_I.GATE_LOG)
            res = [eq(to_obj(it.run(f, [], self_obj=arr_u))[i], it.run(g, [], self_obj=quat_obj(it, r_, scalar_vector=sv)), "to_angles[%d]" % i) for i, r_ in enumerate((ua, ub))]
            # the two copies must also make the same tolerance tests: a band of attitudes special-cased by one copy only is a row-wise disagreement on that band
            gates = {}
            for fn_, lhs_, rhs_, tol_, _ans in _I.GATE_LOG[mark:]:
                gates.setdefault(fn_.rsplit("::", 1)[-1], set()).add((str(lhs_), str(rhs_), tuple(tol_)))
            ga, gs = gates.get("QuaternionArray.to_angles", set()), gates.get("Quaternion.to_angles", set())
            if ga != gs:
                only = sorted(ga ^ gs)[0]
                who = "QuaternionArray.to_angles" if only in ga else "Quaternion.to_angles"
                res.append((False, "only %s makes the tolerance test isclose(%s, %s): on the attitudes inside that band it returns a special-cased answer the other class "
                                   "does not give" % (who, only[0][:60], only[1]), None))
            return all_of(*res)
        chk.ob("TWIN.class", "%s [%s]" % (f.ref, tag), "QuaternionArray.to_angles()[i] == Quaternion(row i).to_angles() [%s], same tolerance tests in both" % tag,
               angles_twin, module=QUAT, function="QuaternionArray.to_angles", construct="to_angles [%s]" % tag, line=f.node.lineno)
        f = prog.func(QUAT + "::QuaternionArray.to_DCM")
        g = prog.func(QUAT + "::Quaternion.to_DCM")
        chk.ob("TWIN.class", "%s [%s]" % (f.ref, tag), "QuaternionArray.to_DCM()[i] == Quaternion(row i).to_DCM() [%s]" % tag,
               lambda arr_u=arr_u, ua=ua, ub=ub, it=it, f=f, g=g, sv=sv: all_of(*[eq(to_obj(it.run(f, [], self_obj=arr_u))[i], it.run(g, [], self_obj=quat_obj(it, r_, scalar_vector=sv)), "to_DCM[%d]" % i)
                                                                                   for i, r_ in enumerate((ua, ub))]),
               module=QUAT, function="QuaternionArray.to_DCM", construct="to_DCM [%s]" % tag, line=f.node.lineno)
    # constructors honour order=
    def ctor():
        it = Interp(prog)
        qa = it.instantiate(prog.cls(QUAT + "::QuaternionArray"), [Q.copy()], {"order": "S"})
        qh = it.instantiate(prog.cls(QUAT + "::QuaternionArray"), [Q.copy()], {})
        qs = it.instantiate(prog.cls(QUAT + "::Quaternion"), [a.copy()], {"order": "S"})
        ok = qa.attrs.get("scalar_vector") is False and qh.attrs.get("scalar_vector") is True and qs.attrs.get("scalar_vector") is False
        return ok or (False, "order='S' -> QuaternionArray.scalar_vector=%r, Quaternion.scalar_vector=%r" % (qa.attrs.get("scalar_vector"), qs.attrs.get("scalar_vector")))
    chk.ob("TWIN.class", QUAT + "::QuaternionArray.__new__", "order='S' selects scalar-last storage in both classes", ctor, module=QUAT, function="QuaternionArray.__new__", construct="order option")
    # from_rpy
    ang1, ang2 = sym_vec("ra", 3), sym_vec("rb", 3)
    f = prog.func(QUAT + "::QuaternionArray.from_rpy")
    g = prog.func(QUAT + "::Quaternion.from_rpy")
    chk.touch(f)

    def from_rpy():
        it = Interp(prog, oracle=rng)
        got = to_obj(it.run(f, [ClassRef(prog.cls(QUAT + "::QuaternionArray")), np.vstack([ang1, ang2])]))
        outs = []
        for i, an in enumerate((ang1, ang2)):
            one = to_obj(it.run(g, [ClassRef(prog.cls(QUAT + "::Quaternion")), an]))
            outs.append(eq(got[i], one / P.sqrt(sum((x * x for x in one), P.ZERO)), "from_rpy[%d]" % i))
        return all_of(*outs)
    chk.ob("TWIN.class", f.ref, "QuaternionArray.from_rpy(A)[i] == normalised Quaternion.from_rpy(A[i])", from_rpy, module=QUAT, function="QuaternionArray.from_rpy", construct="from_rpy", line=f.node.lineno)


def from_dcm_arms(chk, prog, tier="quick"):
    """TWIN.from_DCM: QuaternionArray(DCM=[R...]) row i equals Quaternion(dcm=R_i) for the default method on each of its four pivot arms.  The arm is selected
    by a sample rotation (dominant scalar / x / y / z component) that decides every data-dependent test of BOTH implementations; the results compared are the
    exact closed forms of that arm, so a sign or index slip in one row of a vectorised copy is found whatever the code looks like."""
    from sa.lib import sample_oracle
    import math
    q, r = unit_syms("fq"), unit_syms("fr")
    R = np.stack([E_ref(q), E_ref(r)])
    f = prog.func(QUAT + "::QuaternionArray.from_DCM")
    chk.touch(f)
    dominant = {"w": (0.2, 0.25, 0.3), "x": (0.85, 0.25, 0.3), "y": (0.25, 0.85, 0.3), "z": (0.25, 0.3, 0.85)}
    if tier == "thorough":
        # negative dominant components, two nearly equal largest components, and rotations close to a half-turn (scalar part nearly 0)
        dominant.update({"-x": (-0.85, 0.25, 0.3), "-y": (0.25, -0.85, 0.3), "-z": (0.25, 0.3, -0.85), "x~y": (0.62, 0.61, 0.3), "y~z": (0.3, 0.61, 0.62),
                         "x near half-turn": (0.8, 0.45, 0.39), "y near half-turn": (0.45, 0.8, 0.39), "z near half-turn": (0.39, 0.45, 0.8), "tiny angle": (1e-4, 2e-4, -1e-4)})
    for name, (x_, y_, z_) in dominant.items():
        def law(x_=x_, y_=y_, z_=z_, name=name):
            w_ = math.sqrt(1 - x_ * x_ - y_ * y_ - z_ * z_)
            vals = {"fqw": w_, "fqx": x_, "fqy": y_, "fqz": z_, "frw": w_, "frx": -x_, "fry": y_, "frz": -z_}
            orc = sample_oracle(vals)
            it = Interp(prog, oracle=orc)
            arr = it.instantiate(prog.cls(QUAT + "::QuaternionArray"), [], {"DCM": R.copy()})
            rows = to_obj(arr.attrs["array"])
            outs = []
            for i, qq in enumerate((q, r)):
                it1 = Interp(prog, oracle=orc)
                one = it1.instantiate(prog.cls(QUAT + "::Quaternion"), [], {"dcm": E_ref(qq).copy()})
                outs.append(eq(rows[i], to_obj(one.attrs["A"]), "row %d on the arm with dominant %s" % (i, name)))
            return all_of(*outs)
        chk.ob("TWIN.from_DCM", "%s::dominant %s" % (f.ref, name), "QuaternionArray(DCM=R)[i] == Quaternion(dcm=R_i) on the pivot arm taken when %s dominates" % name, law,
               module=QUAT, function="QuaternionArray.from_DCM", construct="default method, arm dominant %s" % name, line=f.node.lineno)


def dcm2quat_twins(chk, prog):
    A, B = sym_mat("Ca", 3, 3), sym_mat("Cb", 3, 3)
    for name in ("chiaverini", "hughes"):
        f = prog.func(ORI + "::" + name)
        chk.touch(f)

        def law(f=f, name=name):
            def oracle(c, it):
                if c.op in ("isclose", "allclose"):
                    return False          # generic arm: trace not close to 3, scalar part not close to 0
                if c.op == ">":
                    return True           # hughes: n > 0
                if c.op == "nonzero":
                    return True
                return rng(c, it)
            it = Interp(prog, oracle=oracle)
            batch = to_obj(it.run(f, [np.stack([A, B])]))
            return all_of(eq(batch[0], it.run(f, [A.copy()]), name + "[0]"), eq(batch[1], it.run(f, [B.copy()]), name + "[1]"))
        chk.ob("TWIN.dcm2quat", f.ref, "%s(N,3,3)[i] == %s(3,3) of row i (generic arm)" % (name, name), law, module=ORI, function=name, construct="%s single vs batch" % name, line=f.node.lineno)


def estimator_twins(chk, prog):
    a1, a2, m1, m2 = sym_vec("Aa", 3), sym_vec("Ab", 3), sym_vec("Ma", 3), sym_vec("Mb", 3)
    acc, mag = np.vstack([a1, a2]), np.vstack([m1, m2])
    # Tilt
    tb = prog.func(F + "tilt.py::Tilt._compute_all")
    te = prog.func(F + "tilt.py::Tilt.estimate")
    chk.touch(tb)
    chk.touch(te)
    for rep in ("quaternion", "angles"):
        for with_mag in (True, False):
            def law(rep=rep, with_mag=with_mag):
                it = Interp(prog, oracle=rng)
                obj = it.make_obj(F + "tilt.py::Tilt", acc=acc.copy(), mag=mag.copy() if with_mag else None, representation=rep)
                got = to_obj(it.run(tb, [], self_obj=obj))
                outs = []
                for i, (a_, m_) in enumerate(((a1, m1), (a2, m2))):
                    one = it.run(te, [a_.copy(), m_.copy() if with_mag else None, rep], self_obj=it.make_obj(F + "tilt.py::Tilt"))
                    outs.append(eq(got[i], one, "Tilt[%d]" % i))
                return all_of(*outs)
            chk.ob("TWIN.estimator", "%s [%s, mag=%s]" % (tb.ref, rep, with_mag), "Tilt batch row == Tilt.estimate(row) [%s, mag=%s]" % (rep, with_mag), law,
                   module=tb.module.rel, function=tb.qname, construct="Tilt batch vs estimate [%s, mag=%s]" % (rep, with_mag), line=tb.node.lineno)
    # SAAM
    sb = prog.func(F + "saam.py::SAAM._compute_all")
    se = prog.func(F + "saam.py::SAAM.estimate")
    chk.touch(sb)
    chk.touch(se)

    def saam():
        from sa.symeval import unit_vec
        # unit samples keep the expressions small (the normalisation of the inputs is then the identity in both copies)
        u1, u2, v1, v2 = unit_vec("Ua"), unit_vec("Ub"), unit_vec("Va"), unit_vec("Vb")
        uacc, umag = np.vstack([u1, u2]), np.vstack([v1, v2])
        it = Interp(prog, oracle=lambda c, i: True if c.op == ">" else rng(c, i))
        obj = it.make_obj(F + "saam.py::SAAM", acc=uacc.copy(), mag=umag.copy())
        got = to_obj(it.run(sb, [uacc.copy(), umag.copy()], self_obj=obj))
        return all_of(*[eq(got[i], it.run(se, [a_.copy(), m_.copy()], self_obj=obj), "SAAM[%d]" % i) for i, (a_, m_) in enumerate(((u1, v1), (u2, v2)))])
    chk.ob("TWIN.estimator", sb.ref, "SAAM batch row == SAAM.estimate(row)", saam, module=sb.module.rel, function=sb.qname, construct="SAAM batch vs estimate", line=sb.node.lineno)
    # Complementary.am_estimation
    cf = prog.func(F + "complementary.py::Complementary.am_estimation")
    chk.touch(cf)
    for with_mag in (True, False):
        def comp(with_mag=with_mag):
            it = Interp(prog, oracle=lambda c, i: (True if c.op == ">" else False) if c.op in (">", "<") else (False if c.op == "==" else None))
            obj = it.make_obj(F + "complementary.py::Complementary")
            got = to_obj(it.run(cf, [acc.copy()] + ([mag.copy()] if with_mag else []), self_obj=obj))
            return all_of(*[eq(got[i], it.run(cf, [a_.copy()] + ([m_.copy()] if with_mag else []), self_obj=obj), "am_estimation[%d]" % i) for i, (a_, m_) in enumerate(((a1, m1), (a2, m2)))])
        chk.ob("TWIN.estimator", "%s [mag=%s]" % (cf.ref, with_mag), "am_estimation 2-D row == 1-D arm [mag=%s]" % with_mag, comp, module=cf.module.rel, function=cf.qname,
               construct="am_estimation 1-D vs 2-D [mag=%s]" % with_mag, line=cf.node.lineno)
    # am2angles vs Tilt angles
    af = prog.func(ORI + "::am2angles")
    chk.touch(af)

    def am2():
        it = Interp(prog, oracle=rng)
        got = to_obj(it.run(af, [acc.copy(), mag.copy()]))
        one = it.run(te, [a1.copy(), m1.copy(), "angles"], self_obj=it.make_obj(F + "tilt.py::Tilt"))
        return eq(got[0], one, "am2angles[0]")
    chk.ob("TWIN.estimator", af.ref, "am2angles row == Tilt.estimate(row, 'angles')", am2, module=ORI, function="am2angles", construct="am2angles vs Tilt", line=af.node.lineno)
    # rmse
    rf = prog.func("ahrs/utils/metrics.py::rmse")
    chk.touch(rf)
    x1, x2, y1, y2 = sym_vec("Xa", 3), sym_vec("Xb", 3), sym_vec("Ya", 3), sym_vec("Yb", 3)

    def rmse():
        it = Interp(prog)
        got = to_obj(it.run(rf, [np.vstack([x1, x2]), np.vstack([y1, y2])]))
        return all_of(eq(got[0], it.run(rf, [x1, y1]), "rmse[0]"), eq(got[1], it.run(rf, [x2, y2]), "rmse[1]"))
    chk.ob("TWIN.metric", rf.ref, "rmse batch row == rmse of the row", rmse, module=rf.module.rel, function="rmse", construct="rmse single vs batch", line=rf.node.lineno)


# ------------------------------------------------------------------------------------------ FLOW / DISPATCH

BATCH_ESTIMATORS = ["saam.py::SAAM", "famc.py::FAMC", "fqa.py::FQA", "quest.py::QUEST", "davenport.py::Davenport", "flae.py::FLAE",
                    "oleq.py::OLEQ", "triad.py::TRIAD", "tilt.py::Tilt", "aqua.py::AQUA"]


def flow_rule(chk, prog):
    """inside one _compute_all, every call of self.estimate forwards the same set of option arguments (beyond the samples)"""
    for key in BATCH_ESTIMATORS:
        cls = prog.cls(F + key)
        f = cls.lookup("_compute_all")
        est = cls.lookup("estimate")
        if f is None or est is None:
            chk.error("FLOW: %s has no _compute_all/estimate" % key)
            continue
        chk.touch(f)
        calls = [n for n in ast.walk(f.node) if isinstance(n, ast.Call) and ast.unparse(n.func) == "self.estimate"]
        if not calls:
            chk.record("FLOW", f.ref, "vectorised batch routine (no estimate() calls)")
            continue
        params = est.params[1:]

        def options(call):
            bound = {}
            for p, a in zip(params, call.args):
                bound[p] = a
            for k in call.keywords:
                if k.arg:
                    bound[k.arg] = k.value
            # options = parameters that are not per-sample data (not subscripted by the loop variable / the raw arrays)
            out = {}
            for p, a in bound.items():
                t = ast.unparse(a)
                if isinstance(a, ast.Constant) and a.value is None:
                    continue
                if p in ("acc", "mag", "gyr", "w1", "w2", "a", "m"):
                    continue
                out[p] = t
            return out
        opts = [options(c) for c in calls]
        union = {}
        for o in opts:
            union.update(o)
        bad = False
        for c, o in zip(calls, opts):
            missing = [p for p in union if p not in o]
            if missing:
                bad = True
                chk.finding("FLOW", f.module.rel, f.qname, "%s drops %s" % (stmt_text(c), ",".join(missing)),
                            "this estimate() call does not forward the option(s) %s that a sibling call in the same batch routine forwards (%s): the one-sample path ignores the constructor's setting" % (
                                ", ".join(missing), ", ".join("%s=%s" % kv for kv in union.items())), line=c.lineno)
        chk.record("FLOW", f.ref, "all %d estimate() calls forward the same options %s" % (len(calls), sorted(union)), verdict="VIOLATION" if bad else "HOLDS")


METHODS = ["chiaverini", "hughes", "itzhack", "sarabandi", "shepperd"]


def dispatch_rule(chk, prog):
    """DISPATCH by interpretation: each route is run with every method name and option; the five converters are
    intercepted and must be reached under their own name with the option forwarded under the converter's keyword."""
    from sa.symeval import unit_syms as usy
    R = E_ref(usy("dq"))
    R3 = np.stack([R, E_ref(usy("dr"))])
    conv = {m: ORI + "::" + m for m in METHODS}
    option_of = {"itzhack": ("version", "version", 2), "sarabandi": ("threshold", "eta", P.sym("thr"))}

    def run_route(route, method, opts):
        seen = []

        def mk(name):
            def h_(it, a_, k_):
                seen.append((name, dict(k_), len(a_)))
                x = to_obj(a_[0])
                n = x.shape[0] if x.ndim == 3 else None
                one = np.array([P.ONE, P.ZERO, P.ZERO, P.ZERO], dtype=object)
                return np.stack([one] * n) if n else one
            return h_
        oracle = lambda c, i: True if c.op in ("isclose", "allclose") else None
        it = Interp(prog, oracle=oracle, intercepts={ref: mk(m) for m, ref in conv.items()})
        kwargs = dict(opts)
        if method is not None:
            kwargs["method"] = method
        if route == "Quaternion(dcm=)":
            it.instantiate(prog.cls(QUAT + "::Quaternion"), [], dict(kwargs, dcm=R.copy()))
        elif route == "QuaternionArray(DCM=)":
            it.instantiate(prog.cls(QUAT + "::QuaternionArray"), [], dict(kwargs, DCM=R3.copy()))
        else:
            obj = it.make_obj(DCM + "::DCM", data=R.copy(), A=R.copy())
            it.run(prog.func(DCM + "::DCM.to_quaternion"), [], kwargs, self_obj=obj)
        return seen
    for route, ref in (("Quaternion(dcm=)", QUAT + "::Quaternion.from_DCM"), ("QuaternionArray(DCM=)", QUAT + "::QuaternionArray.from_DCM"), ("DCM.to_quaternion", DCM + "::DCM.to_quaternion")):
        f = prog.func(ref)
        chk.touch(f)
        for method in [None] + METHODS:
            want = method or "shepperd"
            opts = {}
            if want in option_of:
                opts = {option_of[want][0]: option_of[want][2]}

            def law(route=route, method=method, want=want, opts=opts):
                seen = run_route(route, method, opts)
                names = {n for n, _, _ in seen}
                if names != {want}:
                    return (False, "%s with method=%r reaches %s, expected %s" % (route, method, sorted(names) or "no converter", want))
                if want in option_of:
                    user_kw, callee_kw, val = option_of[want]
                    for n, k, nargs in seen:
                        got = k.get(callee_kw)
                        if got is None or not (got == val if not hasattr(val, "same") else (hasattr(got, "same") and got.same(val))):
                            return (False, "%s does not forward %s=%s to %s(%s=...) (got %r)" % (route, user_kw, val, want, callee_kw, got))
                return True
            chk.ob("DISPATCH", "%s::%s[method=%s]" % (ref, route, method), "%s with method=%s reaches %s with its option forwarded" % (route, method, want), law,
                   module=f.module.rel, function=f.qname, construct="dispatch method=%s via %s" % (method, route), line=f.node.lineno)
    # unknown method names are rejected
    from sa.symeval import Raised
    for route, ref in (("Quaternion(dcm=)", QUAT + "::Quaternion.from_DCM"), ("QuaternionArray(DCM=)", QUAT + "::QuaternionArray.from_DCM"), ("DCM.to_quaternion", DCM + "::DCM.to_quaternion")):
        def rej(route=route):
            try:
                run_route(route, "no-such-method", {})
            except Raised as e:
                return e.exc_name == "ValueError" or (False, "unknown method raises %s" % e.exc_name)
            return (False, "unknown method name is not rejected")
        f = prog.func(ref)
        chk.ob("DISPATCH", "%s::%s[unknown]" % (ref, route), "an unknown method name raises ValueError", rej, module=f.module.rel, function=f.qname, construct="unknown method rejected via %s" % route)


PER_ROW_SITES = {"FQA": 2, "AQUA": 2}      # batch routines with two N-sample arms (with / without magnetometer), each a loop over estimate(); all others have one
TWIN_PROVED = {"Tilt", "SAAM"}       # vectorised N-sample arms compared with estimate() by TWIN.estimator


def rmse_nan_twin(chk, prog):
    """TWIN.nan: the one-dimensional and the row-wise arm of rmse treat missing (NaN) entries the same way: the same NaN-aware reduction in every return
    (np.nanmean divides by the number of VALID entries; np.nansum(...)/N by the row length: the two agree only on rows without NaN, which the symbolic twin
    comparison cannot tell apart)."""
    f = prog.func("ahrs/utils/metrics.py::rmse")
    chk.touch(f)
    REDS = {"nanmean", "nansum", "mean", "sum", "average", "nanmedian", "median"}
    defs = {s_.targets[0].id: s_.value for s_ in ast.walk(f.node) if isinstance(s_, ast.Assign) and len(s_.targets) == 1 and isinstance(s_.targets[0], ast.Name)}

    def reds(e, depth=0):
        out = set()
        for x in ast.walk(e):
            if isinstance(x, ast.Call) and ast.unparse(x.func).split(".")[-1] in REDS:
                out.add(ast.unparse(x.func).split(".")[-1])
            if isinstance(x, ast.Name) and x.id in defs and depth < 3:
                out |= reds(defs[x.id], depth + 1)
        return out
    arms = [(r_, frozenset(reds(r_.value))) for r_ in ast.walk(f.node) if isinstance(r_, ast.Return) and r_.value is not None]
    kinds = {k for _, k in arms}
    site = f.ref + "::returns"
    if len(arms) < 2:
        chk.record("TWIN.nan", site, "a single return: nothing to compare")
    elif len(kinds) == 1:
        chk.record("TWIN.nan", site, "every arm reduces with %s" % sorted(next(iter(kinds))))
    else:
        a_, b_ = arms[0], next(x for x in arms if x[1] != arms[0][1])
        why = "one arm of rmse reduces with %s, another with %s: on data with NaN entries the two normalise differently (valid count against full length), so a row of a batch " \
              "and the same row given alone get different values" % (sorted(a_[1]), sorted(b_[1]))
        chk.record("TWIN.nan", site, "the arms of rmse use the same NaN-aware reduction", verdict="VIOLATION", detail=why)
        chk.finding("TWIN.nan", f.module.rel, f.qname, "different reductions in the arms of rmse", why, line=b_[0].lineno)


def rowwise_rule(chk, prog):
    """ROWWISE: in every batch routine a per-sample call `self.estimate(...)` made inside a loop or comprehension over t takes row t of each data array
    (the loop variable itself as the index, no offset, no constant) and, in the loop form, stores the result in row t of the output"""
    n = 0
    for rel, m in prog.modules.items():
        if not rel.startswith("ahrs/filters/"):
            continue
        for c in m.classes.values():
            f = c.methods.get("_compute_all")
            if f is None:
                continue
            f = desugared(f)       # direct iteration over the sample arrays in index form
            scopes = []
            for node in ast.walk(f.node):
                if isinstance(node, ast.For) and isinstance(node.target, ast.Name):
                    scopes.append((node.target.id, node.body, node))
                elif isinstance(node, (ast.ListComp, ast.GeneratorExp)) and len(node.generators) == 1 and isinstance(node.generators[0].target, ast.Name):
                    scopes.append((node.generators[0].target.id, [node.elt], node))
            for var, body, scope in scopes:
                for b in body:
                    for call in ast.walk(b):
                        if not (isinstance(call, ast.Call) and isinstance(call.func, ast.Attribute) and call.func.attr == "estimate"
                                and isinstance(call.func.value, ast.Name) and call.func.value.id == "self"):
                            continue
                        n += 1
                        chk.touch(f)
                        problems = []
                        rows = [a for a in list(call.args) + [k.value for k in call.keywords] if isinstance(a, ast.Subscript)]
                        if not rows:
                            problems.append("no argument of the per-sample call is a row of a data array")
                        for a in rows:
                            idx = a.slice.elts[0] if isinstance(a.slice, ast.Tuple) else a.slice
                            if not (isinstance(idx, ast.Name) and idx.id == var):
                                problems.append("argument `%s` is not row `%s` of its array" % (ast.unparse(a), var))
                        if isinstance(scope, ast.For) and isinstance(b, ast.Assign):
                            tg = b.targets[0]
                            tidx = (tg.slice.elts[0] if isinstance(tg.slice, ast.Tuple) else tg.slice) if isinstance(tg, ast.Subscript) else None
                            if not (isinstance(tidx, ast.Name) and tidx.id == var):
                                problems.append("result stored in `%s`, not in row `%s` of the output" % (ast.unparse(tg), var))
                        site = "%s::%s" % (f.ref, ast.unparse(call)[:70])
                        if problems:
                            chk.record("ROWWISE", site, "per-sample call takes and fills row t", verdict="VIOLATION", detail="; ".join(problems))
                            chk.finding("ROWWISE", rel, f.qname, "per-sample call %s" % ast.unparse(call)[:70], "; ".join(problems), line=call.lineno)
                        else:
                            chk.record("ROWWISE", site, "the call takes row %s of every data array%s" % (var, " and fills row %s" % var if isinstance(scope, ast.For) else ""))
    # a batch estimator whose N-sample arm no longer goes through estimate() row by row is a second implementation of the estimator: unless it is one of
    # the routines proved equal to estimate() by TWIN.estimator it cannot be decided here (no verdict, not an alarm)
    for key in BATCH_ESTIMATORS:
        cls = prog.cls(F + key)
        f = cls.lookup("_compute_all")
        if f is None or cls.name in TWIN_PROVED:
            continue
        g = desugared(f)
        per_row = 0
        for node in ast.walk(g.node):
            body = node.body if isinstance(node, ast.For) else ([node.elt] if isinstance(node, (ast.ListComp, ast.GeneratorExp)) else None)
            if body is None:
                continue
            per_row += sum(1 for b in body for call in ast.walk(b) if isinstance(call, ast.Call) and ast.unparse(call.func) == "self.estimate")
        # a comprehension / loop of the batch routine that builds rows through ANOTHER method of the object is a second implementation next to estimate()
        from props.c06 import STREAMING as _STREAMING
        _streaming = set(_STREAMING.get(key, ()))
        other = []
        for node in ast.walk(g.node):
            body = node.body if isinstance(node, ast.For) else ([node.elt] if isinstance(node, (ast.ListComp, ast.GeneratorExp)) else None)
            if body is None:
                continue
            calls_ = [c_ for b in body for c_ in ast.walk(b) if isinstance(c_, ast.Call) and isinstance(c_.func, ast.Attribute) and isinstance(c_.func.value, ast.Name) and c_.func.value.id == "self"]
            # (the streaming methods of a recursive filter -- AQUA.updateIMU / updateMARG -- are its per-sample route: C06's PROTOCOL owns those loops)
            calls_ = [c_ for c_ in calls_ if c_.func.attr not in _streaming and not c_.func.attr.startswith(("_assert", "_guard", "_validate"))]
            if calls_ and not any(c_.func.attr == "estimate" for c_ in calls_):
                other.append(calls_[0])
        if other:
            chk.error("ROWWISE.route: %s._compute_all builds rows through `%s` next to estimate(): a separate implementation of the estimator that is not among the routines "
                      "proved equal to estimate() (%s) - cannot decide" % (cls.name, ast.unparse(other[0])[:50], ", ".join(sorted(TWIN_PROVED))))
        want = PER_ROW_SITES.get(cls.name, 1)
        if per_row < want:
            chk.error("ROWWISE.route: %s._compute_all has %d per-row self.estimate(...) call site(s), %d confirmed by hand: an N-sample arm is now a separate implementation that "
                      "is not among the routines proved equal to estimate() (%s) - cannot decide" % (cls.name, per_row, want, ", ".join(sorted(TWIN_PROVED))))
        else:
            chk.record("ROWWISE.route", f.ref, "the N-sample arm produces its rows through self.estimate (%d per-row call sites)" % per_row)
    if n < 6:
        chk.error("ROWWISE: only %d per-sample estimate calls indexed by a loop variable found in batch routines (10 confirmed by hand)" % n)


def canaries(chk, prog):
    from sa.report import Check

    def slip(tree):
        for c in ast.walk(tree):
            if isinstance(c, ast.ClassDef) and c.name == "Tilt":
                for n in ast.walk(c):
                    if isinstance(n, ast.FunctionDef) and n.name == "_compute_all":
                        for s in ast.walk(n):
                            if isinstance(s, ast.Assign) and ast.unparse(s.targets[0]).replace(" ", "") == "Q[:,2]" and isinstance(s.value, ast.BinOp):
                                s.value.op = ast.Sub() if isinstance(s.value.op, ast.Add) else ast.Add()
                                return True
        return False

    def drop_rep(tree):
        for c in ast.walk(tree):
            if isinstance(c, ast.ClassDef) and c.name == "TRIAD":
                for n in ast.walk(c):
                    if isinstance(n, ast.Call) and ast.unparse(n.func) == "self.estimate" and len(n.args) == 3:
                        n.args.pop()
                        return True
        return False
    for name, rel, tr, fn in (("flip a sign in Tilt._compute_all only", F + "tilt.py", slip, estimator_twins), ("drop `representation` from one TRIAD estimate() call", F + "triad.py", drop_rep, flow_rule)):
        try:
            p2 = prog.mutated(rel, tr)
            sub = Check("C07", chk.tier, p2, quiet=True)
            fn(sub, p2)
            chk.canary(name, bool(sub.findings), "%d findings" % len(sub.findings))
        except Exception as e:
            chk.canary(name, False, "crashed: %s: %s" % (type(e).__name__, e))


def run(chk, prog, tier):
    # the two arms of the closed-form converters take their degenerate shortcut on the same band of rotations
    from props.c02 import gate_bands
    bands = gate_bands(chk, prog, pid="C07", limit_pi=float("inf"), limit_0=float("inf"))
    for name in ("hughes", "chiaverini"):
        a, b = sorted(bands.get((name, "3x3"), [])), sorted(bands.get((name, "Nx3x3"), []))
        ok = len(a) == len(b) and all(x[0] == y[0] and (x[1] == y[1] or (min(x[1], y[1]) > 0 and max(x[1], y[1]) / min(x[1], y[1]) < 2.0)) for x, y in zip(a, b))
        site = "ahrs/common/orientation.py::%s::gate bands" % name
        if ok:
            chk.record("TWIN.band", site, "3x3 and Nx3x3 arms gate their limit shortcuts on the same angle bands: %s" % (a,))
        else:
            why = "the 3x3 arm takes its limit shortcuts on the bands %s (limit, width in rad) but the Nx3x3 arm on %s: rows inside one band and outside the other are converted by different formulas" % (a, b)
            chk.record("TWIN.band", site, "both arms gate on the same bands", verdict="VIOLATION", detail=why)
            chk.finding("TWIN.band", "ahrs/common/orientation.py", name, "tolerance gates of the two arms", why, line=prog.func("ahrs/common/orientation.py::" + name).node.lineno)
    from sa import lints as _lints
    _lints.domain_guard(chk, prog, refs=['ahrs/common/orientation.py::chiaverini', 'ahrs/filters/tilt.py::Tilt._compute_all', 'ahrs/filters/tilt.py::Tilt.estimate'])
    from sa import lints
    mm = prog.module("ahrs/utils/metrics.py")
    lints.no_sign_zero(chk, prog, list(mm.funcs.values()), "for two quaternions with exactly zero inner product (rotations a half-turn apart) the antipode selection "
                       "by np.sign(<q1,q2>) zeroes one operand; min(|q1-q2|, |q1+q2|) has no such hole")
    class_twins(chk, prog)
    dcm2quat_twins(chk, prog)
    from_dcm_arms(chk, prog, tier)
    rmse_nan_twin(chk, prog)
    estimator_twins(chk, prog)
    from props.c18 import metric_twins
    metric_twins(chk, prog)
    rowwise_rule(chk, prog)
    from props.c18 import chordal_twin
    chordal_twin(chk, prog, rule="TWIN.metric")
    flow_rule(chk, prog)
    dispatch_rule(chk, prog)
    chk.require_count("TWIN.metric", 5)
    chk.require_count("TWIN.class", 18)
    chk.require_count("TWIN.estimator", 7)
    chk.require_count("FLOW", 9)
    canaries(chk, prog)
    return __doc__
