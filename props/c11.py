"""C11 — constructors only ever produce valid rotations and reject what cannot be one.

Decided (FACTS must-analysis, dominance of gates, structural gate contents):
 CTOR-GATE.quat   Quaternion.__new__ / QuaternionArray.__new__: on every path the array handed to ndarray.__new__ passed the
                  shape test and an exact, NaN-safe zero-norm test (``not n > 0`` / ``~(n > 0)``; ``n == 0`` lets NaN through,
                  ``isclose(n, 0)`` rejects valid tiny vectors), and with versor(s)=True it is the value divided by its own norm;
 CTOR-GATE.dcm    DCM.__new__: on every path (all keyword arms) the array handed to ndarray.__new__ is the one that passed
                  _assert_SO3;
 SO3-GATE         _assert_SO3 (2-D and 3-D arm) and Quaternion.from_DCM raise unless BOTH det ~ 1 and A A^T ~ I;
 REWRAP           __add__ / __sub__ return through the normalising constructor;
 UNIT/REAL-RET    random_attitudes, from_rpy, from_DCM, rotate_by, average return unit, real quaternions.
Not decided: where exactly the isclose/allclose tolerances put the acceptance boundary of SO(3) (NumPy defaults
1e-8 + 1e-5 relative lie between the 1e-12 accepted and 1e-4 rejected distances the property names).
Added after the seeding rounds (DESIGN.md 6.6-6.8):
 BUFFER-LAYOUT / SHADOW-INIT / REAL-GATE  the buffer handed to ndarray.__new__ is C-contiguous float64 and is what the shadow attribute is bound to; the shared
            validator admits real dtypes only.
Added after refactoring round 3 (DESIGN.md 6.9):
 SO3-GATE follows the determinant / Gram / identity parts of the gate through locals, loops and `&`; conditional-expression returns are judged arm by arm.
"""
import ast
from sa.facts import Facts
from sa import poly as P
from sa.model import stmt_text
from sa.lib import eq, QUAT, DCM
from sa.symeval import Interp, sym_vec, to_obj, ClassRef


def creation_calls(f):
    """super(...).__new__(subtype, shape, dtype, buffer) calls"""
    out = []
    for n in ast.walk(f.node):
        if isinstance(n, ast.Call) and isinstance(n.func, ast.Attribute) and n.func.attr == "__new__" and isinstance(n.func.value, ast.Call) \
                and isinstance(n.func.value.func, ast.Name) and n.func.value.func.id == "super":
            out.append(n)
    return out


def buffer_arg(call):
    """the buffer handed to ndarray.__new__(subtype, shape, dtype, buffer): fourth positional argument or the keyword"""
    if len(call.args) > 3:
        return call.args[3]
    for k in call.keywords:
        if k.arg == "buffer":
            return k.value
    return None


def view_casts(f):
    """`X.view(subtype)` with the constructor's own first parameter: the instance is made by view casting.  -> [(call, base expression stripped of copies)]"""
    out = []
    for n in ast.walk(f.node):
        if isinstance(n, ast.Call) and isinstance(n.func, ast.Attribute) and n.func.attr == "view" and n.args and isinstance(n.args[0], ast.Name) \
                and f.params and n.args[0].id == f.params[0]:
            base = n.func.value
            while True:
                if isinstance(base, ast.Call) and isinstance(base.func, ast.Attribute) and base.func.attr == "copy" and not base.args:
                    base = base.func.value
                elif isinstance(base, ast.Call) and ast.unparse(base.func).split(".")[-1] in ("array", "asarray", "copy", "ascontiguousarray") and base.args:
                    base = base.args[0]
                else:
                    break
            out.append((n, base))
    return out


def _c_float_buffer(node):
    """np.ascontiguousarray(x, dtype=float) / np.array(x, dtype=float, order='C') / np.require(x, float, 'C'): a C-ordered float64 array whatever x was"""
    if not isinstance(node, ast.Call):
        return False
    name = ast.unparse(node.func).split(".")[-1]
    kws = {k.arg: k.value for k in node.keywords if k.arg}
    dt = kws.get("dtype") or (node.args[1] if len(node.args) > 1 else None)
    is_float = dt is not None and ast.unparse(dt) in ("float", "np.float64", "numpy.float64", "'float64'", "np.double")
    if name == "ascontiguousarray":
        return is_float
    if name in ("array", "asarray") and is_float:
        return "order" in kws and ast.unparse(kws["order"]) in ("'C'", '"C"')
    return False


class LayoutFacts(Facts):
    """adds the must-fact ("CBUF", <local name>): the local currently holds a C-contiguous float64 array (killed by any other rebinding)"""
    def bind(self, t, value_node, val, st, stmt):
        keep_float = False
        if isinstance(t, ast.Name):
            # arithmetic on a fresh float array yields a fresh float array (true division always does)
            keep_float = isinstance(value_node, ast.BinOp) and isinstance(value_node.op, (ast.Div, ast.Mult, ast.Add, ast.Sub)) \
                and isinstance(value_node.left, ast.Name) and ("FLOATCOPY", value_node.left.id) in st["F"]
            st["F"] = frozenset(x for x in st["F"] if x != ("CBUF", t.id))
            st["F"] = frozenset(x for x in st["F"] if x != ("FLOATCOPY", t.id))
        # a plain alias of a local with a known layout keeps it:  q = pure
        alias_facts = []
        if isinstance(t, ast.Name) and isinstance(value_node, ast.Name):
            alias_facts = [k for k in ("CBUF", "FLOATCOPY", "RANK1") if (k, value_node.id) in st["F"]]
        super().bind(t, value_node, val, st, stmt)
        for k in alias_facts:
            self.add(st, k, t.id)
        if keep_float:
            self.add(st, "FLOATCOPY", t.id)
        # a freshly allocated array is C-contiguous, and float64 unless another dtype is asked for:  np.zeros(4) / np.zeros(4, dtype=float) / np.empty / np.ones / np.full
        if isinstance(t, ast.Name) and isinstance(value_node, ast.Call) and ast.unparse(value_node.func) in ("np.zeros", "np.ones", "np.empty", "np.full", "numpy.zeros", "numpy.ones", "numpy.empty"):
            kws = {k.arg: k.value for k in value_node.keywords if k.arg}
            dt = kws.get("dtype", value_node.args[1] if (len(value_node.args) > 1 and not ast.unparse(value_node.func).endswith("full")) else None)
            if (dt is None or ast.unparse(dt) in ("float", "np.float64", "numpy.float64")) and "order" not in kws:
                self.add(st, "CBUF", t.id)
                self.add(st, "FLOATCOPY", t.id)
        if isinstance(t, ast.Name) and _c_float_buffer(value_node):
            self.add(st, "CBUF", t.id)
        if isinstance(t, ast.Name) and isinstance(value_node, ast.Call) and ast.unparse(value_node.func) in ("np.array", "numpy.array") \
                and not any(k.arg == "copy" for k in value_node.keywords):
            # np.array copies: a fresh array; float if dtype=float or if a float literal is among the listed elements
            kws = {k.arg: k.value for k in value_node.keywords if k.arg}
            floaty = ("dtype" in kws and ast.unparse(kws["dtype"]) in ("float", "np.float64")) or \
                     (value_node.args and isinstance(value_node.args[0], (ast.List, ast.Tuple)) and any(isinstance(e, ast.Constant) and isinstance(e.value, float) for e in value_node.args[0].elts))
            if floaty:
                self.add(st, "FLOATCOPY", t.id)


def buffer_layout(chk, f, node, buf, st, one_dim_gate=False):
    """BUFFER-LAYOUT: ndarray.__new__(subtype, shape, float, buffer) reads `buffer` as raw C-ordered float64 memory.  The array handed over
    must be known to have exactly that layout, otherwise a Fortran-ordered (transposed), strided or integer input is silently reinterpreted:
    the object's own array value then differs from the validated/normalised one kept in the shadow attribute."""
    site = "%s::buffer of ndarray.__new__" % f.ref
    name = buf.id if isinstance(buf, ast.Name) else None
    if name is not None and ("CBUF", name) in st["F"]:
        chk.record("BUFFER-LAYOUT", site, "the buffer is np.ascontiguousarray(..., dtype=float) on every path")
        return
    if name is not None and ("RANK1", name) in st["F"] and ("FLOATCOPY", name) in st["F"]:
        chk.record("BUFFER-LAYOUT", site, "the buffer is a float copy of an array whose shape gate admits rank 1 only (a rank-1 copy is contiguous)")
        return
    why = "`%s` is handed to ndarray.__new__ as a raw buffer without being made C-contiguous float64 first: for a Fortran-ordered / transposed / strided or " \
          "integer-typed input the object's array value is a reinterpretation of the memory (scrambled rows, transposed matrix, denormal garbage)" % (name or ast.unparse(buf))
    chk.record("BUFFER-LAYOUT", site, "buffer provably C-contiguous float64", verdict="VIOLATION", detail=why)
    chk.finding("BUFFER-LAYOUT", f.module.rel, f.qname, "buffer argument `%s`" % (name or ast.unparse(buf)), why, line=node.lineno)


SHADOWS = {"Quaternion": "A", "QuaternionArray": "array", "DCM": "A"}


def shadow_init(chk, f):
    """SHADOW-INIT: the constructor binds the class's shadow attribute (A / array: what every accessor and method reads) to the very array it hands to
    ndarray.__new__ as the buffer, so that the object's own value and the shadow start out as one piece of memory"""
    cname = f.cls.name if f.cls is not None else None
    attr = SHADOWS.get(cname)
    creates = creation_calls(f)
    # view casting is the other way to make the instance: `obj = X.view(subtype)` shares X's memory when X is a name; `X.copy().view(subtype)` owns fresh memory
    views = [s_ for s_ in ast.walk(f.node) if isinstance(s_, ast.Assign) and isinstance(s_.value, ast.Call) and isinstance(s_.value.func, ast.Attribute)
             and s_.value.func.attr == "view" and len(s_.targets) == 1 and isinstance(s_.targets[0], ast.Name)]
    if attr is None or not (creates or views):
        return
    bufs = {ast.unparse(buffer_arg(c)) for c in creates if buffer_arg(c) is not None}
    objs = set()
    for v in views:
        objs.add(v.targets[0].id)
        if isinstance(v.value.func.value, ast.Name):
            bufs.add(v.value.func.value.id)
    binds = [s_ for s_ in ast.walk(f.node) if isinstance(s_, ast.Assign) and any(isinstance(t, ast.Attribute) and t.attr == attr for t in s_.targets)]
    site = "%s::%s" % (f.ref, attr)

    def _is_obj(v):
        # the instance itself or a plain-ndarray view of it: obj, obj.view(np.ndarray), np.asarray(obj)
        if isinstance(v, ast.Name):
            return v.id in objs
        if isinstance(v, ast.Call) and isinstance(v.func, ast.Attribute) and v.func.attr == "view":
            return _is_obj(v.func.value)
        if isinstance(v, ast.Call) and ast.unparse(v.func).split(".")[-1] == "asarray" and v.args and not v.keywords:
            return _is_obj(v.args[0])
        return False
    if binds and all(ast.unparse(b.value) in bufs or _is_obj(b.value) for b in binds):
        chk.record("SHADOW-INIT", site, "obj.%s is bound to the memory the instance is made over (buffer of ndarray.__new__ / base of the view cast)" % attr)
    else:
        why = ("the constructor never binds obj.%s" % attr) if not binds else \
              ("obj.%s is bound to `%s`, not to the memory the instance is made over (%s): the object's value and what its methods read are two arrays - equal at first when one is a copy of the other, apart after the first in-place update" % (attr, ast.unparse(binds[0].value)[:40], ", ".join(sorted(bufs)) or "a fresh copy, view-cast"))
        chk.record("SHADOW-INIT", site, "shadow attribute bound to the construction buffer", verdict="VIOLATION", detail=why)
        chk.finding("SHADOW-INIT", f.module.rel, f.qname, "binding of obj.%s" % attr, why, line=f.node.lineno)


def quat_ctor(chk, prog, ref, versor_param):
    f = prog.func(ref)
    chk.touch(f)
    shadow_init(chk, f)
    for versor in (True, False):
        seen = []

        def on_call(fa, node, st):
            if node in creates:
                seen.append((node, buffer_arg(node), dict(st), fa))
            for vc, base in casts:
                if node is vc:
                    seen.append((node, base, dict(st), fa, "view"))
        creates = creation_calls(f)
        casts = view_casts(f)
        if not creates and not casts:
            chk.error("CTOR-GATE: no ndarray.__new__ call or view cast found in %s" % ref)
            return

        class G(LayoutFacts):
            def bind(self2, t, value_node, val, st, stmt):
                # the shape gate passed by X still holds for a plain alias of X and for a layout / dtype conversion of X (ascontiguousarray, asarray, array)
                src = None
                if isinstance(t, ast.Name):
                    if isinstance(value_node, ast.Name):
                        src = value_node.id
                    elif isinstance(value_node, ast.Call) and ast.unparse(value_node.func).split(".")[-1] in ("ascontiguousarray", "asarray", "array", "copy", "require") \
                            and value_node.args and isinstance(value_node.args[0], ast.Name):
                        src = value_node.args[0].id
                carry = [k for k in ("SHAPECHK", "RANK1") if src is not None and (k, src) in st["F"]]
                super().bind(t, value_node, val, st, stmt)
                for k in carry:
                    self2.add(st, k, t.id)

            def refine(self2, test, st, truth):
                super().refine(test, st, truth)
                # shape gate: `x.ndim != k or x.shape[-1] not in [...]` being False
                txt = ast.unparse(test)
                if not truth and ".ndim" in txt and ".shape" in txt:
                    for n in ast.walk(test):
                        if isinstance(n, ast.Attribute) and n.attr == "ndim" and isinstance(n.value, ast.Name):
                            self2.add(st, "SHAPECHK", n.value.id)
                    for n in ast.walk(test):
                        if isinstance(n, ast.Compare) and ast.unparse(n.left).endswith(".ndim") and isinstance(n.ops[0], ast.NotEq) \
                                and isinstance(n.comparators[0], ast.Constant) and n.comparators[0].value == 1 and isinstance(n.left.value, ast.Name):
                            self2.add(st, "RANK1", n.left.value.id)
        fa = G(f, prog, callbacks={"call": on_call}, assume={versor_param: versor}).analyse()
        if not seen:
            chk.error("CTOR-GATE: creation call of %s not reached with %s=%s" % (ref, versor_param, versor))
            continue
        for node, buf, st, fa2, *kind in seen:
            if versor and kind:
                chk.record("BUFFER-LAYOUT", "%s::view cast" % f.ref, "the instance is made by view casting: dtype and strides travel with the array, no raw buffer is reinterpreted")
            elif versor:
                buffer_layout(chk, f, node, buf, st)
            site = "%s::create[%s=%s]" % (ref, versor_param, versor)
            name = buf.id if isinstance(buf, ast.Name) else None
            problems = []
            if ("SHAPECHK", name) not in st["F"]:
                problems.append(("shape", "the array handed to ndarray.__new__ did not pass the ndim/shape test on every path"))
            nzs = [v for k, v in st["F"] if k == "NZS" and v.startswith("norm(")]
            nz = [v for k, v in st["F"] if k == "NZ" and v.startswith("norm(")]
            if not nzs:
                if nz:
                    problems.append(("zero-norm", "the zero-norm gate is not the exact NaN-safe form `not n > 0`: `n == 0` accepts NaN input, `isclose(n, 0)` rejects valid tiny vectors"))
                else:
                    problems.append(("zero-norm", "no zero-norm gate dominates the construction"))
            if versor and not fa2.is_unit(buf, st):
                problems.append(("normalise", "with %s=True the stored array is not the value divided by its own norm" % versor_param))
            if problems:
                for kind, why in problems:
                    chk.finding("CTOR-GATE.quat", f.module.rel, f.qname, "%s gate [%s=%s]" % (kind, versor_param, versor), why, line=node.lineno)
                chk.record("CTOR-GATE.quat", site, "shape, NaN-safe zero-norm and normalisation gates dominate construction", verdict="VIOLATION",
                           detail="; ".join(w for _, w in problems))
            else:
                chk.record("CTOR-GATE.quat", site, "shape, NaN-safe zero-norm and normalisation gates dominate construction")


def dcm_ctor(chk, prog):
    ref = DCM + "::DCM.__new__"
    f = prog.func(ref)
    chk.touch(f)
    shadow_init(chk, f)
    creates = creation_calls(f)
    seen = []

    def on_call(fa, node, st):
        fn = node.func
        if isinstance(fn, ast.Name) and fn.id == "_assert_SO3" and node.args:
            fa.add(st, "SO3CHK", fa.vn(node.args[0], st))
        if node in creates:
            seen.append((node, buffer_arg(node), dict(st), fa))
        # view casting: X.view(subtype) makes the instance over X's values (NumPy carries dtype and strides along: nothing is reinterpreted)
        if isinstance(fn, ast.Attribute) and fn.attr == "view" and node.args and isinstance(node.args[0], ast.Name) and f.params and node.args[0].id == f.params[0]:
            base = fn.value
            while True:
                if isinstance(base, ast.Call) and isinstance(base.func, ast.Attribute) and base.func.attr == "copy" and not base.args:
                    base = base.func.value
                elif isinstance(base, ast.Call) and ast.unparse(base.func).split(".")[-1] in ("array", "asarray", "copy", "ascontiguousarray") and base.args:
                    base = base.args[0]
                else:
                    break
            seen.append((node, base, dict(st), fa, "view"))
    LayoutFacts(f, prog, callbacks={"call": on_call}).analyse()
    if not seen:
        chk.error("CTOR-GATE.dcm: no reachable ndarray.__new__ call or view cast in DCM.__new__")
    for node, buf, st, fa, *kind in seen:
        if kind:
            chk.record("BUFFER-LAYOUT", "%s::view cast" % f.ref, "the instance is made by view casting: dtype and strides travel with the array, no raw buffer is reinterpreted")
        else:
            buffer_layout(chk, f, node, buf, st)
        ok = buf is not None and ("SO3CHK", fa.vn(buf, st)) in st["F"]
        site = ref + "::create"
        if ok:
            chk.record("CTOR-GATE.dcm", site, "the constructed array passed _assert_SO3 on every path (all keyword arms)")
        else:
            chk.record("CTOR-GATE.dcm", site, "the constructed array passed _assert_SO3 on every path", verdict="VIOLATION")
            chk.finding("CTOR-GATE.dcm", f.module.rel, f.qname, "SO(3) gate does not dominate construction",
                        "some path reaches ndarray.__new__ with an array that did not pass _assert_SO3 (e.g. a keyword-constructed matrix)", line=node.lineno)
    # every keyword arm is present: the routes of the property
    arms = {k for n in ast.walk(f.node) if isinstance(n, ast.Compare) and isinstance(n.ops[0], ast.In) and isinstance(n.left, ast.Constant)
            for k in [n.left.value]}
    for k in ("q", "rpy", "euler", "axang"):
        if k not in arms:
            chk.error("CTOR-GATE.dcm: keyword arm %r vanished from DCM.__new__" % k)
        else:
            chk.count("CTOR-GATE.dcm.arm")


def so3_gate(chk, prog, ref, var_hint="in_SO3"):
    """the gate variable must conjoin a determinant test and an orthogonality test on every path to `if not gate: raise`"""
    f = prog.func(ref)
    chk.touch(f)

    def direct(expr):
        """tags the expression text carries itself: a determinant, a Gram product X @ X.T, an identity matrix"""
        t = ast.unparse(expr)
        k = set()
        if "det(" in t:
            k.add("det")
        if "@" in t and ".T" in t:
            k.add("gram")
        if "identity(" in t or "eye(" in t:
            k.add("ident")
        return k

    def close(k):
        return k | ({"orth"} if {"gram", "ident"} <= k else set())

    def kinds(expr, env=None):
        """tags of an expression: a disjunction keeps only what both sides test, everything else (&, and, calls, comparisons) accumulates;
        locals contribute what was assigned to them"""
        env = env or {}
        if (isinstance(expr, ast.BinOp) and isinstance(expr.op, ast.BitOr)) or (isinstance(expr, ast.BoolOp) and isinstance(expr.op, ast.Or)):
            sides = [expr.left, expr.right] if isinstance(expr, ast.BinOp) else expr.values
            ks = [kinds(s_, env) for s_ in sides]
            return set.intersection(*ks)
        k = direct(expr)
        for n in ast.walk(expr):
            if isinstance(n, ast.Name) and n.id in env:
                k |= env[n.id]
        return close(k)
    results = []

    def walk(stmts, env):
        for s in stmts:
            if isinstance(s, ast.Assign) and len(s.targets) == 1 and isinstance(s.targets[0], ast.Name):
                env[s.targets[0].id] = kinds(s.value, env)
            elif isinstance(s, ast.AugAssign) and isinstance(s.target, ast.Name) and isinstance(s.op, ast.BitAnd):
                env[s.target.id] = close(env.get(s.target.id, set()) | kinds(s.value, env))
            elif isinstance(s, ast.AugAssign) and isinstance(s.target, ast.Name) and isinstance(s.op, ast.BitOr):
                env[s.target.id] = env.get(s.target.id, set()) & kinds(s.value, env)     # a disjunction weakens the gate
            elif isinstance(s, ast.Expr) and isinstance(s.value, ast.Call) and isinstance(s.value.func, ast.Attribute) and s.value.func.attr in ("append", "extend") \
                    and isinstance(s.value.func.value, ast.Name):
                nm = s.value.func.value.id
                env[nm] = env.get(nm, set()) | set().union(*[kinds(a_, env) for a_ in s.value.args]) if s.value.args else env.get(nm, set())
            elif isinstance(s, (ast.For, ast.While)):
                walk(s.body, env)
                walk(s.orelse, env)
            elif isinstance(s, ast.If):
                t = s.test
                if isinstance(t, ast.UnaryOp) and isinstance(t.op, ast.Not) and isinstance(t.operand, ast.Name) and t.operand.id in env \
                        and any(isinstance(b, ast.Raise) for b in s.body):
                    results.append((s, set(env[t.operand.id])))
                    continue
                if isinstance(t, ast.UnaryOp) and isinstance(t.op, ast.Not) and any(isinstance(b, ast.Raise) for b in s.body) and kinds(t.operand, env):
                    results.append((s, kinds(t.operand, env)))
                    continue
                e1, e2 = dict(env), dict(env)
                walk(s.body, e1)
                walk(s.orelse, e2)
                for k in set(e1) | set(e2):
                    env[k] = e1.get(k, set()) & e2.get(k, set()) if (k in e1 and k in e2) else set()
    walk(f.body(), {})
    if not results:
        # the gate may live in a validator the function calls as a statement (`_assert_rotation_matrix(dcm)`): analyse that helper instead
        for s_ in f.body():
            if isinstance(s_, ast.Expr) and isinstance(s_.value, ast.Call) and isinstance(s_.value.func, ast.Name):
                g = f.module.funcs.get(s_.value.func.id)
                if g is not None:
                    walk(g.body(), {})
                    if results:
                        chk.touch(g)
                        break
    if not results:
        chk.record("SO3-GATE", ref, "raise unless det ~ 1 and A A^T ~ I", verdict="VIOLATION")
        chk.finding("SO3-GATE", f.module.rel, f.qname, "no `if not <gate>: raise`", "the SO(3) gate (raise unless det ~ 1 and A A^T ~ I) was not found", line=f.node.lineno)
        return
    for s, k in results:
        site = "%s::%s" % (ref, stmt_text(s))
        if k >= {"det", "orth"}:
            chk.record("SO3-GATE", site, "gate conjoins determinant and orthogonality tests on every path")
        else:
            chk.record("SO3-GATE", site, "gate conjoins determinant and orthogonality tests on every path", verdict="VIOLATION")
            chk.finding("SO3-GATE", f.module.rel, f.qname, "gate lacks %s test: %s" % ("/".join(sorted({"det", "orth"} - k)), stmt_text(s)),
                        "a matrix failing the missing test (reflection with det -1, or a scaled/sheared matrix) is accepted", line=s.lineno)


def _one_return(chk, prog, f, ref, r):
    site = "%s::%s" % (ref, r["text"])
    v = r["value"]
    why = None
    if isinstance(v, ast.Call) and isinstance(v.func, ast.Attribute) and v.func.attr == "to_DCM":
        why = "rotation-matrix representation of a constructor-normalised quaternion"
    if ref.endswith("Quaternion.from_rpy"):
        why = "AVN"
    if why == "AVN":
        def avn():
            it = Interp(prog, oracle=lambda c, i: False if c.op in ("<", ">") else None)   # angles inside [-2pi, 2pi]
            ang = sym_vec("ang", 3)
            for a in ang:
                P.set_angle_unit(a, P.Fraction(1, 2))
            q = it.run(f, [ClassRef(prog.cls(QUAT + "::Quaternion")), ang])
            tot = P.ZERO
            for x in to_obj(q):
                tot = tot + x * x
            return eq(tot, P.ONE, "sum q^2")
        chk.ob("UNIT-RET.avn", site, "sum q^2 == 1 for the Euler->quaternion block", avn, module=f.module.rel, function=f.qname, construct="non-unit return: " + r["text"], line=r["line"])
        return
    if why:
        chk.record("UNIT-RET.exempt", site, why)
        return
    if r["unit"]:
        chk.record("UNIT-RET", site, "returned value carries UNIT")
    else:
        chk.record("UNIT-RET", site, "returned value carries UNIT", verdict="VIOLATION")
        chk.finding("UNIT-RET", f.module.rel, f.qname, "non-unit return: " + r["text"], "no normalisation reaches `%s`" % r["text"], line=r["line"])
    if r["complex"]:
        chk.record("REAL-RET", site, "returned value is real", verdict="VIOLATION")
        chk.finding("REAL-RET", f.module.rel, f.qname, "complex return: " + r["text"],
                    "value derived from np.linalg.eig reaches the return without .real (complex dtype with NumPy 2)", line=r["line"])
    else:
        chk.record("REAL-RET", site, "returned value is real")


def rewrap_and_returns(chk, prog):
    cls = prog.cls(QUAT + "::Quaternion")
    for op in ("__add__", "__sub__"):
        f = cls.lookup(op)
        chk.touch(f)
        ok = all(isinstance(n.value, ast.Call) and isinstance(n.value.func, ast.Name) and n.value.func.id == "Quaternion" and len(n.value.args) == 1 and not n.value.keywords
                 for n in ast.walk(f.node) if isinstance(n, ast.Return) and n.value is not None)
        if ok:
            chk.record("REWRAP", f.ref, "result re-enters the normalising constructor")
        else:
            chk.record("REWRAP", f.ref, "result re-enters the normalising constructor", verdict="VIOLATION")
            chk.finding("REWRAP", QUAT, f.qname, "return is not Quaternion(<sum>)", "%s does not return through the normalising, zero-rejecting constructor" % op, line=f.node.lineno)
    table = {
        QUAT + "::random_attitudes": {"return Quaternion(q).to_DCM()": "rotmat", "return QuaternionArray(Q).to_DCM()": "rotmat"},
        QUAT + "::Quaternion.from_DCM": {}, QUAT + "::QuaternionArray.from_DCM": {}, QUAT + "::QuaternionArray.from_rpy": {},
        QUAT + "::QuaternionArray.rotate_by": {}, QUAT + "::QuaternionArray.average": {},
        QUAT + "::Quaternion.from_rpy": {"return q": "AVN"},
    }
    summ = {}
    for ref, exempt in table.items():
        f = prog.func(ref)
        chk.touch(f)
        fa = Facts(f, prog, unit_summaries=summ).analyse()
        n = 0
        for r0 in fa.ret_info:
            if r0["none"]:
                continue
            n += 1
            arms = [dict(r0, value=r0["stmt"].value)] if not r0.get("arms") else \
                [dict(r0, value=a["expr"], unit=a["unit"], complex=a["complex"], text="%s [arm %s]" % (r0["text"], a["text"])) for a in r0["arms"]]
            for r in arms:
                _one_return(chk, prog, f, ref, r)
        if n == 0:
            chk.error("UNIT-RET: %s has no value-returning path" % ref)


COMPLEX_ADMITTING = ("number", "inexact", "generic", "complexfloating", "object_")


def real_dtype_gate(chk, prog):
    """REAL-GATE: the shared validator _assert_numerical_iterable (called by every constructor and converter before anything else) raises unless the
    dtype is a real one.  The predicate is classified structurally: equality with int / float dtypes, or np.issubdtype against np.integer /
    np.floating; an abstract class that also contains complex (np.number, np.inexact ...) lets complex input through, and the constructors then
    drop or reinterpret the imaginary part instead of refusing it."""
    f = prog.func("ahrs/utils/core.py::_assert_numerical_iterable")
    chk.touch(f)
    raises = [n for n in ast.walk(f.node) if isinstance(n, ast.If) and any(isinstance(b, ast.Raise) for b in n.body) and "dtype" in ast.unparse(n.test)]
    site = f.ref + "::dtype gate"
    if not raises:
        chk.record("REAL-GATE", site, "a dtype test guards a raise", verdict="VIOLATION")
        chk.finding("REAL-GATE", f.module.rel, f.qname, "no dtype gate", "the validator no longer raises on a non-numeric / non-real dtype", line=f.node.lineno)
        return
    bad = []
    for r in raises:
        names = {}
        for s_ in ast.walk(f.node):      # resolve locals used in the test
            if isinstance(s_, ast.Assign) and isinstance(s_.targets[0], ast.Name):
                names[s_.targets[0].id] = s_.value
        for c in ast.walk(r.test):
            if isinstance(c, ast.Call) and ast.unparse(c.func).split(".")[-1] == "issubdtype" and len(c.args) == 2:
                cls = ast.unparse(c.args[1]).split(".")[-1]
                if cls in COMPLEX_ADMITTING:
                    bad.append((c, cls))
    if bad:
        c, cls = bad[0]
        why = "`%s` is true for complex dtypes as well (np.%s contains complexfloating): complex vectors and complex-orthogonal matrices pass the validator" % (ast.unparse(c), cls)
        chk.record("REAL-GATE", site, "the dtype gate admits real dtypes only", verdict="VIOLATION", detail=why)
        chk.finding("REAL-GATE", f.module.rel, f.qname, "dtype gate admits complex: %s" % ast.unparse(c), why, line=c.lineno)
    else:
        chk.record("REAL-GATE", site, "the dtype gate admits real (int / float) dtypes only")


def canaries(chk, prog):
    from sa.report import Check

    def drop_det(tree):
        for n in ast.walk(tree):
            if isinstance(n, ast.FunctionDef) and n.name == "_assert_SO3":
                for s in ast.walk(n):
                    if isinstance(s, ast.Assign) and "det(" in ast.unparse(s.value):
                        s.value = ast.Constant(True)
                        return True
        return False

    def weaken_zero(tree):
        for c in ast.walk(tree):
            if isinstance(c, ast.ClassDef) and c.name == "QuaternionArray":
                for n in ast.walk(c):
                    if isinstance(n, ast.If) and "q_norm" in ast.unparse(n.test) and any(isinstance(b, ast.Raise) for b in n.body):
                        n.test = ast.parse("np.any(q_norm == 0)").body[0].value
                        return True
        return False
    def drop_contig(tree):
        for c in ast.walk(tree):
            if isinstance(c, ast.ClassDef) and c.name == "DCM":
                for fn_ in c.body:
                    if isinstance(fn_, ast.FunctionDef) and fn_.name == "__new__":
                        for i, s_ in enumerate(fn_.body):
                            if isinstance(s_, ast.Assign) and "ascontiguousarray" in ast.unparse(s_.value):
                                fn_.body[i] = ast.Pass()
                                return True
        return False
    try:
        p2 = prog.mutated(DCM, drop_contig)
        sub = Check("C11", chk.tier, p2, quiet=True)
        dcm_ctor(sub, p2)
        chk.canary("hand the caller's matrix to ndarray.__new__ without ascontiguousarray (DCM)", any(f_.rule == "BUFFER-LAYOUT" for f_ in sub.findings), "%d findings" % len(sub.findings))
    except Exception as e:
        chk.canary("raw buffer in DCM.__new__", False, "canary crashed: %s: %s" % (type(e).__name__, e))
    for name, rel, tr, fn in (("drop the det test from _assert_SO3", DCM, drop_det, lambda sub, p2: so3_gate(sub, p2, DCM + "::_assert_SO3")),
                             ("`~(n > 0)` -> `n == 0` in QuaternionArray.__new__", QUAT, weaken_zero, lambda sub, p2: quat_ctor(sub, p2, QUAT + "::QuaternionArray.__new__", "versors"))):
        try:
            p2 = prog.mutated(rel, tr)
            sub = Check("C11", chk.tier, p2, quiet=True)
            fn(sub, p2)
            chk.canary(name, bool(sub.findings), "%d findings" % len(sub.findings))
        except Exception as e:
            chk.canary(name, False, "canary crashed: %s: %s" % (type(e).__name__, e))


def run(chk, prog, tier):
    # DCM(axang=...) with an axis of any non-zero length is a proper rotation (obligations of C10's AXANG.matrix, shared)
    from props.c10 import axang as _axang
    _axang(chk, prog, only_matrix=True)
    quat_ctor(chk, prog, QUAT + "::Quaternion.__new__", "versor")
    quat_ctor(chk, prog, QUAT + "::QuaternionArray.__new__", "versors")
    dcm_ctor(chk, prog)
    so3_gate(chk, prog, DCM + "::_assert_SO3")
    so3_gate(chk, prog, QUAT + "::Quaternion.from_DCM")
    rewrap_and_returns(chk, prog)
    real_dtype_gate(chk, prog)
    chk.require_count("CTOR-GATE.quat", 4)
    chk.require_count("SO3-GATE", 2)
    chk.require_count("BUFFER-LAYOUT", 3)
    canaries(chk, prog)
    return __doc__
