"""C08 — gyro integration is exact for constant rates, of the stated order otherwise.

Decided (AVN, exact):
 OMEGA      each hand-written Omega(w) matrix (EKF.Omega, UKF.Omega, FKF.Omega4, Quaternion.ode, the inline ones of
            AngularRate.update and ROLEQ.attitude_propagation, AQUA.Omega in its conjugate convention) satisfies
            Omega(w) q == q (x) (0, w) (resp. 1/2 (0,-w) (x) q), Omega^T == -Omega, Omega^2 == -|w|^2 I;
 CLOSED     AngularRate.update(method='closed') == q (x) [cos(|w|dt/2), sin(|w|dt/2) w/|w|]  (the exact exponential, same
            half angle in both atoms, the per-call dt);
 SERIES     AngularRate.update(method='series', order=k) == normalise( sum_{i<=k} (dt/2 Omega)^i / i!  q ) with MATRIX powers,
            for k = 0..3 (quick) / 0..5 (thorough);
 STEP       with a null accelerometer Madgwick.updateIMU, Mahony.updateIMU, AQUA.updateIMU all return
            normalise(q + dt/2 q (x) (0, w)) (AQUA in its conjugate convention), independently of carried state (bias);
            EKF.f and ROLEQ.attitude_propagation are (I + dt/2 Omega) q;
 ANGVEL     QuaternionArray.angular_velocities(dt)[t] == (2/dt) vec(conj(q_t) (x) q_{t+1}).
Not decided: the O((|w|dt)^(k+1)) error constants, the cumulative-Euler 'integration' method.
Added after the seeding rounds (DESIGN.md 6.6-6.8):
 PROTOCOL (order/method forwarded), ANGVEL.gate (no tolerance gate between consecutive samples), null-accelerometer step of the MARG entry points.
Added after seeding rounds 5 and 6 and refactoring round 4 (DESIGN.md 6.10-6.12):
 PROTOCOL for every filter named in the property; motion thresholds recorded by ANGVEL.gate.
"""
import ast
from math import factorial
import numpy as np
from sa import poly as P
from sa.symeval import Interp, sym_vec, to_obj, unit_quat, unit_syms, vec_norm, Obj
from sa.lib import eq, all_of, I, hamilton_ref, free_quat, normalized, quat_obj, QUAT

F = "ahrs/filters/"


def omega_ref(w):
    return np.array([[P.ZERO, -w[0], -w[1], -w[2]], [w[0], P.ZERO, w[2], -w[1]], [w[1], -w[2], P.ZERO, w[0]], [w[2], w[1], -w[0], P.ZERO]], dtype=object)


def pure(w):
    return np.concatenate([[P.ZERO], w])


def omega_sites(chk, prog):
    q, w = free_quat("q"), sym_vec("w", 3)
    w2 = w[0] * w[0] + w[1] * w[1] + w[2] * w[2]
    it = Interp(prog)
    sites = [("ekf.py::EKF.Omega", "EKF"), ("ukf.py::UKF.Omega", "UKF"), ("fkf.py::FKF.Omega4", "FKF")]
    for key, cls in sites:
        f = prog.func(F + key)
        chk.touch(f)
        obj = it.make_obj(F + key.split("::")[0] + "::" + cls)
        kw = dict(module=f.module.rel, function=f.qname, line=f.node.lineno)
        M = lambda f=f, obj=obj: to_obj(it.run(f, [w], self_obj=obj))
        chk.ob("OMEGA.action", F + key, "Omega(w) q == q (x) (0,w)", lambda M=M: eq(M() @ q, hamilton_ref(q, pure(w)), "Omega q"), construct="Omega q == q(x)(0,w)", **kw)
        chk.ob("OMEGA.skew", F + key, "Omega^T == -Omega and Omega^2 == -|w|^2 I",
               lambda M=M: all_of(eq(M().T, -M(), "Omega^T"), eq(M() @ M(), -w2 * I(4), "Omega^2")), construct="Omega skew / square", **kw)
    # Quaternion.ode
    f = prog.func(QUAT + "::Quaternion.ode")
    chk.touch(f)
    def ode_law():
        got = it.run(f, [w], self_obj=quat_obj(it, q))
        body = eq(got, hamilton_ref(q, pure(w)) / 2, "ode (body-frame rate)")
        if body is True:
            return True
        world = eq(got, hamilton_ref(pure(w), q) / 2, "ode (world-frame rate)")
        return True if world is True else world
    chk.ob("OMEGA.action", QUAT + "::Quaternion.ode", "ode(w) is a quaternion kinematic equation: 1/2 q (x) (0,w) or 1/2 (0,w) (x) q (the convention is not documented)",
           ode_law, module=QUAT, function="Quaternion.ode", construct="ode == 1/2 q(x)(0,w) or 1/2 (0,w)(x)q", line=f.node.lineno)
    # AQUA.Omega (conjugate convention)
    f = prog.func(F + "aqua.py::AQUA.Omega")
    chk.touch(f)
    obj = it.make_obj(F + "aqua.py::AQUA")
    chk.ob("OMEGA.action", F + "aqua.py::AQUA.Omega", "AQUA.Omega(w) q == 1/2 (0,-w) (x) q",
           lambda: eq(to_obj(it.run(f, [w], self_obj=obj)) @ q, hamilton_ref(pure(-w), q) / 2, "Omega_A q"), module=f.module.rel, function=f.qname,
           construct="Omega_A q == 1/2 (0,-w)(x)q", line=f.node.lineno)
    # ROLEQ.attitude_propagation and EKF.f
    dt = P.sym("dt")
    f = prog.func(F + "roleq.py::ROLEQ.attitude_propagation")
    chk.touch(f)
    obj = it.make_obj(F + "roleq.py::ROLEQ")
    chk.ob("STEP.predict", F + "roleq.py::ROLEQ.attitude_propagation", "== normalise(q + dt/2 q (x) (0,w))",
           lambda: eq(it.run(f, [q, w, dt], self_obj=obj), normalized(q + hamilton_ref(q, pure(w)) * dt / 2), "attitude_propagation"), module=f.module.rel, function=f.qname,
           construct="first-order step", line=f.node.lineno)
    f2 = prog.func(F + "ekf.py::EKF.f")
    chk.touch(f2)
    obj2 = it.make_obj(F + "ekf.py::EKF")
    chk.ob("STEP.predict", F + "ekf.py::EKF.f", "== q + dt/2 q (x) (0,w)",
           lambda: eq(it.run(f2, [q, w, dt], self_obj=obj2), q + hamilton_ref(q, pure(w)) * dt / 2, "EKF.f"), module=f2.module.rel, function=f2.qname,
           construct="first-order step", line=f2.node.lineno)


def angular_rate(chk, prog, orders):
    f = prog.func(F + "angular.py::AngularRate.update")
    chk.touch(f)
    w = sym_vec("w", 3)
    q = unit_syms("uq")
    dt, Dt = P.sym("dt"), P.sym("Dt_instance")
    wn = vec_norm(w)
    kw = dict(module=f.module.rel, function=f.qname, line=f.node.lineno)

    def closed():
        it = Interp(prog)
        obj = it.make_obj(F + "angular.py::AngularRate", Dt=Dt)
        got = it.run(f, [q, w], {"method": "closed", "dt": dt}, self_obj=obj)
        phi = wn * dt / 2
        r = np.concatenate([[P.cos(phi)], P.sin(phi) * w / wn])
        return eq(got, hamilton_ref(q, r), "closed form")
    chk.ob("CLOSED", f.ref, "update(closed, dt) == q (x) [cos(|w|dt/2), sin(|w|dt/2) w/|w|]", closed, construct="closed form == exact exponential", **kw)

    def closed_default_dt():
        it = Interp(prog)
        obj = it.make_obj(F + "angular.py::AngularRate", Dt=Dt)
        got = it.run(f, [q, w], {"method": "closed"}, self_obj=obj)
        phi = wn * Dt / 2
        r = np.concatenate([[P.cos(phi)], P.sin(phi) * w / wn])
        return eq(got, hamilton_ref(q, r), "closed form (instance Dt)")
    chk.ob("CLOSED", f.ref + "::default-dt", "update(closed) uses the instance Dt when dt is not given", closed_default_dt, construct="closed form with default dt", **kw)
    for k in orders:
        def series(k=k):
            it = Interp(prog)
            obj = it.make_obj(F + "angular.py::AngularRate", Dt=Dt)
            got = it.run(f, [q, w], {"method": "series", "order": k, "dt": dt}, self_obj=obj)
            S = omega_ref(w) * dt / 2
            A = I(4)
            Pw = I(4)
            for i in range(1, k + 1):
                Pw = Pw @ S
                A = A + Pw / factorial(i)
            return eq(got, normalized(A @ q), "series order %d" % k)
        chk.ob("SERIES", f.ref + "::order=%d" % k, "update(series, order=%d) == normalise(sum (dt/2 Omega)^i/i! q) with matrix powers" % k, series,
               construct="series order %d" % k, **kw)


def dead_reckoning(chk, prog):
    w = sym_vec("w", 3)
    q = unit_syms("uq")
    dt = P.sym("dt")
    zero3 = np.array([P.ZERO] * 3, dtype=object)
    step = normalized(q + hamilton_ref(q, pure(w)) * dt / 2)
    for key, cls, attrs in (("madgwick.py::Madgwick.updateIMU", "Madgwick", {"gain": P.sym("gain")}),
                            ("mahony.py::Mahony.updateIMU", "Mahony", {"b": sym_vec("bias", 3), "k_P": P.sym("kP"), "k_I": P.sym("kI")})):
        f = prog.func(F + key)
        chk.touch(f)

        def law(f=f, cls=cls, attrs=attrs, key=key):
            it = Interp(prog)
            obj = it.make_obj(F + key.split("::")[0] + "::" + cls, Dt=P.sym("Dt_instance"), **attrs)
            got = it.run(f, [q, w, zero3], {"dt": dt}, self_obj=obj)
            return eq(got, step, "null-accelerometer step")
        chk.ob("STEP.null-acc", F + key, "null accelerometer: == normalise(q + dt/2 q (x) (0,w)), independent of carried state", law,
               module=f.module.rel, function=f.qname, construct="null-accelerometer step", line=f.node.lineno)
    f = prog.func(F + "aqua.py::AQUA.updateIMU")
    chk.touch(f)

    def aqua():
        it = Interp(prog)
        obj = it.make_obj(F + "aqua.py::AQUA", Dt=P.sym("Dt_instance"), alpha=P.sym("alpha"), threshold=P.sym("thr"), adaptive=False)
        got = it.run(f, [q, w, zero3], {"dt": dt}, self_obj=obj)
        return eq(got, normalized(q + hamilton_ref(pure(-w), q) * dt / 2), "AQUA null-accelerometer step")
    chk.ob("STEP.null-acc", F + "aqua.py::AQUA.updateIMU", "null accelerometer: == normalise(q + dt/2 (0,-w) (x) q) (conjugate convention)", aqua,
           module=f.module.rel, function=f.qname, construct="null-accelerometer step", line=f.node.lineno)


def dead_reckoning_marg(chk, prog):
    """the MARG entry points with a null accelerometer sample and a valid magnetometer sample: still the plain first-order step (no correction can be
    computed without gravity), in each filter's convention"""
    w = sym_vec("w", 3)
    m = sym_vec("mm", 3)
    q = unit_syms("uq")
    dt = P.sym("dt")
    zero3 = np.array([P.ZERO] * 3, dtype=object)
    step = normalized(q + hamilton_ref(q, pure(w)) * dt / 2)
    step_c = normalized(q + hamilton_ref(pure(-w), q) * dt / 2)
    for key, cls, attrs, want in (("madgwick.py::Madgwick.updateMARG", "Madgwick", {"gain": P.sym("gain")}, step),
                                  ("mahony.py::Mahony.updateMARG", "Mahony", {"b": sym_vec("bias", 3), "k_P": P.sym("kP"), "k_I": P.sym("kI")}, step),
                                  ("aqua.py::AQUA.updateMARG", "AQUA", {"alpha": P.sym("alpha"), "beta": P.sym("beta"), "threshold": P.sym("thr"), "adaptive": False}, step_c)):
        f = prog.func(F + key)
        chk.touch(f)

        def law(f=f, cls=cls, attrs=attrs, key=key, want=want):
            # any correction arm the code might enter is followed in generic position: whatever it computes differs from the plain step
            it = Interp(prog, oracle=lambda c, i: True if c.op in (">", ">=") else (False if c.op in ("<", "<=") else None))
            obj = it.make_obj(F + key.split("::")[0] + "::" + cls, Dt=P.sym("Dt_instance"), **attrs)
            try:
                got = it.run(f, [q, w, zero3, m], {"dt": dt}, self_obj=obj)
                return eq(got, want, "null-accelerometer MARG step")
            except P.TooBig:
                # a correction arm made the closed form explode: decide on a slice of the inputs that is still symbolic in the rate, the field and dt
                q1 = np.array([P.ONE, P.ZERO, P.ZERO, P.ZERO], dtype=object)
                w1 = np.array([P.ZERO, P.ZERO, w[2]], dtype=object)
                it2 = Interp(prog, oracle=lambda c, i: True if c.op in (">", ">=") else (False if c.op in ("<", "<=") else None))
                obj2 = it2.make_obj(F + key.split("::")[0] + "::" + cls, Dt=P.sym("Dt_instance"), **attrs)
                from sa.symeval import unit_vec as _uv
                got = it2.run(f, [q1, w1, zero3, _uv("um")], {"dt": dt}, self_obj=obj2)
                sub = {"uqw": P.ONE, "uqx": P.ZERO, "uqy": P.ZERO, "uqz": P.ZERO, "w0": P.ZERO, "w1": P.ZERO}
                want1 = np.array([x.subs(sub) for x in to_obj(want)], dtype=object)
                return eq(got, want1, "null-accelerometer MARG step (q = 1, rate about z)")
        chk.ob("STEP.null-acc", F + key, "null accelerometer, valid magnetometer: the plain first-order gyro step (no magnetometer-only correction)", law,
               module=f.module.rel, function=f.qname, construct="null-accelerometer step (MARG)", line=f.node.lineno)


def angvel(chk, prog):
    f = prog.func(QUAT + "::QuaternionArray.angular_velocities")
    chk.touch(f)
    gates = []

    def oracle(c, i):
        if c.op in ("isclose", "allclose"):
            tol = ("tol",) + tuple(getattr(c, "tol", None) or (1e-5, 1e-8))
            gates.append((str(c.lhs)[:40], str(c.rhs)[:40], tol[1], tol[2]))
            return False
        if c.op in ("<=", "<", ">", ">="):
            # a comparison of a computed quantity with a small literal is a motion threshold: recorded, and answered as for generic (not small) motion
            for side, other in ((c.lhs, c.rhs), (c.rhs, c.lhs)):
                try:
                    k_ = other.const() if hasattr(other, "const") else None
                except Exception:
                    k_ = None
                if k_ is not None and 0 < abs(float(k_)) <= 1e-3 and hasattr(side, "const") and side.const() is None:
                    gates.append((str(side)[:40], str(other)[:40], 0.0, abs(float(k_))))
                    return (c.op in (">", ">=")) == (side is c.lhs)
            return False if c.op in ("<=", "<") else None
        return None
    it = Interp(prog, oracle=oracle)
    q0, q1, q2 = free_quat("qa"), free_quat("qb"), free_quat("qc")
    dt = P.sym("dt")
    Q = np.vstack([q0, q1, q2])

    def law():
        got = to_obj(it.run(f, [dt], self_obj=quat_obj(it, Q, cls="QuaternionArray")))
        conj = lambda v: v * np.array([1, -1, -1, -1], dtype=object)
        w0 = hamilton_ref(conj(q0), q1)[1:] * 2 / dt
        w1 = hamilton_ref(conj(q1), q2)[1:] * 2 / dt
        return all_of(eq(got[0], w0, "w[0]"), eq(got[1], w1, "w[1]"))
    chk.ob("ANGVEL", f.ref, "angular_velocities(dt)[t] == (2/dt) vec(conj(q_t) (x) q_{t+1})", law, module=QUAT, function=f.qname, construct="angular velocity formula", line=f.node.lineno)
    # the formula must hold for arbitrarily slow rotations: a tolerance gate between samples replaces it on a band of genuine motion
    wide = [g for g in gates if (g[2] or 0) > 1e-12 or (g[3] or 0) > 1e-12]
    if wide:
        g = wide[0]
        why = "a tolerance / threshold test of `%s` against `%s` (rtol=%g, atol or threshold=%g) between consecutive samples decides the result: every rotation step smaller than it is treated as `no motion`" % g
        chk.record("ANGVEL.gate", f.ref, "no tolerance gate between consecutive samples", verdict="VIOLATION", detail=why)
        chk.finding("ANGVEL.gate", QUAT, f.qname, "tolerance gate on consecutive samples", why, line=f.node.lineno)
    else:
        chk.record("ANGVEL.gate", f.ref, "no tolerance gate between consecutive samples decides the rate (%d exact comparisons)" % len(gates))


def canaries(chk, prog):
    from sa.report import Check
    from props.c01 import flip
    for name, rel, fn, nth, cls, part in (("flip a sign in FKF.Omega4", F + "fkf.py", "Omega4", 0, "FKF", omega_sites),):
        try:
            def tr(tree):
                for c in ast.walk(tree):
                    if isinstance(c, ast.ClassDef) and c.name == cls:
                        for f_ in c.body:
                            if isinstance(f_, ast.FunctionDef) and f_.name == fn:
                                for n in ast.walk(f_):
                                    if isinstance(n, ast.UnaryOp) and isinstance(n.op, ast.USub):
                                        n.op = ast.UAdd()
                                        return True
                return False
            p2 = prog.mutated(rel, tr)
            sub = Check("C08", chk.tier, p2, quiet=True)
            part(sub, p2)
            chk.canary(name, any("Omega4" in f_.function for f_ in sub.findings), "%d findings" % len(sub.findings))
        except Exception as e:
            chk.canary(name, False, "crashed: %s: %s" % (type(e).__name__, e))

    def half_angle(tree):
        for n in ast.walk(tree):
            if isinstance(n, ast.FunctionDef) and n.name == "update":
                for c in ast.walk(n):
                    if isinstance(c, ast.Call) and ast.unparse(c.func) == "np.cos" and "2.0" in ast.unparse(c):
                        c.args[0] = ast.parse("w*dt").body[0].value
                        return True
        return False
    try:
        p2 = prog.mutated(F + "angular.py", half_angle)
        sub = Check("C08", chk.tier, p2, quiet=True)
        angular_rate(sub, p2, [1])
        chk.canary("cos(w*dt/2) -> cos(w*dt) in the closed form", any(f_.rule == "CLOSED" for f_ in sub.findings), "%d findings" % len(sub.findings))
    except Exception as e:
        chk.canary("wrong half angle", False, "crashed: %s: %s" % (type(e).__name__, e))


def run(chk, prog, tier):
    omega_sites(chk, prog)
    angular_rate(chk, prog, range(0, 6) if tier == "thorough" else range(0, 4))
    dead_reckoning(chk, prog)
    dead_reckoning_marg(chk, prog)
    angvel(chk, prog)
    # the constructor route reaches the same integrator with the requested method and order (same rule as C06's PROTOCOL)
    # and the batch routines of the filters whose dead-reckoning / prediction steps are decided above run exactly those steps, row by row
    from props.c06 import protocol, STREAMING
    for key in ("angular.py::AngularRate", "madgwick.py::Madgwick", "mahony.py::Mahony", "aqua.py::AQUA", "ekf.py::EKF", "roleq.py::ROLEQ"):
        protocol(chk, prog, prog.cls("ahrs/filters/" + key), STREAMING[key])
    chk.require_count("PROTOCOL", 8)
    chk.require_count("OMEGA.action", 5)
    chk.require_count("STEP.null-acc", 3)
    canaries(chk, prog)
    return __doc__
