"""C09 — quaternion arithmetic obeys the Hamilton algebra laws.

Decided (AVN, exact, for *free* non-normalised quaternions unless stated): the
extracted product is the Hamilton product, associative, norm-multiplicative, and
anti-commutes with conjugation; mult_L/mult_R (and the q_mult_L/q_mult_R twins, which
normalise first) reproduce it; *, @, product and q_prod agree; inverse(q)*q = q*inverse(q) = 1
on the versor and on the non-versor arm; a scalar-last quaternion exposes the same
w,x,y,z,v,conjugate,product,to_DCM as the scalar-first one; the constructor maps
order='S' to that storage flag.
Not decided: rounding.
Added after seeding rounds 5 and 6 and refactoring round 4 (DESIGN.md 6.10-6.12):
 IDENT.storage shared with C01 (matrix of a scalar-last object).
"""
import numpy as np
from sa import poly as P
from sa.lib import *
from sa.symeval import Interp, unit_quat, sym_vec, to_obj, ClassRef, Cond
from props.c01 import flip


def sq(v):
    t = P.ZERO
    for x in v:
        t = t + x * x
    return t


def run_laws(chk, prog):
    it = Interp(prog)
    p, q, r = free_quat("p"), free_quat("q"), free_quat("r")
    one = np.array([P.ONE, P.ZERO, P.ZERO, P.ZERO], dtype=object)
    fprod = prog.func(QUAT + "::Quaternion.product")
    chk.touch(fprod)
    kw = dict(module=QUAT, function="Quaternion.product", line=fprod.node.lineno)
    site = QUAT + "::Quaternion.product"
    def ham(sub, mk):
        p_, q_ = free_quat("p", sub), free_quat("q", sub)
        return eq(prod_of(mk(prog), p_, q_), hamilton_ref(p_, q_), "p*q")
    ob_arms(chk, "IDENT.hamilton", site, "product == Hamilton product", ham, construct="product == Hamilton", **kw)
    chk.ob("IDENT.assoc", site, "(p*q)*r == p*(q*r)", lambda: eq(prod_of(it, prod_of(it, p, q), r), prod_of(it, p, prod_of(it, q, r)), "(pq)r"), construct="associativity", **kw)
    chk.ob("IDENT.norm", site, "|p*q|^2 == |p|^2 |q|^2", lambda: eq(sq(prod_of(it, p, q)), sq(p) * sq(q), "|pq|^2"), construct="norm multiplicative", **kw)
    chk.ob("IDENT.antihom", site, "(p*q)* == q* p*", lambda: eq(conj_of(it, prod_of(it, p, q)), prod_of(it, conj_of(it, q), conj_of(it, p)), "(pq)*"), construct="(pq)* == q* p*", **kw)
    chk.ob("IDENT.unit", site, "1*q == q*1 == q", lambda: all_of(eq(prod_of(it, one, q), q, "1q"), eq(prod_of(it, q, one), q, "q1")), construct="identity element", **kw)
    # L / R matrices
    for nm, law, expect in (("mult_L", "mult_L(p) q == p*q", lambda: prod_of(it, p, q)), ("mult_R", "mult_R(p) q == q*p", lambda: prod_of(it, q, p))):
        f = prog.func(QUAT + "::Quaternion." + nm)
        chk.touch(f)
        def lr(sub, mk, f=f, nm=nm):
            it_ = mk(prog)
            p_, q_ = free_quat("p", sub), free_quat("q", sub)
            want = hamilton_ref(p_, q_) if nm == "mult_L" else hamilton_ref(q_, p_)
            return eq(it_.run(f, [], self_obj=quat_obj(it_, p_)) @ q_, want, nm)
        ob_arms(chk, "IDENT." + nm, QUAT + "::Quaternion." + nm, law, lr,
                module=QUAT, function="Quaternion." + nm, construct=law, line=f.node.lineno)
        g = prog.func(ORI + "::q_" + nm)
        chk.touch(g)
        pn = normalized(p)
        chk.ob("TWIN.q_" + nm, ORI + "::q_" + nm, "q_%s(p) == %s of p/|p|" % (nm, nm),
               lambda f=f, g=g: eq(it.run(g, [p.copy()]), it.run(f, [], self_obj=quat_obj(it, pn)), "q_" + nm),
               module=ORI, function="q_" + nm, construct="q_%s == Quaternion.%s(normalised)" % (nm, nm), line=g.node.lineno)
    # agreement of entry points
    fq = prog.func(ORI + "::q_prod")
    chk.touch(fq)
    chk.ob("TWIN.q_prod", ORI + "::q_prod", "q_prod(p,q) == product", lambda: eq(it.run(fq, [p, q]), prod_of(it, p, q), "q_prod"),
           module=ORI, function="q_prod", construct="q_prod == product", line=fq.node.lineno)
    fc = prog.func(ORI + "::q_conj")
    chk.touch(fc)
    chk.ob("TWIN.q_conj", ORI + "::q_conj", "q_conj(q) == conjugate", lambda: eq(it.run(fc, [q]), conj_of(it, q), "q_conj"),
           module=ORI, function="q_conj", construct="q_conj == conjugate", line=fc.node.lineno)
    def conj_rows():
        out = to_obj(it.run(fc, [np.vstack([q, p])]))
        if getattr(out, "shape", None) != (2, 4):
            return (False, "q_conj of a 2-by-4 array has shape %s" % (getattr(out, "shape", None),), None)
        return all_of(eq(out[0], conj_of(it, q), "q_conj(Q)[0]"), eq(out[1], conj_of(it, p), "q_conj(Q)[1]"))
    chk.ob("TWIN.q_conj", ORI + "::q_conj::N-by-4", "q_conj(Q)[i] == conjugate of Q[i] for an N-by-4 array (documented input)", conj_rows,
           module=ORI, function="q_conj", construct="q_conj rows == conjugate", line=fc.node.lineno)
    for op in ("__mul__", "__matmul__"):
        f = prog.func(QUAT + "::Quaternion." + op)
        chk.touch(f)
        chk.ob("CALL.operator", QUAT + "::Quaternion." + op, "%s(q) == product(q)" % op,
               lambda f=f: eq(it.run(f, [q], self_obj=quat_obj(it, p)), prod_of(it, p, q), op),
               module=QUAT, function="Quaternion." + op, construct="%s == product" % op, line=f.node.lineno)
    for alias, target in (("conj", "conjugate"), ("inv", "inverse")):
        f = prog.func(QUAT + "::Quaternion." + alias)
        chk.touch(f)


def run_inverse(chk, prog):
    finv = prog.func(QUAT + "::Quaternion.inverse")
    chk.touch(finv)
    one = np.array([P.ONE, P.ZERO, P.ZERO, P.ZERO], dtype=object)
    for arm, q, versor in (("non-versor arm", free_quat("q"), False), ("versor arm", unit_quat("q"), True)):
        def law(q=q, versor=versor):
            def oracle(c, it):
                if c.op == "isclose":
                    return versor
                return None
            it = Interp(prog, oracle=oracle)
            qi = it.getattr(quat_obj(it, q), "inverse", None)
            return all_of(eq(prod_of(it, qi, q), one, "inverse*q"), eq(prod_of(it, q, qi), one, "q*inverse"))
        chk.ob("IDENT.inverse", QUAT + "::Quaternion.inverse", "inverse(q)*q == q*inverse(q) == 1 (%s)" % arm, law,
               module=QUAT, function="Quaternion.inverse", construct="inverse*q == 1 [%s]" % arm, line=finv.node.lineno)

    def alias():
        it = Interp(prog, oracle=lambda c, i: False if c.op == "isclose" else None)
        q = free_quat("q")
        return eq(it.getattr(quat_obj(it, q), "inv", None), it.getattr(quat_obj(it, q), "inverse", None), "inv")
    chk.ob("CALL.alias", QUAT + "::Quaternion.inv", "inv == inverse", alias, module=QUAT, function="Quaternion.inv", construct="inv == inverse")


def run_scalar_last(chk, prog):
    it = Interp(prog)
    q = free_quat("q")            # (w, x, y, z)
    qs = np.roll(q, -1)           # storage (x, y, z, w)
    H = quat_obj(it, q, True)
    S = quat_obj(it, qs, False)
    site = QUAT + "::Quaternion"
    for i, nm in enumerate("wxyz"):
        f = prog.func(QUAT + "::Quaternion." + nm)
        chk.touch(f)
        chk.ob("STORAGE.accessor", site + "." + nm, "%s of scalar-last storage == %s of scalar-first" % (nm, nm),
               lambda nm=nm, i=i: all_of(eq(it.getattr(S, nm, None), q[i], nm + "[S]"), eq(it.getattr(H, nm, None), q[i], nm + "[H]")),
               module=QUAT, function="Quaternion." + nm, construct="accessor %s honours scalar_vector" % nm, line=f.node.lineno)
    chk.touch(prog.func(QUAT + "::Quaternion.v"))
    chk.ob("STORAGE.accessor", site + ".v", "v of both storages == (x,y,z)",
           lambda: all_of(eq(it.getattr(S, "v", None), q[1:], "v[S]"), eq(it.getattr(H, "v", None), q[1:], "v[H]")),
           module=QUAT, function="Quaternion.v", construct="accessor v honours scalar_vector")
    chk.ob("STORAGE.conjugate", site + ".conjugate", "conjugate of scalar-last storage is the scalar-last image of q*",
           lambda: eq(it.getattr(S, "conjugate", None), np.roll(it.getattr(H, "conjugate", None), -1), "conjugate[S]"),
           module=QUAT, function="Quaternion.conjugate", construct="conjugate honours scalar_vector")
    r = free_quat("r")
    chk.ob("STORAGE.product", site + ".product", "product of scalar-last storage == product of scalar-first",
           lambda: eq(it.run(prog.func(QUAT + "::Quaternion.product"), [r], self_obj=S), prod_of(it, q, r), "product[S]"),
           module=QUAT, function="Quaternion.product", construct="product honours scalar_vector")
    chk.ob("STORAGE.to_DCM", site + ".to_DCM", "to_DCM of scalar-last storage == to_DCM of scalar-first",
           lambda: eq(it.run(prog.func(QUAT + "::Quaternion.to_DCM"), [], self_obj=S), E_of(it, q), "to_DCM[S]"),
           module=QUAT, function="Quaternion.to_DCM", construct="to_DCM honours scalar_vector")
    for nm in ("mult_L", "mult_R", "to_angles"):
        f = prog.func(QUAT + "::Quaternion." + nm)
        chk.touch(f)
        chk.ob("STORAGE." + nm, site + "." + nm, "%s of scalar-last storage == %s of scalar-first" % (nm, nm),
               lambda f=f: eq(it.run(f, [], self_obj=S), it.run(f, [], self_obj=H), nm + "[S]"),
               module=QUAT, function="Quaternion." + nm, construct="%s honours scalar_vector" % nm, line=f.node.lineno)

    def ctor():
        it2 = Interp(prog)
        cls = prog.cls(QUAT + "::Quaternion")
        a = sym_vec("a", 4)
        o_s = it2.instantiate(cls, [a.copy()], {"order": "S"})
        o_h = it2.instantiate(cls, [a.copy()], {})
        o_h2 = it2.instantiate(cls, [a.copy()], {"order": "H"})
        ok = o_s.attrs.get("scalar_vector") is False and o_h.attrs.get("scalar_vector") is True and o_h2.attrs.get("scalar_vector") is True
        return ok or (False, "constructor: order='S' -> scalar_vector=%r, default -> %r" % (o_s.attrs.get("scalar_vector"), o_h.attrs.get("scalar_vector")))
    chk.touch(prog.func(QUAT + "::Quaternion.__new__"))
    chk.ob("STORAGE.ctor", site + ".__new__", "order='S' selects scalar-last storage, default scalar-first", ctor,
           module=QUAT, function="Quaternion.__new__", construct="order -> scalar_vector")


def canaries(chk, prog):
    from sa.report import Check
    for name, rel, fn, nth, cls, part in (
            ("flip a sign in Quaternion.product", QUAT, "product", 9, "Quaternion", run_laws),
            ("flip a sign in Quaternion.mult_R", QUAT, "mult_R", 0, "Quaternion", None),
            ("flip a sign in q_prod", ORI, "q_prod", 2, None, run_laws)):
        try:
            if fn == "mult_R":
                import ast

                def tr(tree):
                    for c in ast.walk(tree):
                        if isinstance(c, ast.ClassDef) and c.name == "Quaternion":
                            for f in c.body:
                                if isinstance(f, ast.FunctionDef) and f.name == "mult_R":
                                    for n in ast.walk(f):
                                        if isinstance(n, ast.UnaryOp) and isinstance(n.op, ast.USub):
                                            n.op = ast.UAdd()
                                            return True
                    return False
                p2 = prog.mutated(rel, tr)
                part = run_laws
            else:
                p2 = flip(prog, rel, fn, nth, cls)
            sub = Check("C09", chk.tier, p2, quiet=True)
            part(sub, p2)
            chk.canary(name, bool(sub.findings), "findings on edited tree: %d" % len(sub.findings))
        except Exception as e:
            chk.canary(name, False, "canary crashed: %s: %s" % (type(e).__name__, e))


def run(chk, prog, tier):
    # objects built as versors are exactly normalised: that is what makes `inverse == conjugate` (the versor arm of the laws below) valid (rule shared with C11)
    from props.c11 import quat_ctor
    quat_ctor(chk, prog, QUAT + "::Quaternion.__new__", "versor")
    quat_ctor(chk, prog, QUAT + "::QuaternionArray.__new__", "versors")
    run_laws(chk, prog)
    run_inverse(chk, prog)
    run_scalar_last(chk, prog)
    # ... and the matrix both classes expose for a scalar-last object is the matrix of the same quaternion stored scalar-first (rule shared with C01)
    from props.c01 import scalar_last_routes
    scalar_last_routes(chk, prog)
    chk.require_count("STORAGE.accessor", 5)
    chk.require_count("IDENT.inverse", 2)
    canaries(chk, prog)
    return __doc__
